#!/bin/sh
# Builds the verification harness offline from files on disk.
set -e
cd "$(dirname "$0")/harness"
export CARGO_NET_OFFLINE=true
cargo build -p vchecks -p vgen
