//! Stage A/B driver: decodes a batch of receiver specs from the seed and writes a generated crate.
//! `vgen --seed S --n N --out DIR --name NAME [--kind main|...] [--from-replay FILE] [--no-default-features]`

use std::collections::BTreeMap;
use vmodel::dec::D;
use vmodel::spec::Spec;

fn write_if_changed(path: &std::path::Path, content: &str) {
    if let Ok(old) = std::fs::read_to_string(path) {
        if old == content {
            return;
        }
    }
    std::fs::write(path, content).expect("write generated file");
}

fn main() {
    let argv: Vec<String> = std::env::args().collect();
    let mut a: BTreeMap<String, String> = BTreeMap::new();
    let mut i = 1;
    while i < argv.len() {
        if argv[i] == "--no-default-features" {
            a.insert("nodf".into(), "1".into());
            i += 1;
        } else {
            a.insert(argv[i].trim_start_matches("--").to_string(), argv.get(i + 1).cloned().unwrap_or_default());
            i += 2;
        }
    }
    let seed: u64 = a.get("seed").and_then(|s| s.parse().ok()).unwrap_or(1);
    let n: usize = a.get("n").and_then(|s| s.parse().ok()).unwrap_or(60);
    let out = a.get("out").cloned().expect("--out");
    let name = a.get("name").cloned().unwrap_or_else(|| "l3main".into());
    let kind = a.get("kind").cloned().unwrap_or_else(|| "main".into());
    let specs: Vec<Spec> = if let Some(f) = a.get("from-replay") {
        // the replay file carries the receiver and everything it depends on
        let v: serde_json::Value = serde_json::from_str(&std::fs::read_to_string(f).expect("replay file")).expect("json");
        serde_json::from_value(v["rendered"]["specs"].clone())
            .or_else(|_| serde_json::from_value(v["case"]["specs"].clone()))
            .expect("replay file carries no specs")
    } else {
        // bytes for the decoder: a ChaCha-free, dependency-free stream from the seed
        // (at least 64 KiB of decoder input, whatever n is)
        let want = (n * 400).max(65536);
        let mut bytes = Vec::with_capacity(want);
        let mut k = 0u64;
        while bytes.len() < want {
            bytes.extend_from_slice(&vmodel::ev::seed_bytes(vmodel::ev::hash64(&(seed, &kind, k))));
            k += 1;
        }
        let mut d = D::new(&bytes);
        match kind.as_str() {
            "main" => vmodel::gen::gen_batch(&mut d, &vmodel::gen::BatchCfg { n, max_depth: 3 }),
            "magic" => vmodel::gen_elem::gen_magic_batch(&mut d),
            "sugg" => vmodel::gen_sugg::gen_sugg_batch(&mut d, n / 5),
            "shapes" => vmodel::gen_elem::gen_shapes_batch(&mut d, n),
            "c20" => vec![],
            other => panic!("unknown kind {}", other),
        }
    };
    let dir = std::path::Path::new(&out);
    std::fs::create_dir_all(dir.join("src")).expect("mkdir");
    if kind == "c20" {
        let mut bytes = Vec::new();
        let mut k = 0u64;
        while bytes.len() < n * 500 {
            bytes.extend_from_slice(&vmodel::ev::seed_bytes(vmodel::ev::hash64(&(seed, "c20", k))));
            k += 1;
        }
        let mut d = D::new(&bytes);
        let mut specs = vmodel::gen::gen_batch(&mut d, &vmodel::gen::BatchCfg { n, max_depth: 3 });
        vmodel::gen::hostile_rename(&mut specs, &mut d);
        let base = specs.len();
        let mut magic = vmodel::gen_elem::gen_magic_batch(&mut d);
        // renumber the magic batch after the main one
        for m in magic.iter_mut() {
            m.id += base;
            for f in m.magic.iter_mut() {
                f.variant_recv = f.variant_recv.map(|x| if x == usize::MAX { x } else { x + base });
                f.field_recv = f.field_recv.map(|x| if x == usize::MAX { x } else { x + base });
            }
            if let vmodel::spec::Body::Struct(fs) = &mut m.body {
                for f in fs.iter_mut() {
                    f.rust_name = format!("{}m", f.rust_name);
                }
            }
        }
        specs.extend(magic);
        let mut extras = vmodel::emit::c20_extras(specs.len() + 1000, vmodel::gen::HOSTILE);
        let first = extras.iter().map(|e| e.0).max().unwrap_or(0) + 1;
        extras.extend(vmodel::emit::c20_generics(&mut d, first, (n / 3).max(40)));
        let (src, ranges) = vmodel::emit::emit_c20_source(&specs, &extras);
        write_if_changed(&dir.join("Cargo.toml"), &vmodel::emit::cargo_toml_c20(&name));
        write_if_changed(&dir.join("src/main.rs"), &src);
        let meta = serde_json::json!({
            "ranges": ranges,
            "specs": specs,
            "extras": extras.iter().map(|(id, s)| (format!("X{}", id), s.clone())).collect::<std::collections::BTreeMap<_, _>>(),
        });
        write_if_changed(&dir.join("receivers.json"), &serde_json::to_string(&meta).unwrap());
        if let Ok(lock) = std::fs::read_to_string("/verif/harness/Cargo.lock") {
            if !dir.join("Cargo.lock").exists() {
                std::fs::write(dir.join("Cargo.lock"), lock).ok();
            }
        }
        println!("vgen: {} receivers -> {}", ranges.len(), out);
        return;
    }
    write_if_changed(&dir.join("Cargo.toml"), &vmodel::emit::cargo_toml(&name, !a.contains_key("nodf")));
    write_if_changed(&dir.join("src/main.rs"), &vmodel::emit::emit_crate_source(&specs));
    if let Ok(lock) = std::fs::read_to_string("/verif/harness/Cargo.lock") {
        if !dir.join("Cargo.lock").exists() {
            std::fs::write(dir.join("Cargo.lock"), lock).ok();
        }
    }
    println!("vgen: {} receivers -> {}", specs.len(), out);
}
