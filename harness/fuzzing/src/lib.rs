// parent crate required by cargo-fuzz
