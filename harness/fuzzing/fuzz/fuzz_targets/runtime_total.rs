//! C07 (thorough tier): a fixed fixture set of derived receivers and built-in targets on arbitrary
//! parseable elements / meta items: no call may panic.
#![no_main]
use darling::{ast, util::Flag, FromAttributes, FromDeriveInput, FromField, FromMeta, FromTypeParam, FromVariant};
use libfuzzer_sys::fuzz_target;
use std::collections::HashMap;
use vmodel::dec::D;

#[derive(Debug, FromMeta)]
struct Leaf {
    a: u8,
    #[darling(default)]
    b: Option<String>,
    #[darling(multiple)]
    c: Vec<i64>,
}
#[derive(Debug, FromMeta)]
#[darling(rename_all = "snake_case")]
enum Choice {
    Unit,
    #[darling(skip)]
    Hidden,
    New(u8),
    St { x: u16, #[darling(default)] y: Flag },
}
#[derive(Debug, FromMeta)]
struct Mid {
    m: char,
    #[darling(flatten)]
    rest: HashMap<String, syn::Expr>,
}
#[derive(Debug, FromField)]
#[darling(attributes(ata), forward_attrs(doc))]
struct Fld {
    ident: Option<syn::Ident>,
    ty: syn::Type,
    attrs: Vec<syn::Attribute>,
    #[darling(default)]
    leaf: Option<Leaf>,
}
#[derive(Debug, FromVariant)]
#[darling(attributes(ata), supports(unit, newtype, named))]
struct Var {
    ident: syn::Ident,
    discriminant: Option<syn::Expr>,
    fields: ast::Fields<Fld>,
    #[darling(default)]
    choice: Option<Choice>,
}
#[derive(Debug, FromTypeParam)]
#[darling(attributes(ata))]
struct Tp {
    ident: syn::Ident,
    bounds: Vec<syn::TypeParamBound>,
    #[darling(default)]
    note: Option<syn::LitStr>,
}
#[derive(Debug, FromDeriveInput)]
#[darling(attributes(ata, atb), forward_attrs, supports(struct_named, struct_unit, enum_any))]
struct Top {
    ident: syn::Ident,
    vis: syn::Visibility,
    generics: ast::Generics<ast::GenericParam<Tp>>,
    attrs: Vec<syn::Attribute>,
    data: ast::Data<Var, Fld>,
    #[darling(default)]
    leaf: Option<Leaf>,
    #[darling(default)]
    choice: Option<Choice>,
    #[darling(flatten)]
    mid: Option<Box<Mid>>,
}
#[derive(Debug, FromDeriveInput)]
#[darling(forward_attrs())]
struct Bare {
    attrs: Vec<syn::Attribute>,
}
#[derive(Debug, FromAttributes)]
#[darling(attributes(ata))]
struct Attrs {
    #[darling(default)]
    a: u128,
    #[darling(default)]
    f: f32,
    #[darling(default, multiple)]
    p: Vec<syn::Path>,
}

fuzz_target!(|data: &[u8]| {
    proc_macro2::extra::invalidate_current_thread_spans();
    let mut d = D::new(data);
    let names: Vec<String> = ["a", "b", "c", "m", "x", "y", "leaf", "choice", "unit", "hidden", "new", "st", "note", "f", "p"].iter().map(|s| s.to_string()).collect();
    if d.ratio(1, 3) {
        let text = vmodel::digen::arb_item(&mut d, &names, 0);
        if let Ok(m) = syn::parse_str::<syn::Meta>(&text) {
            let _ = Leaf::from_meta(&m);
            let _ = Choice::from_meta(&m);
            let _ = Mid::from_meta(&m);
            let _ = <Option<Box<HashMap<String, Choice>>>>::from_meta(&m);
        }
        return;
    }
    let attr_names = vec!["ata".to_string(), "atb".to_string()];
    let (text, _) = vmodel::digen::arb_element(&mut d, &attr_names, &names);
    let di: syn::DeriveInput = match syn::parse_str(&text) {
        Ok(x) => x,
        Err(_) => return,
    };
    let _ = Top::from_derive_input(&di);
    let _ = Bare::from_derive_input(&di);
    let _ = Attrs::from_attributes(&di.attrs);
    match &di.data {
        syn::Data::Struct(s) => {
            for f in s.fields.iter() {
                let _ = Fld::from_field(f);
            }
        }
        syn::Data::Enum(e) => {
            for v in &e.variants {
                let _ = Var::from_variant(v);
            }
        }
        syn::Data::Union(u) => {
            for f in u.fields.named.iter() {
                let _ = Fld::from_field(f);
            }
        }
    }
    for tp in di.generics.type_params() {
        let _ = Tp::from_type_param(tp);
    }
});
