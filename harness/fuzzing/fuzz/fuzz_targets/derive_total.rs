//! C06 (thorough tier): coverage-guided search for a derive input that makes a derive panic, or emit
//! neither / both of {impl, compile_error!}. Bytes are decoded through the same grammar as the
//! proptest check (vmodel::digen), with a raw-text escape hatch.
#![no_main]
use libfuzzer_sys::fuzz_target;
use vmodel::dec::D;

fuzz_target!(|data: &[u8]| {
    proc_macro2::extra::invalidate_current_thread_spans();
    let src = if data.first() == Some(&0xff) {
        // escape hatch: the bytes are the source text
        match std::str::from_utf8(&data[1..]) {
            Ok(s) => s.to_string(),
            Err(_) => return,
        }
    } else {
        let mut d = D::new(data);
        vmodel::digen::derive_input(&mut d).0
    };
    let di: syn::DeriveInput = match syn::parse_str(&src) {
        Ok(d) => d,
        Err(_) => return,
    };
    for tr in ["FromMeta", "FromDeriveInput", "FromField", "FromVariant", "FromTypeParam", "FromAttributes"] {
        // the oracle of the proptest step (`vchecks::c06::check_one`: derive under catch_unwind, exactly one impl XOR
        // diagnostics), so that the two tiers cannot drift apart; the one known finding is told from every other
        // panic by its signature (string slicing inside the ident_case dependency for a name that needs the case rule)
        if let Err(f) = vchecks::c06::check_one(tr, &di, src.len()) {
            if f.sig == "c06:panic:string-slice-in-ident_case@rename-rule" {
                continue;
            }
            panic!("C06 {} for derive({}) on `{}`: {}", f.sig, tr, src, f.msg);
        }
    }
});
