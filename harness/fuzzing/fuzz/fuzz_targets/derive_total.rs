//! C06 (thorough tier): coverage-guided search for a derive input that makes a derive panic, or emit
//! neither / both of {impl, compile_error!}. Bytes are decoded through the same grammar as the
//! proptest check (vmodel::digen), with a raw-text escape hatch.
#![no_main]
use libfuzzer_sys::fuzz_target;
use vmodel::dec::D;

fn oracle(tr: &str, di: &syn::DeriveInput) {
    use darling_core::derive as d;
    let out = match tr {
        "FromMeta" => d::from_meta(di),
        "FromDeriveInput" => d::from_derive_input(di),
        "FromField" => d::from_field(di),
        "FromVariant" => d::from_variant(di),
        "FromTypeParam" => d::from_type_param(di),
        _ => d::from_attributes(di),
    };
    let errors = vmodel::util::compile_errors(out.clone()).len();
    let file: syn::File = syn::parse2(out.clone()).unwrap_or_else(|e| panic!("C06 output is not items: {} :: {}", e, out));
    let impls = file.items.iter().filter(|i| matches!(i, syn::Item::Impl(_))).count();
    assert!(!(impls >= 1 && errors >= 1), "C06 both impl and diagnostics for {}", tr);
    assert!(impls + errors >= 1, "C06 neither impl nor diagnostics for {}", tr);
    assert!(impls <= 1, "C06 several impls for {}", tr);
}

fuzz_target!(|data: &[u8]| {
    proc_macro2::extra::invalidate_current_thread_spans();
    let src = if data.first() == Some(&0xff) {
        // escape hatch: the bytes are the source text
        match std::str::from_utf8(&data[1..]) {
            Ok(s) => s.to_string(),
            Err(_) => return,
        }
    } else {
        let mut d = D::new(data);
        vmodel::digen::derive_input(&mut d).0
    };
    let di: syn::DeriveInput = match syn::parse_str(&src) {
        Ok(d) => d,
        Err(_) => return,
    };
    for tr in ["FromMeta", "FromDeriveInput", "FromField", "FromVariant", "FromTypeParam", "FromAttributes"] {
        // (vmodel's catch replaces libFuzzer's abort-on-panic hook, so that the one known finding can be told
        // from every other panic: string slicing inside the ident_case dependency under a case rule)
        if let Err(msg) = vmodel::util::catch(|| oracle(tr, &di)) {
            if msg.contains("/ident_case-") && msg.contains("/src/lib.rs") {
                continue;
            }
            panic!("C06 derive({}) panicked on `{}`: {}", tr, src, msg);
        }
    }
});
