//! Thorough tier: the semantic oracles of the L1/L2 checks under coverage guidance. The bytes are
//! the decoder bytes of the structure-aware generators; VERIF_FUZZ_SUB selects the oracle
//! (see vchecks::fuzz::SUBS). A violated oracle writes a replay file and aborts the run.
#![no_main]
use libfuzzer_sys::fuzz_target;

fuzz_target!(|data: &[u8]| {
    vchecks::fuzz::one(data);
});
