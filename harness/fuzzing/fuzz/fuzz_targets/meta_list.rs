//! C15 (thorough tier): arbitrary token streams into NestedMeta::parse_meta_list: never panics, and
//! whatever is accepted prints and re-parses to the same items.
#![no_main]
use darling_core::ast::NestedMeta;
use libfuzzer_sys::fuzz_target;
use vmodel::util::canon_tokens;

fuzz_target!(|data: &[u8]| {
    proc_macro2::extra::invalidate_current_thread_spans();
    let s = match std::str::from_utf8(data) {
        Ok(s) => s,
        Err(_) => return,
    };
    let ts: proc_macro2::TokenStream = match s.parse() {
        Ok(t) => t,
        Err(_) => return,
    };
    if let Ok(items) = NestedMeta::parse_meta_list(ts) {
        let printed = quote::quote!(#(#items),*);
        let again = NestedMeta::parse_meta_list(printed.clone()).unwrap_or_else(|e| panic!("C15 round trip rejected `{}`: {}", printed, e));
        assert_eq!(again.len(), items.len(), "C15 round trip changed the item count of `{}`", s);
        for (a, b) in items.iter().zip(again.iter()) {
            assert_eq!(canon_tokens(quote::quote!(#a)), canon_tokens(quote::quote!(#b)), "C15 round trip changed an item of `{}`", s);
            assert_eq!(matches!(a, NestedMeta::Lit(_)), matches!(b, NestedMeta::Lit(_)), "C15 round trip changed a class in `{}`", s);
        }
    }
});
