pub mod ev;
pub mod util;
