pub mod dec;
pub mod digen;
pub mod ev;
pub mod util;
