//! The reference interpreter: what a receiver declaration *means* for an abstract input, written
//! from the property statements, the README and the trait docs. Shares no code with
//! darling's code generator.

use crate::input::{Node, Syn, LK};
use crate::spec::*;
use crate::val::Val;
use serde::{Deserialize, Serialize};

#[derive(Clone, Copy, Debug, Serialize, Deserialize, PartialEq, Eq, Hash, PartialOrd, Ord)]
pub enum K {
    Missing,
    Unknown,
    Duplicate,
    UnexpectedType,
    UnexpectedFormat,
    UnknownValue,
    TooFew,
    TooMany,
    Shape,
    Custom,
}

/// Where the span of a leaf must lie.
#[derive(Clone, Debug, Serialize, Deserialize, PartialEq, Eq, Hash, PartialOrd, Ord)]
pub enum At {
    /// inside the item at this node path
    Item(Vec<usize>),
    /// inside the value of the item at this node path
    Value(Vec<usize>),
    /// nothing encloses it: may be unspanned (then the rendered message must carry the path)
    Root,
}

#[derive(Clone, Debug, Serialize, Deserialize, PartialEq, Eq, Hash, PartialOrd, Ord)]
pub struct Leaf {
    pub kind: K,
    pub subject: String,
    pub path: Vec<String>,
    pub at: At,
}

fn leaf(kind: K, subject: &str, at: At) -> Leaf {
    Leaf {
        kind,
        subject: subject.to_string(),
        path: vec![],
        at,
    }
}

fn prefix(mut leaves: Vec<Leaf>, seg: &str) -> Vec<Leaf> {
    for l in leaves.iter_mut() {
        l.path.insert(0, seg.to_string());
    }
    leaves
}

pub struct World<'a> {
    pub specs: &'a [Spec],
}

impl<'a> World<'a> {
    pub fn spec(&self, id: usize) -> &'a Spec {
        self.specs.iter().find(|s| s.id == id).expect("spec id in world")
    }
}

// ------------------------------------------------------------------------------------------
// markers, defaults, tags (mirror of vmodel::val for model values)

pub fn marker_val(w: &World, ty: &Ty, seed: u32) -> Val {
    match ty {
        Ty::Unit => Val::Unit,
        Ty::Bool => Val::Bool(seed % 2 == 1),
        Ty::U8 => Val::Int(100 + (seed % 100) as i64),
        Ty::U16 => Val::Int(10000 + (seed % 10000) as i64),
        Ty::I64 => Val::Int(-1000 - seed as i64),
        Ty::Str => Val::Str(format!("m{}", seed)),
        Ty::Char => Val::Char((b'A' + (seed % 26) as u8) as char),
        Ty::Flag => Val::Flag(seed % 2 == 1),
        Ty::Opt(t) => Val::Some(Box::new(marker_val(w, t, seed))),
        Ty::Boxed(t) => marker_val(w, t, seed),
        Ty::Map(t) => Val::Map(vec![(format!("mk{}", seed), marker_val(w, t, seed))]),
        Ty::Recv(k) => marker_recv(w, *k, seed),
        Ty::Ident => Val::Tokens(format!("mi{}", seed)),
        Ty::Path => Val::Tokens(format!("mp{} : : q", seed)),
        Ty::Expr => Val::Tokens(format!("me{} + 1", seed)),
        Ty::LitStr => Val::Tokens(format!("\"ml{}\"", seed)),
        Ty::Spanned(t) => Val::Spanned(Box::new(marker_val(w, t, seed)), (0, 0)),
        Ty::Override(t) => Val::Explicit(Box::new(marker_val(w, t, seed))),
    }
}

pub fn marker_field(w: &World, f: &Field, seed: u32) -> Val {
    if f.multiple {
        Val::List(vec![marker_val(w, &f.ty, seed), marker_val(w, &f.ty, seed.wrapping_add(1))])
    } else {
        marker_val(w, &f.ty, seed)
    }
}

pub fn marker_recv(w: &World, id: usize, seed: u32) -> Val {
    let s = w.spec(id);
    match &s.body {
        Body::Struct(fs) => Val::Struct(
            s.name(),
            fs.iter()
                .enumerate()
                .map(|(j, f)| (f.rust_name.clone(), marker_field(w, f, seed.wrapping_mul(31).wrapping_add(j as u32))))
                .collect(),
        ),
        Body::Enum(vs) => {
            let v = vs.iter().find(|v| matches!(v.shape, VShape::Unit)).expect("every generated enum has a unit variant");
            Val::Variant(s.name(), v.rust_name.clone(), vec![])
        }
    }
}

/// `Default::default()` of a field's declared type.
pub fn std_default(w: &World, f: &Field) -> Val {
    if f.multiple {
        return Val::List(vec![]);
    }
    std_default_ty(w, &f.ty)
}

pub fn std_default_ty(w: &World, ty: &Ty) -> Val {
    match ty {
        Ty::Unit => Val::Unit,
        Ty::Bool => Val::Bool(false),
        Ty::U8 | Ty::U16 | Ty::I64 => Val::Int(0),
        Ty::Str => Val::Str(String::new()),
        Ty::Char => Val::Char('\0'),
        Ty::Flag => Val::Flag(false),
        Ty::Opt(_) => Val::None,
        Ty::Boxed(t) => std_default_ty(w, t),
        Ty::Map(_) => Val::Map(vec![]),
        Ty::Recv(k) => marker_recv(w, *k, 1000),
        Ty::Spanned(t) => Val::Spanned(Box::new(std_default_ty(w, t)), (0, 0)),
        Ty::Override(_) => Val::Inherit,
        Ty::Ident | Ty::Path | Ty::Expr | Ty::LitStr => panic!("no Default for syntax types; the generator must not ask"),
    }
}

pub fn has_std_default(ty: &Ty) -> bool {
    match ty {
        Ty::Ident | Ty::Path | Ty::Expr | Ty::LitStr => false,
        Ty::Boxed(t) | Ty::Spanned(t) => has_std_default(t),
        _ => true,
    }
}

pub fn taggable(ty: &Ty) -> bool {
    match ty {
        Ty::Opt(t) | Ty::Boxed(t) => t.is_scalar(),
        t => t.is_scalar(),
    }
}

pub fn tag(ty: &Ty, v: &Val, which: &str) -> Val {
    let idx = match which {
        "map" => 0,
        "and" => 1,
        _ => 2,
    };
    match (ty, v) {
        (Ty::Bool, Val::Bool(b)) => Val::Bool(!b),
        (Ty::U8, Val::Int(x)) => Val::Int(x ^ [0x80, 0x40, 0x20][idx]),
        (Ty::U16, Val::Int(x)) => Val::Int(x ^ [0x8000, 0x4000, 0x2000][idx]),
        (Ty::I64, Val::Int(x)) => Val::Int(x ^ [1i64 << 40, 1 << 41, 1 << 42][idx]),
        (Ty::Str, Val::Str(s)) => Val::Str(format!("{}~{}", s, which)),
        (Ty::Char, Val::Char(c)) => Val::Char(char::from_u32(*c as u32 + [0x100, 0x200, 0x400][idx]).unwrap_or('?')),
        (Ty::Opt(t), Val::Some(x)) => Val::Some(Box::new(tag(t, x, which))),
        (Ty::Opt(_), Val::None) => Val::None,
        (Ty::Boxed(t), x) => tag(t, x, which),
        (t, x) => panic!("tag on untaggable {:?} {:?}", t, x),
    }
}

pub fn is_sentinel(ty: &Ty, v: &Val) -> bool {
    match (ty, v) {
        (Ty::U8 | Ty::U16 | Ty::I64, Val::Int(13)) => true,
        (Ty::Str, Val::Str(s)) => s == "sreject",
        (Ty::Opt(t), Val::Some(x)) => is_sentinel(t, x),
        (Ty::Boxed(t), x) => is_sentinel(t, x),
        _ => false,
    }
}

// ------------------------------------------------------------------------------------------
// value-for-absent

pub fn value_for_absent(w: &World, ty: &Ty) -> Option<Val> {
    match ty {
        Ty::Opt(_) => Some(Val::None),
        Ty::Flag => Some(Val::Flag(false)),
        Ty::Boxed(t) => value_for_absent(w, t),
        Ty::Recv(k) => {
            let s = w.spec(*k);
            if s.container.from_none != Call::None {
                Some(marker_recv(w, *k, 5000))
            } else {
                None
            }
        }
        _ => None,
    }
}

// ------------------------------------------------------------------------------------------
// conversions of one item's value into a type

fn int_range(ty: &Ty) -> (i128, i128) {
    match ty {
        Ty::U8 => (0, 255),
        Ty::U16 => (0, 65535),
        Ty::I64 => (i64::MIN as i128, i64::MAX as i128),
        _ => unreachable!(),
    }
}

fn parse_int_str(ty: &Ty, s: &str) -> Option<i64> {
    match ty {
        Ty::U8 => s.parse::<u8>().ok().map(|v| v as i64),
        Ty::U16 => s.parse::<u16>().ok().map(|v| v as i64),
        Ty::I64 => s.parse::<i64>().ok(),
        _ => unreachable!(),
    }
}

fn canon_text(t: &str) -> String {
    crate::util::canon_tokens(t.parse::<proc_macro2::TokenStream>().expect("fragment lexes"))
}

/// The error a type reports for a form / literal kind it has no hook for.
fn wrong_form(syn: &Syn, np: &[usize]) -> Vec<Leaf> {
    match syn {
        Syn::Word => vec![leaf(K::UnexpectedFormat, "word", At::Item(np.to_vec()))],
        Syn::List(_) => vec![leaf(K::UnexpectedFormat, "list", At::Item(np.to_vec()))],
        Syn::Lit(_, k) => vec![leaf(K::UnexpectedType, k.name(), At::Value(np.to_vec()))],
        Syn::Expr(_, kind) => vec![leaf(K::UnexpectedType, kind, At::Value(np.to_vec()))],
    }
}

/// `np` is the node path of the item whose value is converted.
pub fn conv(w: &World, ty: &Ty, syn: &Syn, np: &[usize], vr: &dyn Fn(&[usize]) -> ((usize, usize), (usize, usize), (usize, usize))) -> Result<Val, Vec<Leaf>> {
    match ty {
        Ty::U8 | Ty::U16 | Ty::I64 => match syn {
            Syn::Lit(_, LK::Int(v)) => {
                let (lo, hi) = int_range(ty);
                if *v >= lo && *v <= hi {
                    Ok(Val::Int(*v as i64))
                } else {
                    Err(vec![leaf(K::Custom, "", At::Value(np.to_vec()))])
                }
            }
            Syn::Lit(_, LK::Str(s)) => match parse_int_str(ty, s) {
                Some(v) => Ok(Val::Int(v)),
                None => Err(vec![leaf(K::UnknownValue, s, At::Value(np.to_vec()))]),
            },
            other => Err(wrong_form(other, np)),
        },
        Ty::Bool => match syn {
            Syn::Word => Ok(Val::Bool(true)),
            Syn::Lit(_, LK::Bool(b)) => Ok(Val::Bool(*b)),
            Syn::Lit(_, LK::Str(s)) => match s.as_str() {
                "true" => Ok(Val::Bool(true)),
                "false" => Ok(Val::Bool(false)),
                _ => Err(vec![leaf(K::UnknownValue, s, At::Value(np.to_vec()))]),
            },
            other => Err(wrong_form(other, np)),
        },
        Ty::Str => match syn {
            Syn::Lit(_, LK::Str(s)) => Ok(Val::Str(s.clone())),
            other => Err(wrong_form(other, np)),
        },
        Ty::Char => match syn {
            Syn::Lit(_, LK::Char(c)) => Ok(Val::Char(*c)),
            Syn::Lit(_, LK::Str(s)) => {
                let mut it = s.chars();
                match (it.next(), it.next()) {
                    (Some(c), None) => Ok(Val::Char(c)),
                    _ => Err(vec![leaf(K::UnexpectedType, "string", At::Value(np.to_vec()))]),
                }
            }
            other => Err(wrong_form(other, np)),
        },
        Ty::Flag => match syn {
            Syn::Word => Ok(Val::Flag(true)),
            other => Err(wrong_form(other, np)),
        },
        Ty::Unit => match syn {
            Syn::Word => Ok(Val::Unit),
            other => Err(wrong_form(other, np)),
        },
        Ty::Opt(t) => conv(w, t, syn, np, vr).map(|v| Val::Some(Box::new(v))),
        Ty::Boxed(t) => conv(w, t, syn, np, vr),
        Ty::Spanned(t) => {
            let (_, name, value) = vr(np);
            let r = match syn {
                Syn::Word => name,
                _ => value,
            };
            conv(w, t, syn, np, vr).map(|v| Val::Spanned(Box::new(v), r))
        }
        Ty::Override(t) => match syn {
            Syn::Word => Ok(Val::Inherit),
            other => conv(w, t, other, np, vr).map(|v| Val::Explicit(Box::new(v))),
        },
        Ty::Ident => match syn {
            Syn::Lit(_, LK::Str(s)) => {
                if syn::parse_str::<syn::Ident>(s).is_ok() {
                    Ok(Val::Tokens(canon_text(s)))
                } else {
                    Err(vec![leaf(K::UnknownValue, s, At::Value(np.to_vec()))])
                }
            }
            Syn::Expr(t, kind) if kind == "path" && syn::parse_str::<syn::Ident>(t).is_ok() => Ok(Val::Tokens(canon_text(t))),
            other => Err(wrong_form(other, np)),
        },
        Ty::Path => match syn {
            Syn::Lit(_, LK::Str(s)) => {
                if syn::parse_str::<syn::Path>(s).is_ok() {
                    Ok(Val::Tokens(canon_text(s)))
                } else {
                    Err(vec![leaf(K::UnknownValue, s, At::Value(np.to_vec()))])
                }
            }
            Syn::Expr(t, kind) if kind == "path" => Ok(Val::Tokens(canon_text(t))),
            other => Err(wrong_form(other, np)),
        },
        Ty::Expr => match syn {
            Syn::Lit(_, LK::Str(s)) => {
                if syn::parse_str::<syn::Expr>(s).is_ok() {
                    Ok(Val::Tokens(canon_text(s)))
                } else {
                    Err(vec![leaf(K::UnknownValue, s, At::Value(np.to_vec()))])
                }
            }
            Syn::Lit(t, _) | Syn::Expr(t, _) => Ok(Val::Tokens(canon_text(t))),
            other => Err(wrong_form(other, np)),
        },
        Ty::LitStr => match syn {
            Syn::Lit(t, LK::Str(_)) => Ok(Val::Tokens(canon_text(t))),
            other => Err(wrong_form(other, np)),
        },
        Ty::Map(t) => match syn {
            Syn::List(kids) => {
                let mut leaves = vec![];
                let mut seen: Vec<String> = vec![];
                let mut out: Vec<(String, Val)> = vec![];
                for (i, k) in kids.iter().enumerate() {
                    let mut kp = np.to_vec();
                    kp.push(i);
                    match k {
                        // reported without a span of its own: it inherits the map item's
                        Node::Lit(..) => leaves.push(leaf(K::UnexpectedFormat, "expression", At::Item(np.to_vec()))),
                        Node::Item(name, s) => {
                            let key = name.trim_start_matches("::").to_string();
                            if seen.contains(&key) {
                                leaves.push(leaf(K::Duplicate, &key, At::Item(kp.clone())));
                            }
                            match conv(w, t, s, &kp, vr) {
                                Ok(v) => {
                                    if !seen.contains(&key) {
                                        out.push((key.clone(), v));
                                    }
                                }
                                Err(ls) => leaves.extend(prefix(ls, &key)),
                            }
                            seen.push(key);
                        }
                    }
                }
                if leaves.is_empty() {
                    out.sort_by(|a, b| a.0.cmp(&b.0));
                    Ok(Val::Map(out))
                } else {
                    Err(leaves)
                }
            }
            other => Err(wrong_form(other, np)),
        },
        Ty::Recv(k) => {
            let s = w.spec(*k);
            match &s.body {
                Body::Struct(_) => match syn {
                    Syn::List(kids) => {
                        let nodes: Vec<(Vec<usize>, &Node)> = kids
                            .iter()
                            .enumerate()
                            .map(|(i, n)| {
                                let mut p = np.to_vec();
                                p.push(i);
                                (p, n)
                            })
                            .collect();
                        eval_struct(w, s, &nodes, At::Item(np.to_vec()), None, vr)
                    }
                    Syn::Word => {
                        if s.container.from_word != Call::None {
                            Ok(marker_recv(w, *k, 4000))
                        } else {
                            Err(wrong_form(syn, np))
                        }
                    }
                    other => Err(wrong_form(other, np)),
                },
                Body::Enum(_) => conv_enum(w, s, syn, np, vr),
            }
        }
    }
}

// ------------------------------------------------------------------------------------------
// enums (C09)

pub fn variant_name(s: &Spec, v: &Variant) -> String {
    effective_name(&v.rust_name, &v.rename, &s.container.rename_all, true)
}

pub fn conv_enum(w: &World, s: &Spec, syn: &Syn, np: &[usize], vr: &dyn Fn(&[usize]) -> ((usize, usize), (usize, usize), (usize, usize))) -> Result<Val, Vec<Leaf>> {
    let vs = match &s.body {
        Body::Enum(v) => v,
        _ => unreachable!(),
    };
    let live: Vec<&Variant> = vs.iter().filter(|v| !v.skip).collect();
    match syn {
        Syn::Word => {
            if s.container.from_word != Call::None {
                // a declared from_word function returns a marker value
                Ok(marker_recv(w, s.id, 4000))
            } else if let Some(v) = vs.iter().find(|v| v.word && !v.skip) {
                // (a skipped variant can never be produced, not even through `word`)
                Ok(Val::Variant(s.name(), v.rust_name.clone(), vec![]))
            } else {
                Err(wrong_form(syn, np))
            }
        }
        Syn::Lit(_, LK::Str(text)) => {
            match live.iter().find(|v| variant_name(s, v) == *text) {
                Some(v) => match &v.shape {
                    VShape::Unit => Ok(Val::Variant(s.name(), v.rust_name.clone(), vec![])),
                    VShape::Newtype(t) => match value_for_absent(w, t) {
                        Some(x) => Ok(Val::Variant(s.name(), v.rust_name.clone(), vec![("0".into(), x)])),
                        None => Err(vec![leaf(K::UnexpectedFormat, "literal", At::Value(np.to_vec()))]),
                    },
                    VShape::Struct(_) => Err(vec![leaf(K::UnexpectedFormat, "literal", At::Value(np.to_vec()))]),
                },
                None => Err(vec![leaf(K::UnknownValue, text, At::Value(np.to_vec()))]),
            }
        }
        Syn::Lit(..) | Syn::Expr(..) => Err(wrong_form(syn, np)),
        Syn::List(kids) => {
            if kids.is_empty() {
                return Err(vec![leaf(K::TooFew, "", At::Item(np.to_vec()))]);
            }
            if kids.len() > 1 {
                return Err(vec![leaf(K::TooMany, "", At::Item(np.to_vec()))]);
            }
            let mut kp = np.to_vec();
            kp.push(0);
            match &kids[0] {
                Node::Lit(..) => Err(vec![leaf(K::UnexpectedFormat, "literal", At::Item(np.to_vec()))]),
                Node::Item(name, vsyn) => {
                    let key = name.trim_start_matches("::").to_string();
                    match live.iter().find(|v| variant_name(s, v) == key) {
                        None => Err(vec![leaf(K::Unknown, &key, At::Item(kp))]),
                        Some(v) => match &v.shape {
                            VShape::Unit => match vsyn {
                                Syn::Word => Ok(Val::Variant(s.name(), v.rust_name.clone(), vec![])),
                                _ => Err(vec![leaf(K::UnexpectedFormat, "non-path", At::Item(np.to_vec()))]),
                            },
                            VShape::Newtype(t) => match conv(w, t, vsyn, &kp, vr) {
                                Ok(x) => Ok(Val::Variant(s.name(), v.rust_name.clone(), vec![("0".into(), x)])),
                                Err(ls) => Err(prefix(ls, &key)),
                            },
                            VShape::Struct(fs) => match vsyn {
                                Syn::List(inner) => {
                                    let nodes: Vec<(Vec<usize>, &Node)> = inner
                                        .iter()
                                        .enumerate()
                                        .map(|(i, n)| {
                                            let mut p = kp.clone();
                                            p.push(i);
                                            (p, n)
                                        })
                                        .collect();
                                    // struct variants: no container default, no flatten, no transforms; the enum's
                                    // allow_unknown_fields applies
                                    let pseudo = Container {
                                        rename_all: s.container.rename_all.clone(),
                                        allow_unknown: s.container.allow_unknown,
                                        ..Default::default()
                                    };
                                    match eval_fields(w, fs, &pseudo, &nodes, At::Item(np.to_vec()), None, vr) {
                                        Ok(fields) => Ok(Val::Variant(s.name(), v.rust_name.clone(), fields)),
                                        Err(ls) => Err(prefix(ls, &key)),
                                    }
                                }
                                _ => Err(vec![leaf(K::UnexpectedFormat, "non-list", At::Item(np.to_vec()))]),
                            },
                        },
                    }
                }
            }
        }
    }
}

// ------------------------------------------------------------------------------------------
// structs

/// Where unsupplied fields take their value from when the container declares a default.
#[derive(Clone, Debug)]
pub enum DefaultSrc {
    /// marker_recv(id, seed)
    Marker(u32),
}

pub fn field_name(f: &Field, c: &Container) -> String {
    effective_name(&f.rust_name, &f.rename, &c.rename_all, false)
}

pub fn container_tag_field(fs: &[Field]) -> Option<usize> {
    fs.iter().position(|f| !f.multiple && f.ty.is_scalar())
}

/// Evaluate a struct receiver (its fields + container options) on a list of nodes.
/// `enclosing`: where a "missing" leaf is anchored. `from_ident`: Some(len of ident) for element-level
/// receivers built through From<Ident>.
pub fn eval_struct(
    w: &World,
    s: &Spec,
    nodes: &[(Vec<usize>, &Node)],
    enclosing: At,
    from_ident: Option<usize>,
    vr: &dyn Fn(&[usize]) -> ((usize, usize), (usize, usize), (usize, usize)),
) -> Result<Val, Vec<Leaf>> {
    let fs = s.fields();
    let fields = eval_fields(w, fs, &s.container, nodes, enclosing, Some((s, from_ident)), vr)?;
    let mut v = fields;
    // container transform: flips the designated field
    if s.container.transform != Tr::None {
        if let Some(i) = container_tag_field(fs) {
            let which = if s.container.transform == Tr::Map { "map" } else { "and" };
            v[i].1 = tag(&fs[i].ty, &v[i].1, which);
        }
    }
    Ok(Val::Struct(s.name(), v))
}

pub fn eval_fields(
    w: &World,
    fs: &[Field],
    c: &Container,
    nodes: &[(Vec<usize>, &Node)],
    enclosing: At,
    owner: Option<(&Spec, Option<usize>)>,
    vr: &dyn Fn(&[usize]) -> ((usize, usize), (usize, usize), (usize, usize)),
) -> Result<Vec<(String, Val)>, Vec<Leaf>> {
    let mut leaves: Vec<Leaf> = vec![];
    let names: Vec<Option<String>> = fs
        .iter()
        .map(|f| if f.skip || f.flatten { None } else { Some(field_name(f, c)) })
        .collect();
    let flat = fs.iter().position(|f| f.flatten);
    let mut supplied: Vec<Option<Val>> = vec![None; fs.len()];
    let mut seen: Vec<bool> = vec![false; fs.len()];
    let mut multi: Vec<Vec<Val>> = vec![vec![]; fs.len()];
    let mut buffer: Vec<(Vec<usize>, &Node)> = vec![];
    for (np, n) in nodes {
        match n {
            Node::Lit(..) => leaves.push(leaf(K::UnexpectedFormat, "literal", At::Item(np.clone()))),
            Node::Item(name, syn) => {
                let key = name.trim_start_matches("::").to_string();
                match names.iter().position(|x| x.as_deref() == Some(key.as_str())) {
                    Some(i) => {
                        let f = &fs[i];
                        if !f.multiple && seen[i] {
                            leaves.push(leaf(K::Duplicate, &key, At::Item(np.clone())));
                            continue;
                        }
                        seen[i] = true;
                        let loc = if f.multiple { format!("{}[]", key) } else { key.clone() };
                        // the field's converter, then its transform
                        let r = conv(w, &f.ty, syn, np, vr).and_then(|v| {
                            let v = if f.with != Call::None { tag(&f.ty, &v, "with") } else { v };
                            match f.transform {
                                Tr::None => Ok(v),
                                Tr::Map => Ok(tag(&f.ty, &v, "map")),
                                Tr::AndThen => {
                                    if is_sentinel(&f.ty, &v) {
                                        Err(vec![leaf(K::Custom, "", At::Item(np.clone()))])
                                    } else {
                                        Ok(tag(&f.ty, &v, "and"))
                                    }
                                }
                            }
                        });
                        match r {
                            Ok(v) => {
                                if f.multiple {
                                    multi[i].push(v)
                                } else {
                                    supplied[i] = Some(v)
                                }
                            }
                            Err(ls) => leaves.extend(prefix(ls, &loc)),
                        }
                    }
                    None => {
                        if flat.is_some() {
                            buffer.push((np.clone(), n));
                        } else if c.allow_unknown {
                            // ignored
                        } else {
                            leaves.push(leaf(K::Unknown, &key, At::Item(np.clone())));
                        }
                    }
                }
            }
        }
    }
    // the flatten field is built from everything nobody claimed; it adds no location segment
    if let Some(i) = flat {
        let f = &fs[i];
        let r = conv_flatten(w, &f.ty, &buffer, enclosing.clone(), vr);
        match r {
            Ok(v) => supplied[i] = Some(v),
            Err(ls) => leaves.extend(ls),
        }
        seen[i] = true;
    }
    // required fields
    let has_container_default = c.default != Dflt::None || c.from_ident;
    for (i, f) in fs.iter().enumerate() {
        if f.multiple || f.flatten {
            continue;
        }
        let has_default = f.default != Dflt::None || has_container_default || f.skip;
        if !seen[i] && !has_default {
            match value_for_absent(w, &f.ty) {
                Some(v) => supplied[i] = Some(v),
                None => leaves.push(leaf(K::Missing, &field_name(f, c), enclosing.clone())),
            }
        }
    }
    if !leaves.is_empty() {
        return Err(leaves);
    }
    // assemble
    let container_default: Option<Val> = match owner {
        Some((s, fi)) => {
            if let Some(n) = fi.filter(|_| c.from_ident) {
                Some(marker_recv(w, s.id, 6000 + n as u32))
            } else {
                match c.default {
                    Dflt::None => None,
                    Dflt::Trait => Some(marker_recv(w, s.id, 1000)),
                    Dflt::Fn => Some(marker_recv(w, s.id, 2000)),
                }
            }
        }
        None => None,
    };
    let mut out = vec![];
    for (i, f) in fs.iter().enumerate() {
        let own_default = |w: &World| -> Option<Val> {
            match f.default {
                Dflt::Trait => Some(std_default(w, f)),
                Dflt::Fn => Some(marker_field(w, f, 3000 + (i as u32))),
                Dflt::None => None,
            }
        };
        let inherited = || -> Option<Val> {
            container_default.as_ref().map(|d| match d {
                Val::Struct(_, fields) => fields[i].1.clone(),
                _ => unreachable!(),
            })
        };
        let fallback = |w: &World| -> Val {
            own_default(w).or_else(inherited).unwrap_or_else(|| std_default(w, f))
        };
        let v = if f.multiple {
            if !multi[i].is_empty() {
                Val::List(multi[i].clone())
            } else if f.default != Dflt::None || has_container_default || f.skip {
                fallback(w)
            } else {
                Val::List(vec![])
            }
        } else {
            match &supplied[i] {
                Some(v) => v.clone(),
                None => fallback(w),
            }
        };
        out.push((f.rust_name.clone(), v));
    }
    Ok(out)
}

/// The flatten field receives the unclaimed items through `from_list`.
fn conv_flatten(
    w: &World,
    ty: &Ty,
    buffer: &[(Vec<usize>, &Node)],
    enclosing: At,
    vr: &dyn Fn(&[usize]) -> ((usize, usize), (usize, usize), (usize, usize)),
) -> Result<Val, Vec<Leaf>> {
    match ty {
        Ty::Boxed(t) => conv_flatten(w, t, buffer, enclosing, vr),
        Ty::Recv(k) => {
            let s = w.spec(*k);
            eval_struct(w, s, buffer, enclosing, None, vr)
        }
        Ty::Map(t) => {
            let mut leaves = vec![];
            let mut seen: Vec<String> = vec![];
            let mut out: Vec<(String, Val)> = vec![];
            for (kp, n) in buffer {
                if let Node::Item(name, s) = n {
                    let key = name.trim_start_matches("::").to_string();
                    if seen.contains(&key) {
                        leaves.push(leaf(K::Duplicate, &key, At::Item(kp.clone())));
                    }
                    match conv(w, t, s, kp, vr) {
                        Ok(v) => {
                            if !seen.contains(&key) {
                                out.push((key.clone(), v));
                            }
                        }
                        Err(ls) => leaves.extend(prefix(ls, &key)),
                    }
                    seen.push(key);
                }
            }
            if leaves.is_empty() {
                out.sort_by(|a, b| a.0.cmp(&b.0));
                Ok(Val::Map(out))
            } else {
                Err(leaves)
            }
        }
        other => panic!("flatten into {:?} is not generated", other),
    }
}

// ------------------------------------------------------------------------------------------
// observed leaves

/// Parse the Display of a flattened darling leaf into (kind, subject, path, suggestion).
pub fn parse_leaf(display: &str) -> (K, String, Vec<String>, Option<String>) {
    let (msg, path) = crate::util::split_at(display);
    let path: Vec<String> = path
        .into_iter()
        .map(|seg| match seg.find('[') {
            Some(i) if seg.ends_with(']') => format!("{}[]", &seg[..i]),
            _ => seg,
        })
        .collect();
    let tick = |prefix: &str| -> Option<String> {
        msg.strip_prefix(prefix).and_then(|r| r.find('`').map(|i| r[..i].to_string()))
    };
    if let Some(x) = tick("Missing field `") {
        return (K::Missing, x, path, None);
    }
    if let Some(rest) = msg.strip_prefix("Unknown field: `") {
        let end = rest.find('`').unwrap_or(rest.len());
        let name = rest[..end].to_string();
        let sugg = rest.find("Did you mean `").map(|i| {
            let r = &rest[i + 14..];
            r[..r.find('`').unwrap_or(r.len())].to_string()
        });
        return (K::Unknown, name, path, sugg);
    }
    if let Some(x) = tick("Duplicate field `") {
        return (K::Duplicate, x, path, None);
    }
    if let Some(x) = tick("Unexpected type `") {
        return (K::UnexpectedType, x, path, None);
    }
    if let Some(x) = tick("Unexpected meta-item format `") {
        return (K::UnexpectedFormat, x, path, None);
    }
    if let Some(x) = tick("Unknown literal value `") {
        return (K::UnknownValue, x, path, None);
    }
    if msg.starts_with("Too few items") {
        return (K::TooFew, String::new(), path, None);
    }
    if msg.starts_with("Too many items") {
        return (K::TooMany, String::new(), path, None);
    }
    if msg.starts_with("Unsupported shape") {
        return (K::Shape, String::new(), path, None);
    }
    (K::Custom, String::new(), path, None)
}
