//! Evidence fragments, violation records, known-finding matching and the proptest driver glue
//! shared by every check binary.

use proptest::strategy::Strategy;
use proptest::test_runner::{Config, RngAlgorithm, RngSeed, TestCaseError, TestError, TestRunner};
use serde::{Deserialize, Serialize};
use serde_json::{json, Value};
use std::cell::RefCell;
use std::collections::{BTreeMap, HashSet};
use std::hash::{Hash, Hasher};
use std::path::{Path, PathBuf};

/// A failed oracle: a stable signature (used to match `known_findings.txt`) and a human message.
#[derive(Debug, Clone, Serialize, Deserialize)]
pub struct Fail {
    pub sig: String,
    pub msg: String,
}

impl Fail {
    pub fn new(sig: impl Into<String>, msg: impl Into<String>) -> Self {
        Fail {
            sig: sig.into(),
            msg: msg.into(),
        }
    }
}

#[macro_export]
macro_rules! fail {
    ($sig:expr, $($arg:tt)*) => {
        return Err($crate::ev::Fail::new($sig, format!($($arg)*)))
    };
}

#[macro_export]
macro_rules! ensure {
    ($cond:expr, $sig:expr, $($arg:tt)*) => {
        if !($cond) {
            return Err($crate::ev::Fail::new($sig, format!($($arg)*)));
        }
    };
}

#[derive(Debug, Clone, Serialize, Deserialize)]
pub struct Violation {
    pub sig: String,
    pub msg: String,
    pub replay: String,
}

/// What a step of a check writes; `check` merges the fragments of one property into evidence/<id>.json.
#[derive(Debug, Default, Serialize, Deserialize)]
pub struct Fragment {
    pub property: String,
    pub step: String,
    pub seed: u64,
    pub evaluations: u64,
    pub distinct_nontrivial: u64,
    pub rule: String,
    pub classes: BTreeMap<String, u64>,
    pub samples: Vec<Value>,
    pub violations: Vec<Violation>,
    /// signature -> number of times a listed known finding was hit (and tolerated)
    pub known_hits: BTreeMap<String, u64>,
    pub excluded_known: u64,
    pub exhaustive: Option<bool>,
    pub notes: Vec<String>,
}

/// Counters for one step. Counting stops at the first (unknown) failure so that the
/// re-executions proptest performs while shrinking are not reported as generated cases.
pub struct Ctx {
    pub property: String,
    pub step: String,
    pub seed: u64,
    pub out_dir: PathBuf,
    pub replay_dir: PathBuf,
    pub known: Vec<(String, String)>, // (property, signature)
    pub strict: bool,                 // replay mode: known findings are not tolerated silently
    pub replay_src: Option<String>,   // replay mode: the file being replayed
    inner: RefCell<Inner>,
}

#[derive(Default)]
struct Inner {
    frozen: bool,
    evaluations: u64,
    nontrivial: HashSet<u64>,
    classes: BTreeMap<String, u64>,
    samples: Vec<Value>,
    sample_stride: u64,
    violations: Vec<Violation>,
    known_hits: BTreeMap<String, u64>,
    excluded_known: u64,
    rule: String,
    exhaustive: Option<bool>,
    notes: Vec<String>,
    render: Option<Value>,
}

pub fn hash64<T: Hash + ?Sized>(t: &T) -> u64 {
    // FNV-1a over the std Hash stream; stable across runs (no random keys).
    struct Fnv(u64);
    impl Hasher for Fnv {
        fn finish(&self) -> u64 {
            self.0
        }
        fn write(&mut self, bytes: &[u8]) {
            for b in bytes {
                self.0 ^= *b as u64;
                self.0 = self.0.wrapping_mul(0x100000001b3);
            }
        }
    }
    let mut h = Fnv(0xcbf29ce484222325);
    t.hash(&mut h);
    h.finish()
}

pub fn mix_seed(seed: u64, property: &str, step: &str, shard: u64) -> u64 {
    hash64(&(seed, property, step, shard))
}

pub fn seed_bytes(seed: u64) -> [u8; 32] {
    let mut out = [0u8; 32];
    let mut x = seed;
    for chunk in out.chunks_mut(8) {
        // splitmix64
        x = x.wrapping_add(0x9e3779b97f4a7c15);
        let mut z = x;
        z = (z ^ (z >> 30)).wrapping_mul(0xbf58476d1ce4e5b9);
        z = (z ^ (z >> 27)).wrapping_mul(0x94d049bb133111eb);
        z ^= z >> 31;
        chunk.copy_from_slice(&z.to_le_bytes());
    }
    out
}

pub fn load_known(path: &Path) -> Vec<(String, String)> {
    let mut out = vec![];
    if let Ok(text) = std::fs::read_to_string(path) {
        for line in text.lines() {
            let line = line.trim();
            if let Some(rest) = line.strip_prefix("known:") {
                // known: property=C10 sig=<signature> :: description
                let rest = rest.trim();
                let (head, _desc) = match rest.split_once(" :: ") {
                    Some((h, d)) => (h, d),
                    None => (rest, ""),
                };
                let mut prop = String::new();
                let mut sig = String::new();
                if let Some(p) = head.strip_prefix("property=") {
                    if let Some((p, s)) = p.split_once(" sig=") {
                        prop = p.trim().to_string();
                        sig = s.trim().to_string();
                    }
                }
                if !prop.is_empty() && !sig.is_empty() {
                    out.push((prop, sig));
                }
            }
        }
    }
    out
}

impl Ctx {
    pub fn new(property: &str, step: &str, seed: u64, args: &Args) -> Ctx {
        let known = match &args.known {
            Some(p) => load_known(Path::new(p)),
            None => vec![],
        };
        Ctx {
            property: property.to_string(),
            step: step.to_string(),
            seed,
            out_dir: PathBuf::from(&args.out),
            replay_dir: PathBuf::from(&args.replays),
            known,
            strict: args.replay.is_some(),
            replay_src: args.replay.clone(),
            inner: RefCell::new(Inner {
                sample_stride: 1,
                ..Default::default()
            }),
        }
    }

    pub fn set_rule(&self, rule: &str) {
        self.inner.borrow_mut().rule = rule.to_string();
    }
    pub fn set_exhaustive(&self, e: bool) {
        self.inner.borrow_mut().exhaustive = Some(e);
    }
    pub fn note(&self, n: impl Into<String>) {
        self.inner.borrow_mut().notes.push(n.into());
    }
    /// A human-readable rendering of the case being checked; stored in the replay file of a violation.
    pub fn set_render(&self, v: Value) {
        self.inner.borrow_mut().render = Some(v);
    }
    pub fn frozen(&self) -> bool {
        self.inner.borrow().frozen
    }

    /// Count one generated case.
    pub fn eval(&self) {
        let mut i = self.inner.borrow_mut();
        if !i.frozen {
            i.evaluations += 1;
        }
    }
    pub fn eval_n(&self, n: u64) {
        let mut i = self.inner.borrow_mut();
        if !i.frozen {
            i.evaluations += n;
        }
    }
    /// Record a non-trivial case by its canonical key.
    pub fn nontrivial<T: Hash + ?Sized>(&self, key: &T) {
        let mut i = self.inner.borrow_mut();
        if !i.frozen {
            let h = hash64(key);
            i.nontrivial.insert(h);
        }
    }
    pub fn class(&self, name: &str) {
        self.class_n(name, 1)
    }
    pub fn class_n(&self, name: &str, n: u64) {
        let mut i = self.inner.borrow_mut();
        if !i.frozen {
            *i.classes.entry(name.to_string()).or_insert(0) += n;
        }
    }
    pub fn excluded_known(&self, n: u64) {
        let mut i = self.inner.borrow_mut();
        if !i.frozen {
            i.excluded_known += n;
        }
    }
    /// Keep a sample (reservoir by doubling stride: at most ~12 kept, spread over the run).
    pub fn sample(&self, mk: impl FnOnce() -> Value) {
        let mut i = self.inner.borrow_mut();
        if i.frozen {
            return;
        }
        let n = i.evaluations.max(1);
        if n % i.sample_stride == 0 {
            let v = mk();
            i.samples.push(v);
            if i.samples.len() >= 12 {
                // drop every second, double the stride
                let mut k = 0;
                i.samples.retain(|_| {
                    k += 1;
                    k % 2 == 1
                });
                i.sample_stride *= 2;
            }
        }
    }

    pub fn is_known(&self, sig: &str) -> bool {
        self.known
            .iter()
            .any(|(p, s)| p == &self.property && s == sig)
    }

    /// Route an oracle failure: listed known findings are tolerated (counted), others are
    /// returned so that the caller fails the case.
    pub fn filter(&self, r: Result<(), Fail>) -> Result<(), Fail> {
        match r {
            Ok(()) => Ok(()),
            Err(f) => {
                if self.is_known(&f.sig) {
                    let mut i = self.inner.borrow_mut();
                    if !i.frozen || self.strict {
                        *i.known_hits.entry(f.sig.clone()).or_insert(0) += 1;
                    }
                    Ok(())
                } else {
                    Err(f)
                }
            }
        }
    }

    pub fn freeze(&self) {
        self.inner.borrow_mut().frozen = true;
    }

    pub fn violation(&self, f: &Fail, case: Value) {
        // replaying a saved case: the file that was given is the replay file; it is never rewritten
        if let Some(src) = &self.replay_src {
            let mut i = self.inner.borrow_mut();
            i.violations.push(Violation { sig: f.sig.clone(), msg: f.msg.clone(), replay: src.clone() });
            return;
        }
        let n = self.inner.borrow().violations.len();
        std::fs::create_dir_all(&self.replay_dir).ok();
        let name = format!(
            "{}-{}-s{}-{}.json",
            self.property,
            self.step,
            self.seed,
            n
        );
        let path = self.replay_dir.join(name);
        let body = json!({
            "property": self.property,
            "step": self.step,
            "seed": self.seed,
            "signature": f.sig,
            "message": f.msg,
            "case": case,
            "rendered": self.inner.borrow().render.clone(),
        });
        std::fs::write(&path, serde_json::to_string_pretty(&body).unwrap()).ok();
        let mut i = self.inner.borrow_mut();
        i.violations.push(Violation {
            sig: f.sig.clone(),
            msg: f.msg.clone(),
            replay: path.to_string_lossy().to_string(),
        });
    }

    pub fn last_replay(&self) -> Option<String> {
        self.inner.borrow().violations.last().map(|v| v.replay.clone())
    }

    pub fn n_violations(&self) -> usize {
        self.inner.borrow().violations.len()
    }

    pub fn finish(&self) -> Fragment {
        let i = self.inner.borrow();
        let frag = Fragment {
            property: self.property.clone(),
            step: self.step.clone(),
            seed: self.seed,
            evaluations: i.evaluations,
            distinct_nontrivial: i.nontrivial.len() as u64,
            rule: i.rule.clone(),
            classes: i.classes.clone(),
            samples: i.samples.clone(),
            violations: i.violations.clone(),
            known_hits: i.known_hits.clone(),
            excluded_known: i.excluded_known,
            exhaustive: i.exhaustive,
            notes: i.notes.clone(),
        };
        std::fs::create_dir_all(&self.out_dir).ok();
        let path = self
            .out_dir
            .join(format!("{}.{}.json", self.property, self.step));
        std::fs::write(&path, serde_json::to_string_pretty(&frag).unwrap())
            .expect("cannot write fragment");
        // the hashes of the distinct non-trivial cases, so that the driver can count the union over shards
        let mut raw = Vec::with_capacity(i.nontrivial.len() * 8);
        let mut hs: Vec<u64> = i.nontrivial.iter().cloned().collect();
        hs.sort_unstable();
        for h in hs {
            raw.extend_from_slice(&h.to_le_bytes());
        }
        std::fs::write(path.with_extension("nt"), raw).ok();
        frag
    }
}

/// Drive a proptest strategy; on failure the shrunk case is written as a replay file.
/// `check` must be a pure function of the case. Returns true when no (unknown) violation was found.
pub fn run_prop<S, F>(ctx: &Ctx, cases: u32, strategy: S, check: F) -> bool
where
    S: Strategy,
    S::Value: Serialize + std::fmt::Debug + Clone,
    F: Fn(&Ctx, &S::Value) -> Result<(), Fail>,
{
    let cfg = Config {
        cases,
        failure_persistence: None,
        max_shrink_iters: 4096,
        max_global_rejects: 1_000_000,
        rng_seed: RngSeed::Fixed(ctx.seed),
        rng_algorithm: RngAlgorithm::ChaCha,
        ..Config::default()
    };
    let mut runner = TestRunner::new(cfg);
    let last_fail: RefCell<Option<Fail>> = RefCell::new(None);
    let res = runner.run(&strategy, |v| {
        ctx.eval();
        match ctx.filter(check(ctx, &v)) {
            Ok(()) => Ok(()),
            Err(f) => {
                ctx.freeze();
                let sig = f.sig.clone();
                *last_fail.borrow_mut() = Some(f);
                Err(TestCaseError::fail(sig))
            }
        }
    });
    match res {
        Ok(()) => true,
        Err(TestError::Fail(_, value)) => {
            // Re-run the minimal case to get its own message.
            let f = match ctx.filter(check(ctx, &value)) {
                Err(f) => f,
                Ok(()) => last_fail
                    .borrow()
                    .clone()
                    .unwrap_or_else(|| Fail::new("unknown", "failure vanished on re-run")),
            };
            ctx.violation(&f, serde_json::to_value(&value).unwrap_or(Value::Null));
            false
        }
        Err(TestError::Abort(reason)) => {
            ctx.note(format!("proptest aborted: {}", reason));
            eprintln!("proptest aborted: {}", reason);
            std::process::exit(2);
        }
    }
}

/// Run a check directly over an explicit list of cases (exhaustive enumerations, replays).
pub fn run_list<T, F>(ctx: &Ctx, cases: impl IntoIterator<Item = T>, check: F) -> bool
where
    T: Serialize,
    F: Fn(&Ctx, &T) -> Result<(), Fail>,
{
    let mut ok = true;
    let mut seen_sigs: HashSet<String> = HashSet::new();
    for c in cases {
        ctx.eval();
        if let Err(f) = ctx.filter(check(ctx, &c)) {
            ok = false;
            // one replay file per distinct signature, at most 5 per step
            if seen_sigs.insert(f.sig.clone()) && seen_sigs.len() <= 5 {
                ctx.violation(&f, serde_json::to_value(&c).unwrap_or(Value::Null));
            }
        }
    }
    ok
}

/// Command line shared by the check binaries:
/// `<bin> <subcommand> --seed N --cases N --out DIR --replays DIR [--known FILE] [--replay FILE] [--shard i] [--tier t]`
#[derive(Debug, Clone, Default)]
pub struct Args {
    pub sub: String,
    pub seed: u64,
    pub cases: u64,
    pub out: String,
    pub replays: String,
    pub known: Option<String>,
    pub replay: Option<String>,
    pub shard: u64,
    pub tier: String,
    pub extra: BTreeMap<String, String>,
}

pub fn parse_args() -> Args {
    let mut a = Args {
        seed: 1,
        cases: 1000,
        out: "/verif/harness/out".into(),
        replays: "/verif/harness/replays".into(),
        tier: "quick".into(),
        ..Default::default()
    };
    let v: Vec<String> = std::env::args().collect();
    if v.len() < 2 {
        eprintln!("usage: {} <subcommand> [--seed N] [--cases N] ...", v[0]);
        std::process::exit(2);
    }
    a.sub = v[1].clone();
    let mut i = 2;
    while i < v.len() {
        let k = v[i].clone();
        let val = v.get(i + 1).cloned().unwrap_or_default();
        match k.as_str() {
            "--seed" => a.seed = val.parse().expect("seed"),
            "--cases" => a.cases = val.parse().expect("cases"),
            "--out" => a.out = val,
            "--replays" => a.replays = val,
            "--known" => a.known = Some(val),
            "--replay" => a.replay = Some(val),
            "--shard" => a.shard = val.parse().expect("shard"),
            "--tier" => a.tier = val,
            other => {
                a.extra
                    .insert(other.trim_start_matches("--").to_string(), val);
            }
        }
        i += 2;
    }
    a
}

pub fn load_replay_case(path: &str) -> (String, Value) {
    let text = std::fs::read_to_string(path).expect("cannot read replay file");
    let v: Value = serde_json::from_str(&text).expect("replay file is not JSON");
    let step = v["step"].as_str().unwrap_or("").to_string();
    (step, v["case"].clone())
}
