//! Abstract attribute inputs: a tree of items whose values carry their own semantic annotation
//! (what the literal denotes), rendered to source text with a side table of byte ranges.

use serde::{Deserialize, Serialize};

#[derive(Clone, Debug, Serialize, Deserialize, Hash, PartialEq, Eq)]
pub enum LK {
    Int(i128),
    Str(String),
    Bool(bool),
    Char(char),
    Float,
    ByteStr,
    Byte,
}

impl LK {
    /// darling's name for the literal kind in "Unexpected type" errors
    pub fn name(&self) -> &'static str {
        match self {
            LK::Int(_) => "int",
            LK::Str(_) => "string",
            LK::Bool(_) => "bool",
            LK::Char(_) => "char",
            LK::Float => "float",
            LK::ByteStr => "byte string",
            LK::Byte => "byte",
        }
    }
}

#[derive(Clone, Debug, Serialize, Deserialize, Hash, PartialEq, Eq)]
pub enum Syn {
    Word,
    /// `= <literal>`: the text as written and what it denotes
    Lit(String, LK),
    /// `= <non-literal expression>`: text, darling's name of the expression kind
    Expr(String, String),
    List(Vec<Node>),
}

#[derive(Clone, Debug, Serialize, Deserialize, Hash, PartialEq, Eq)]
pub enum Node {
    /// a bare literal where a named item is expected
    Lit(String, LK),
    Item(String, Syn),
}

impl Node {
    pub fn name(&self) -> Option<&str> {
        match self {
            Node::Item(n, _) => Some(n),
            _ => None,
        }
    }
}

/// Byte ranges of one node of the rendered text.
#[derive(Clone, Debug, Default, Serialize, Deserialize)]
pub struct NodeRange {
    pub item: (usize, usize),
    pub name: (usize, usize),
    /// the value after `=`, or the tokens between the delimiters of a list
    pub value: (usize, usize),
}

/// Side table: node path (indices from the root list) -> ranges.
#[derive(Clone, Debug, Default)]
pub struct Side {
    pub ranges: Vec<(Vec<usize>, NodeRange)>,
}

impl Side {
    pub fn get(&self, path: &[usize]) -> Option<&NodeRange> {
        self.ranges.iter().find(|(p, _)| p == path).map(|(_, r)| r)
    }
    pub fn shift(&mut self, by: usize) {
        for (_, r) in self.ranges.iter_mut() {
            r.item = (r.item.0 + by, r.item.1 + by);
            r.name = (r.name.0 + by, r.name.1 + by);
            r.value = (r.value.0 + by, r.value.1 + by);
        }
    }
}

pub fn render_node(n: &Node, path: &mut Vec<usize>, out: &mut String, side: &mut Side) {
    let start = out.len();
    match n {
        Node::Lit(t, _) => {
            out.push_str(t);
            side.ranges.push((
                path.clone(),
                NodeRange {
                    item: (start, out.len()),
                    name: (start, out.len()),
                    value: (start, out.len()),
                },
            ));
        }
        Node::Item(name, syn) => {
            out.push_str(name);
            let name_r = (start, out.len());
            let mut value = name_r;
            let idx = side.ranges.len();
            side.ranges.push((path.clone(), NodeRange::default()));
            match syn {
                Syn::Word => {}
                Syn::Lit(t, _) | Syn::Expr(t, _) => {
                    out.push_str(" = ");
                    let s = out.len();
                    out.push_str(t);
                    value = (s, out.len());
                }
                Syn::List(kids) => {
                    out.push('(');
                    let s = out.len();
                    render_list(kids, path, out, side);
                    value = (s, out.len());
                    out.push(')');
                }
            }
            side.ranges[idx].1 = NodeRange {
                item: (start, out.len()),
                name: name_r,
                value,
            };
        }
    }
}

pub fn render_list(nodes: &[Node], path: &mut Vec<usize>, out: &mut String, side: &mut Side) {
    for (i, n) in nodes.iter().enumerate() {
        if i > 0 {
            out.push_str(", ");
        }
        path.push(i);
        render_node(n, path, out, side);
        path.pop();
    }
}

/// Render a list of items as the body of one attribute: `name(items)`. Ranges are relative to the
/// returned text.
pub fn render_attr_body(nodes: &[Node]) -> (String, Side) {
    let mut out = String::new();
    let mut side = Side::default();
    render_list(nodes, &mut vec![], &mut out, &mut side);
    (out, side)
}

pub fn count_nodes(nodes: &[Node]) -> usize {
    nodes
        .iter()
        .map(|n| match n {
            Node::Item(_, Syn::List(k)) => 1 + count_nodes(k),
            _ => 1,
        })
        .sum()
}

pub fn depth(nodes: &[Node]) -> usize {
    nodes
        .iter()
        .map(|n| match n {
            Node::Item(_, Syn::List(k)) => 1 + depth(k),
            _ => 1,
        })
        .max()
        .unwrap_or(0)
}
