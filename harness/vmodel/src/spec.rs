//! Receiver specs: the "programs" the L3 properties quantify over. A spec is plain data
//! (serde-serialisable); `vgen` renders it to a `#[derive(..)]` item, the reference model
//! interprets it, the input generators read it.

use serde::{Deserialize, Serialize};

#[derive(Clone, Debug, Serialize, Deserialize, Hash, PartialEq, Eq)]
pub enum Ty {
    Bool,
    U8,
    U16,
    I64,
    Str,
    Char,
    Flag,
    Unit,
    Opt(Box<Ty>),
    Boxed(Box<Ty>),
    /// HashMap<String, T>
    Map(Box<Ty>),
    /// another receiver of the batch (struct or enum deriving FromMeta), by id
    Recv(usize),
    Ident,
    Path,
    Expr,
    LitStr,
    Spanned(Box<Ty>),
    Override(Box<Ty>),
}

impl Ty {
    pub fn is_scalar(&self) -> bool {
        matches!(self, Ty::Bool | Ty::U8 | Ty::U16 | Ty::I64 | Ty::Str | Ty::Char)
    }
    /// Rust spelling of the type inside the generated crate.
    pub fn rust(&self) -> String {
        match self {
            Ty::Bool => "bool".into(),
            Ty::U8 => "u8".into(),
            Ty::U16 => "u16".into(),
            Ty::I64 => "i64".into(),
            Ty::Str => "String".into(),
            Ty::Char => "char".into(),
            Ty::Flag => "::darling::util::Flag".into(),
            Ty::Unit => "()".into(),
            Ty::Opt(t) => format!("Option<{}>", t.rust()),
            Ty::Boxed(t) => format!("Box<{}>", t.rust()),
            Ty::Map(t) => format!("::std::collections::HashMap<String, {}>", t.rust()),
            Ty::Recv(k) => format!("R{}", k),
            Ty::Ident => "::darling::export::syn::Ident".into(),
            Ty::Path => "::darling::export::syn::Path".into(),
            Ty::Expr => "::darling::export::syn::Expr".into(),
            Ty::LitStr => "::darling::export::syn::LitStr".into(),
            Ty::Spanned(t) => format!("::darling::util::SpannedValue<{}>", t.rust()),
            Ty::Override(t) => format!("::darling::util::Override<{}>", t.rust()),
        }
    }
    pub fn recv_ids(&self, out: &mut Vec<usize>) {
        match self {
            Ty::Recv(k) => out.push(*k),
            Ty::Opt(t) | Ty::Boxed(t) | Ty::Map(t) | Ty::Spanned(t) | Ty::Override(t) => t.recv_ids(out),
            _ => {}
        }
    }
}

#[derive(Clone, Copy, Debug, Serialize, Deserialize, Hash, PartialEq, Eq)]
pub enum Dflt {
    None,
    /// `default` -> Default::default()
    Trait,
    /// `default = path`
    Fn,
}

#[derive(Clone, Copy, Debug, Serialize, Deserialize, Hash, PartialEq, Eq)]
pub enum Call {
    None,
    Path,
    Closure,
}

#[derive(Clone, Copy, Debug, Serialize, Deserialize, Hash, PartialEq, Eq)]
pub enum Tr {
    None,
    Map,
    AndThen,
}

#[derive(Clone, Debug, Serialize, Deserialize, Hash, PartialEq, Eq)]
pub struct Field {
    pub rust_name: String,
    pub ty: Ty,
    pub rename: Option<String>,
    pub default: Dflt,
    pub skip: bool,
    pub multiple: bool,
    pub flatten: bool,
    pub with: Call,
    pub transform: Tr,
}

impl Field {
    pub fn plain(name: &str, ty: Ty) -> Field {
        Field {
            rust_name: name.into(),
            ty,
            rename: None,
            default: Dflt::None,
            skip: false,
            multiple: false,
            flatten: false,
            with: Call::None,
            transform: Tr::None,
        }
    }
    /// the declared Rust type of the field (a `multiple` field is a Vec of its element type)
    pub fn rust_ty(&self) -> String {
        if self.multiple {
            format!("Vec<{}>", self.ty.rust())
        } else {
            self.ty.rust()
        }
    }
}

#[derive(Clone, Debug, Serialize, Deserialize, Hash, PartialEq, Eq)]
pub enum Fwd {
    Absent,
    Bare,
    List(Vec<String>),
}

#[derive(Clone, Debug, Serialize, Deserialize, Hash, PartialEq, Eq)]
pub struct Container {
    pub rename_all: Option<String>,
    pub default: Dflt,
    pub transform: Tr,
    pub allow_unknown: bool,
    pub from_word: Call,
    pub from_none: Call,
    pub from_ident: bool,
    pub attributes: Vec<String>,
    pub forward_attrs: Fwd,
    pub supports: Option<Vec<String>>,
}

impl Default for Container {
    fn default() -> Self {
        Container {
            rename_all: None,
            default: Dflt::None,
            transform: Tr::None,
            allow_unknown: false,
            from_word: Call::None,
            from_none: Call::None,
            from_ident: false,
            attributes: vec![],
            forward_attrs: Fwd::Absent,
            supports: None,
        }
    }
}

#[derive(Clone, Debug, Serialize, Deserialize, Hash, PartialEq, Eq)]
pub enum VShape {
    Unit,
    Newtype(Ty),
    Struct(Vec<Field>),
}

#[derive(Clone, Debug, Serialize, Deserialize, Hash, PartialEq, Eq)]
pub struct Variant {
    pub rust_name: String,
    pub rename: Option<String>,
    pub skip: bool,
    pub word: bool,
    pub shape: VShape,
}

#[derive(Clone, Debug, Serialize, Deserialize, Hash, PartialEq, Eq)]
pub enum Body {
    Struct(Vec<Field>),
    Enum(Vec<Variant>),
}

#[derive(Clone, Copy, Debug, Serialize, Deserialize, Hash, PartialEq, Eq)]
pub enum Trait {
    FromMeta,
    FromDeriveInput,
    FromField,
    FromVariant,
    FromTypeParam,
    FromAttributes,
}

impl Trait {
    pub fn name(&self) -> &'static str {
        match self {
            Trait::FromMeta => "FromMeta",
            Trait::FromDeriveInput => "FromDeriveInput",
            Trait::FromField => "FromField",
            Trait::FromVariant => "FromVariant",
            Trait::FromTypeParam => "FromTypeParam",
            Trait::FromAttributes => "FromAttributes",
        }
    }
    pub fn element_level(&self) -> bool {
        !matches!(self, Trait::FromMeta)
    }
}

/// A magic (pass-through) field of an element-level receiver.
#[derive(Clone, Debug, Serialize, Deserialize, Hash, PartialEq, Eq)]
pub struct Magic {
    /// ident | vis | generics | attrs | data | ty | bounds | default | discriminant | fields
    pub name: String,
    /// plain | spanned | with_original | result | with (a custom converter; attrs and data only)
    pub wrap: String,
    /// for `data` / `fields`: the receivers converting variants and fields (ids in the batch), or None for `()` / Ignored
    pub variant_recv: Option<usize>,
    pub field_recv: Option<usize>,
}

#[derive(Clone, Debug, Serialize, Deserialize, Hash, PartialEq, Eq)]
pub struct Spec {
    pub id: usize,
    pub tr: Trait,
    pub container: Container,
    pub body: Body,
    pub magic: Vec<Magic>,
    /// what the receiver is for: c01 (general), c09 (enum), c16 (magic), c17 (suggestions), c18 (supports)
    pub purpose: String,
}

impl Spec {
    pub fn name(&self) -> String {
        format!("R{}", self.id)
    }
    pub fn fields(&self) -> &[Field] {
        match &self.body {
            Body::Struct(f) => f,
            _ => &[],
        }
    }
    pub fn deps(&self) -> Vec<usize> {
        let mut out = vec![];
        match &self.body {
            Body::Struct(fs) => {
                for f in fs {
                    f.ty.recv_ids(&mut out);
                }
            }
            Body::Enum(vs) => {
                for v in vs {
                    match &v.shape {
                        VShape::Unit => {}
                        VShape::Newtype(t) => t.recv_ids(&mut out),
                        VShape::Struct(fs) => {
                            for f in fs {
                                f.ty.recv_ids(&mut out);
                            }
                        }
                    }
                }
            }
        }
        for m in &self.magic {
            // usize::MAX stands for "the syn type itself"
            out.extend(m.variant_recv.filter(|x| *x != usize::MAX));
            out.extend(m.field_recv.filter(|x| *x != usize::MAX));
        }
        out.sort();
        out.dedup();
        out
    }
}

/// Effective name of a field or variant: explicit rename, else the container rule applied to the
/// Rust name (computed with the `ident_case` crate directly), variants of enums defaulting to snake_case.
pub fn effective_name(rust_name: &str, rename: &Option<String>, rule: &Option<String>, is_variant: bool) -> String {
    if let Some(r) = rename {
        return r.clone();
    }
    let bare = rust_name.trim_start_matches("r#");
    let rule: ident_case::RenameRule = match rule {
        Some(r) => r.parse().expect("valid rename rule"),
        None => {
            if is_variant {
                ident_case::RenameRule::SnakeCase
            } else {
                ident_case::RenameRule::None
            }
        }
    };
    let _ = bare;
    // darling applies the rule to `ident.to_string()`, which keeps the `r#` of raw identifiers
    if is_variant {
        rule.apply_to_variant(rust_name)
    } else {
        rule.apply_to_field(rust_name)
    }
}

/// Can the name be written as the path of a meta item?
pub fn expressible(name: &str) -> bool {
    syn::parse_str::<syn::Meta>(name).map(|m| matches!(m, syn::Meta::Path(_))).unwrap_or(false)
}
