//! Abstract input *elements* (what an element-level receiver is handed): attributes with their
//! items, visibility, generics, and a body of fields / variants that carry attributes of their own.
//! Rendered to one source text; the reference model computes the expected magic fields and body
//! conversion from the abstract form.

use crate::input::{render_node, Node, Side};
use crate::model::{self, At, Leaf, World, K};
use crate::spec::*;
use crate::util::canon_tokens;
use crate::val::Val;
use serde::{Deserialize, Serialize};

#[derive(Clone, Debug, Default, Serialize, Deserialize)]
pub struct AttrSet {
    /// items of the (single) attribute read by the receiver; None = the element has no such attribute
    pub nodes: Option<Vec<Node>>,
    /// attribute name used for the darling attribute
    pub name: String,
    /// foreign attributes, rendered before (false) or after (true) the darling attribute
    pub foreign: Vec<(bool, String)>,
    /// an attribute without items written in the bare form `#[name]` instead of `#[name()]`
    #[serde(default)]
    pub bare: bool,
}

#[derive(Clone, Debug, Serialize, Deserialize)]
pub struct FieldIn {
    pub attrs: AttrSet,
    pub vis: String,
    pub name: Option<String>,
    pub ty: String,
}

#[derive(Clone, Copy, Debug, Serialize, Deserialize, PartialEq, Eq)]
pub enum StyleIn {
    Named,
    Tuple,
    Unit,
}

#[derive(Clone, Debug, Serialize, Deserialize)]
pub struct VariantIn {
    pub attrs: AttrSet,
    pub name: String,
    pub style: StyleIn,
    pub fields: Vec<FieldIn>,
    pub disc: Option<String>,
}

#[derive(Clone, Debug, Serialize, Deserialize)]
pub enum BodyIn {
    Struct(StyleIn, Vec<FieldIn>),
    Enum(Vec<VariantIn>),
    Union(Vec<FieldIn>),
}

#[derive(Clone, Debug, Serialize, Deserialize)]
pub struct TypeParamIn {
    pub attrs: AttrSet,
    pub name: String,
    pub bounds: String,
    pub default: Option<String>,
}

#[derive(Clone, Debug, Serialize, Deserialize)]
pub enum GParam {
    Type(TypeParamIn),
    Lifetime(String),
    Const(String),
}

#[derive(Clone, Debug, Serialize, Deserialize)]
pub struct ElemIn {
    pub attrs: AttrSet,
    pub vis: String,
    pub ident: String,
    pub generics: Vec<GParam>,
    pub where_clause: Option<String>,
    pub body: BodyIn,
}

// node-path prefixes (top-level element attributes use plain indices)
pub const P_FIELD: usize = 10_000;
pub const P_VARIANT: usize = 20_000;
pub const P_VFIELD: usize = 30_000;
pub const P_TPARAM: usize = 40_000;

pub struct RenderedElem {
    pub text: String,
    pub side: Side,
}

fn render_attrset(a: &AttrSet, prefix: Option<usize>, out: &mut String, side: &mut Side) {
    for (after, f) in &a.foreign {
        if !*after {
            out.push_str(f);
            out.push('\n');
        }
    }
    if let Some(nodes) = &a.nodes {
        if nodes.is_empty() && a.bare {
            out.push_str(&format!("#[{}]\n", a.name));
        } else {
            out.push_str(&format!("#[{}(", a.name));
        }
        for (i, n) in nodes.iter().enumerate() {
            if i > 0 {
                out.push_str(", ");
            }
            let mut path = match prefix {
                Some(p) => vec![p, i],
                None => vec![i],
            };
            render_node(n, &mut path, out, side);
        }
        if !(nodes.is_empty() && a.bare) {
            out.push_str(")]\n");
        }
    }
    for (after, f) in &a.foreign {
        if *after {
            out.push_str(f);
            out.push('\n');
        }
    }
}

/// The attributes of a set as they appear in the text, in order.
pub fn attr_texts(a: &AttrSet) -> Vec<(String, bool)> {
    let mut out = vec![];
    for (after, f) in &a.foreign {
        if !*after {
            out.push((f.clone(), true));
        }
    }
    if let Some(nodes) = a.nodes.as_ref().filter(|n| n.is_empty() && a.bare) {
        let _ = nodes;
        out.push((format!("#[{}]", a.name), false));
    } else if let Some(nodes) = &a.nodes {
        let mut s = format!("#[{}(", a.name);
        let mut side = Side::default();
        for (i, n) in nodes.iter().enumerate() {
            if i > 0 {
                s.push_str(", ");
            }
            render_node(n, &mut vec![i], &mut s, &mut side);
        }
        s.push_str(")]");
        out.push((s, false));
    }
    for (after, f) in &a.foreign {
        if *after {
            out.push((f.clone(), true));
        }
    }
    out
}

fn render_field(f: &FieldIn, prefix: usize, out: &mut String, side: &mut Side) {
    render_attrset(&f.attrs, Some(prefix), out, side);
    out.push_str(&f.vis);
    if let Some(n) = &f.name {
        out.push_str(n);
        out.push_str(": ");
    }
    out.push_str(&f.ty);
}

fn render_fields(style: StyleIn, fs: &[FieldIn], base: usize, out: &mut String, side: &mut Side) {
    match style {
        StyleIn::Unit => {}
        StyleIn::Named => {
            out.push_str(" {\n");
            for (j, f) in fs.iter().enumerate() {
                render_field(f, base + j, out, side);
                out.push_str(",\n");
            }
            out.push('}');
        }
        StyleIn::Tuple => {
            out.push('(');
            for (j, f) in fs.iter().enumerate() {
                if j > 0 {
                    out.push_str(", ");
                }
                render_field(f, base + j, out, side);
            }
            // a trailing comma after the last positional field is legal and changes nothing (`S(u8,)` is a newtype);
            // written whenever the byte sum of the field types is even, so that both spellings occur for every count
            if !fs.is_empty() && fs.iter().map(|f| f.ty.bytes().map(|b| b as usize).sum::<usize>()).sum::<usize>() % 2 == 0 {
                out.push(',');
            }
            out.push(')');
        }
    }
}

pub fn render_tparam(t: &TypeParamIn, prefix: Option<usize>, out: &mut String, side: &mut Side) {
    render_attrset(&t.attrs, prefix, out, side);
    out.push_str(&t.name);
    if !t.bounds.is_empty() {
        out.push_str(": ");
        out.push_str(&t.bounds);
    }
    if let Some(d) = &t.default {
        out.push_str(" = ");
        out.push_str(d);
    }
}

pub fn render_elem(e: &ElemIn) -> RenderedElem {
    let mut out = String::new();
    let mut side = Side::default();
    render_attrset(&e.attrs, None, &mut out, &mut side);
    out.push_str(&e.vis);
    let kw = match &e.body {
        BodyIn::Struct(..) => "struct",
        BodyIn::Enum(_) => "enum",
        BodyIn::Union(_) => "union",
    };
    out.push_str(&format!("{} {}", kw, e.ident));
    if e.generics.is_empty() && e.where_clause.as_ref().map(|w| w.len() % 2 == 0).unwrap_or(false) {
        // an empty parameter list is a parameter list too
        out.push_str("<>");
    }
    if !e.generics.is_empty() {
        out.push('<');
        for (i, g) in e.generics.iter().enumerate() {
            if i > 0 {
                out.push_str(", ");
            }
            match g {
                GParam::Type(t) => render_tparam(t, Some(P_TPARAM + i), &mut out, &mut side),
                GParam::Lifetime(l) => out.push_str(l),
                GParam::Const(c) => out.push_str(c),
            }
        }
        out.push('>');
    }
    let wc = e.where_clause.clone().map(|w| format!(" where {}", w)).unwrap_or_default();
    match &e.body {
        BodyIn::Struct(style, fs) => match style {
            StyleIn::Named => {
                out.push_str(&wc);
                render_fields(*style, fs, P_FIELD, &mut out, &mut side);
            }
            StyleIn::Tuple => {
                render_fields(*style, fs, P_FIELD, &mut out, &mut side);
                out.push_str(&wc);
                out.push(';');
            }
            StyleIn::Unit => {
                out.push_str(&wc);
                out.push(';');
            }
        },
        BodyIn::Enum(vs) => {
            out.push_str(&wc);
            out.push_str(" {\n");
            for (i, v) in vs.iter().enumerate() {
                render_attrset(&v.attrs, Some(P_VARIANT + i), &mut out, &mut side);
                out.push_str(&v.name);
                render_fields(v.style, &v.fields, P_VFIELD + i * 100, &mut out, &mut side);
                if let Some(d) = &v.disc {
                    out.push_str(" = ");
                    out.push_str(d);
                }
                out.push_str(",\n");
            }
            out.push('}');
        }
        BodyIn::Union(fs) => {
            out.push_str(&wc);
            render_fields(StyleIn::Named, fs, P_FIELD, &mut out, &mut side);
        }
    }
    RenderedElem { text: out, side }
}

// ------------------------------------------------------------------------------------------
// the model of element-level receivers with magic fields

fn toks(s: &str) -> Val {
    Val::Tokens(canon_tokens(s.parse::<proc_macro2::TokenStream>().unwrap_or_default()))
}

fn nodes_of(a: &AttrSet, prefix: Option<usize>) -> Vec<(Vec<usize>, &Node)> {
    match &a.nodes {
        Some(ns) => ns
            .iter()
            .enumerate()
            .map(|(i, n)| {
                (
                    match prefix {
                        Some(p) => vec![p, i],
                        None => vec![i],
                    },
                    n,
                )
            })
            .collect(),
        None => vec![],
    }
}

/// The attributes handed to the `attrs` magic field.
fn forwarded(s: &Spec, a: &AttrSet) -> Vec<Val> {
    let consumed = |path: &str| s.container.attributes.iter().any(|n| n == path);
    let path_of = |attr_text: &str| -> String {
        // `#[path ...]` or a doc comment
        if attr_text.starts_with("///") {
            return "doc".to_string();
        }
        let inner = attr_text.trim_start_matches("#[");
        let end = inner.find(|c: char| c == '(' || c == ']' || c == '=' || c == ' ' || c == '[' || c == '{').unwrap_or(inner.len());
        inner[..end].trim().to_string()
    };
    attr_texts(a)
        .into_iter()
        .filter(|(t, _)| {
            let p = path_of(t);
            if consumed(&p) {
                return false;
            }
            match &s.container.forward_attrs {
                Fwd::Absent => false,
                Fwd::Bare => true,
                Fwd::List(l) => l.iter().any(|n| *n == p),
            }
        })
        .map(|(t, _)| toks(&t))
        .collect()
}

fn tparam_text(t: &TypeParamIn) -> String {
    let mut s = String::new();
    let mut side = Side::default();
    render_tparam(t, None, &mut s, &mut side);
    s
}

fn field_text(f: &FieldIn) -> String {
    let mut s = String::new();
    let mut side = Side::default();
    render_field(f, 0, &mut s, &mut side);
    s
}

fn variant_text(v: &VariantIn) -> String {
    let mut s = String::new();
    let mut side = Side::default();
    render_attrset(&v.attrs, None, &mut s, &mut side);
    s.push_str(&v.name);
    render_fields(v.style, &v.fields, 0, &mut s, &mut side);
    if let Some(d) = &v.disc {
        s.push_str(" = ");
        s.push_str(d);
    }
    s
}

fn style_name(s: StyleIn) -> &'static str {
    match s {
        StyleIn::Named => "named",
        StyleIn::Tuple => "tuple",
        StyleIn::Unit => "unit",
    }
}

pub type Vr<'a> = &'a dyn Fn(&[usize]) -> ((usize, usize), (usize, usize), (usize, usize));

/// Convert a list of fields with the receiver `recv` (None = `()`; Some(usize::MAX) = syn::Field).
fn conv_fields(w: &World, recv: Option<usize>, style: StyleIn, fs: &[FieldIn], base: usize, vr: Vr) -> Result<Val, Vec<Leaf>> {
    let mut vals = vec![];
    let mut leaves = vec![];
    for (j, f) in fs.iter().enumerate() {
        let r = match recv {
            None => Ok(Val::Unit),
            Some(usize::MAX) => Ok(toks(&field_text(f))),
            Some(id) => eval_field_recv(w, w.spec(id), f, base + j, vr),
        };
        match r {
            Ok(v) => vals.push(v),
            Err(ls) => {
                // named fields locate their errors by name
                match &f.name {
                    Some(n) => leaves.extend(ls.into_iter().map(|mut l| {
                        l.path.insert(0, n.clone());
                        l
                    })),
                    None => leaves.extend(ls),
                }
            }
        }
    }
    if leaves.is_empty() {
        Ok(Val::Struct("Fields".into(), vec![("style".into(), Val::Str(style_name(style).into())), ("fields".into(), Val::List(vals))]))
    } else {
        Err(leaves)
    }
}

fn magic_of<'a>(s: &'a Spec, name: &str) -> Option<&'a Magic> {
    s.magic.iter().find(|m| m.name == name)
}

fn wrap_val(m: &Magic, v: Val, original: Val) -> Val {
    match m.wrap.as_str() {
        "result" | "result_ast" => Val::Variant("Result".into(), "Ok".into(), vec![("0".into(), v)]),
        "spanned" => Val::Spanned(Box::new(v), (0, 0)),
        "with_original" => Val::Struct("WithOriginal".into(), vec![("parsed".into(), v), ("original".into(), original)]),
        _ => v,
    }
}

fn attrs_val(s: &Spec, m: &Magic, a: &AttrSet) -> Val {
    let list = forwarded(s, a);
    if m.wrap == "with" {
        Val::Struct("CountedAttrs".into(), vec![("n".into(), Val::Int(list.len() as i64)), ("attrs".into(), Val::List(list))])
    } else {
        Val::List(list)
    }
}

/// Ordinary fields of an element-level receiver on an attribute set.
fn ordinary(w: &World, s: &Spec, a: &AttrSet, prefix: Option<usize>, ident: &str, vr: Vr) -> Result<Vec<(String, Val)>, Vec<Leaf>> {
    let nodes = nodes_of(a, prefix);
    match model::eval_struct(w, s, &nodes, At::Root, Some(ident.len()), vr)? {
        Val::Struct(_, fields) => Ok(fields),
        _ => unreachable!(),
    }
}

pub fn eval_field_recv(w: &World, s: &Spec, f: &FieldIn, prefix: usize, vr: Vr) -> Result<Val, Vec<Leaf>> {
    let ident = f.name.clone().unwrap_or_default();
    let ord = ordinary(w, s, &f.attrs, Some(prefix), &ident, vr)?;
    let mut out = vec![];
    for m in &s.magic {
        let v = match m.name.as_str() {
            "ident" => match &f.name {
                Some(n) => Val::Some(Box::new(toks(n))),
                None => Val::None,
            },
            "vis" => toks(&f.vis),
            "ty" => toks(&f.ty),
            "attrs" => attrs_val(s, m, &f.attrs),
            other => panic!("magic {} on FromField", other),
        };
        out.push((m.name.clone(), v));
    }
    out.extend(ord);
    Ok(Val::Struct(s.name(), out))
}

pub fn eval_variant_recv(w: &World, s: &Spec, v: &VariantIn, idx: usize, vr: Vr) -> Result<Val, Vec<Leaf>> {
    // attribute layer, together with the shape check
    let mut leaves = vec![];
    let ord = match ordinary(w, s, &v.attrs, Some(P_VARIANT + idx), &v.name, vr) {
        Ok(o) => Some(o),
        Err(ls) => {
            leaves.extend(ls);
            None
        }
    };
    if let Some(sup) = &s.container.supports {
        if !variant_shape_ok(sup, v.style, v.fields.len()) {
            leaves.push(Leaf { kind: K::Shape, subject: String::new(), path: vec![], at: At::Root });
        }
    }
    if !leaves.is_empty() {
        return Err(leaves);
    }
    let mut out = vec![];
    for m in &s.magic {
        let val = match m.name.as_str() {
            "ident" => toks(&v.name),
            "discriminant" => match &v.disc {
                Some(d) => Val::Some(Box::new(toks(d))),
                None => Val::None,
            },
            "attrs" => attrs_val(s, m, &v.attrs),
            "fields" => conv_fields(w, m.field_recv, v.style, &v.fields, P_VFIELD + idx * 100, vr)?,
            other => panic!("magic {} on FromVariant", other),
        };
        out.push((m.name.clone(), val));
    }
    out.extend(ord.unwrap());
    Ok(Val::Struct(s.name(), out))
}

pub fn eval_tparam_recv(w: &World, s: &Spec, t: &TypeParamIn, prefix: Option<usize>, vr: Vr) -> Result<Val, Vec<Leaf>> {
    let ord = ordinary(w, s, &t.attrs, prefix, &t.name, vr)?;
    let mut out = vec![];
    for m in &s.magic {
        let v = match m.name.as_str() {
            "ident" => toks(&t.name),
            "bounds" => {
                let bs: Vec<Val> = if t.bounds.trim().is_empty() { vec![] } else { split_bounds(&t.bounds).iter().map(|b| toks(b)).collect() };
                Val::List(bs)
            }
            "default" => match &t.default {
                Some(d) => Val::Some(Box::new(toks(d))),
                None => Val::None,
            },
            "attrs" => attrs_val(s, m, &t.attrs),
            other => panic!("magic {} on FromTypeParam", other),
        };
        out.push((m.name.clone(), v));
    }
    out.extend(ord);
    Ok(Val::Struct(s.name(), out))
}

fn split_bounds(b: &str) -> Vec<String> {
    // bounds in the generated inputs never contain a top-level `+` inside generics
    b.split('+').map(|s| s.trim().to_string()).filter(|s| !s.is_empty()).collect()
}

pub fn variant_shape_ok(words: &[String], style: StyleIn, nfields: usize) -> bool {
    let has = |w: &str| words.iter().any(|x| x == w);
    if has("any") {
        return true;
    }
    match style {
        StyleIn::Named => has("named"),
        StyleIn::Unit => has("unit"),
        StyleIn::Tuple => {
            if nfields == 1 {
                has("newtype") || has("tuple")
            } else {
                has("tuple")
            }
        }
    }
}

/// The documented `supports(..)` table for FromDeriveInput: number of shape errors (0 = accepted).
pub fn shape_errors(words: &[String], body: &BodyIn) -> usize {
    let has = |w: &str| words.iter().any(|x| x == w);
    if has("any") {
        return 0;
    }
    let strip = |prefix: &str| -> Vec<String> { words.iter().filter_map(|w| w.strip_prefix(prefix).map(|x| x.to_string())).collect() };
    match body {
        BodyIn::Struct(style, fs) => {
            let sw = strip("struct_");
            if sw.is_empty() {
                return 1;
            }
            if variant_shape_ok(&sw, *style, fs.len()) {
                0
            } else {
                1
            }
        }
        BodyIn::Enum(vs) => {
            let ew = strip("enum_");
            if ew.is_empty() {
                return 1;
            }
            vs.iter().filter(|v| !variant_shape_ok(&ew, v.style, v.fields.len())).count()
        }
        BodyIn::Union(_) => 1,
    }
}

fn generics_val(w: &World, s: &Spec, m: &Magic, e: &ElemIn, vr: Vr) -> Result<Val, Vec<Leaf>> {
    let mut params = vec![];
    let mut plain_params = vec![];
    for (i, g) in e.generics.iter().enumerate() {
        let (kind, text, tp) = match g {
            GParam::Type(t) => ("Type", tparam_text(t), Some(t)),
            GParam::Lifetime(l) => ("Lifetime", l.clone(), None),
            GParam::Const(c) => ("Const", c.clone(), None),
        };
        plain_params.push(Val::Variant("GenericParam".into(), kind.into(), vec![("0".into(), toks(&text))]));
        let inner = match (m.wrap.as_str(), tp, m.field_recv) {
            ("ast", Some(t), Some(id)) => eval_tparam_recv(w, w.spec(id), t, Some(P_TPARAM + i), vr)?,
            // inside `darling::Result<..>` a failing parameter is captured: the field holds the error (of the first
            // failing parameter), the receiver is built all the same
            ("result_ast", Some(t), Some(id)) => match eval_tparam_recv(w, w.spec(id), t, Some(P_TPARAM + i), vr) {
                Ok(v) => v,
                Err(ls) => return Ok(Val::Variant("Result".into(), "Err".into(), vec![("0".into(), Val::Int(ls.len() as i64))])),
            },
            _ => toks(&text),
        };
        params.push(Val::Variant("GenericParam".into(), kind.into(), vec![("0".into(), inner)]));
    }
    let wc = match &e.where_clause {
        // (a `where` without predicates is still a where-clause - `Some` - although syn prints it as nothing)
        Some(wc) if wc.trim().is_empty() => Val::Some(Box::new(toks(""))),
        Some(wc) => Val::Some(Box::new(toks(&format!("where {}", wc)))),
        None => Val::None,
    };
    let plain = Val::Struct("Generics".into(), vec![("params".into(), Val::List(plain_params)), ("where".into(), wc.clone())]);
    let v = Val::Struct("Generics".into(), vec![("params".into(), Val::List(params)), ("where".into(), wc)]);
    let _ = s;
    Ok(wrap_val(m, v, plain))
}

pub fn eval_derive_input(w: &World, s: &Spec, e: &ElemIn, vr: Vr) -> Result<Val, Vec<Leaf>> {
    let mut leaves = vec![];
    let ord = match ordinary(w, s, &e.attrs, None, &e.ident, vr) {
        Ok(o) => Some(o),
        Err(ls) => {
            leaves.extend(ls);
            None
        }
    };
    if let Some(sup) = &s.container.supports {
        for _ in 0..shape_errors(sup, &e.body) {
            leaves.push(Leaf { kind: K::Shape, subject: String::new(), path: vec![], at: At::Root });
        }
    }
    if !leaves.is_empty() {
        return Err(leaves);
    }
    if s.tr == Trait::FromAttributes {
        let mut out = vec![];
        for m in &s.magic {
            if m.name == "attrs" {
                out.push((m.name.clone(), attrs_val(s, m, &e.attrs)));
            }
        }
        out.extend(ord.unwrap());
        return Ok(Val::Struct(s.name(), out));
    }
    // magic fields in the order the generated code initialises them: ident, generics, vis, attrs, data
    let mut vals: Vec<(String, Val)> = vec![];
    for name in ["ident", "generics", "vis", "attrs", "data"] {
        if let Some(m) = magic_of(s, name) {
            let v = match name {
                "ident" => toks(&e.ident),
                "vis" => toks(&e.vis),
                "attrs" => attrs_val(s, m, &e.attrs),
                "generics" => generics_val(w, s, m, e, vr)?,
                "data" => {
                    if m.wrap == "with" {
                        Val::Str(match &e.body {
                            BodyIn::Struct(_, fs) => format!("struct:{}", fs.len()),
                            BodyIn::Enum(vs) => format!("enum:{}", vs.len()),
                            BodyIn::Union(_) => "union".to_string(),
                        })
                    } else {
                        match &e.body {
                            BodyIn::Union(_) => return Err(vec![Leaf { kind: K::Custom, subject: String::new(), path: vec![], at: At::Root }]),
                            BodyIn::Struct(style, fs) => {
                                let f = conv_fields(w, m.field_recv, *style, fs, P_FIELD, vr)?;
                                Val::Variant("Data".into(), "Struct".into(), vec![("0".into(), f)])
                            }
                            BodyIn::Enum(vs) => {
                                let mut vals = vec![];
                                let mut leaves = vec![];
                                for (i, v) in vs.iter().enumerate() {
                                    let r = match m.variant_recv {
                                        None => Ok(Val::Unit),
                                        Some(usize::MAX) => Ok(toks(&variant_text(v))),
                                        Some(id) => eval_variant_recv(w, w.spec(id), v, i, vr),
                                    };
                                    match r {
                                        Ok(x) => vals.push(x),
                                        Err(ls) => leaves.extend(ls),
                                    }
                                }
                                if !leaves.is_empty() {
                                    return Err(leaves);
                                }
                                Val::Variant("Data".into(), "Enum".into(), vec![("0".into(), Val::List(vals))])
                            }
                        }
                    }
                }
                _ => unreachable!(),
            };
            vals.push((name.to_string(), v));
        }
    }
    // observed in declaration order of the magic list
    let mut out = vec![];
    for m in &s.magic {
        if let Some((_, v)) = vals.iter().find(|(n, _)| *n == m.name) {
            out.push((m.name.clone(), v.clone()));
        }
    }
    out.extend(ord.unwrap());
    Ok(Val::Struct(s.name(), out))
}
