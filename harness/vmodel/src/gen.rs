//! Generators: batches of receiver specs (stage A) and, per receiver, abstract inputs (stage C).
//! Both are decoders over `D` so that proptest owns the randomness.

use crate::dec::D;
use crate::input::{Node, Syn, LK};
use crate::model::{has_std_default, taggable, value_for_absent, variant_name, field_name, World};
use crate::spec::*;

const BASES: &[&str] = &[
    "alpha", "beta", "gamma", "max_len", "is_on", "sit_amet", "lorem", "ipsum", "dolor_sit", "r#type",
    // identifier shapes on which the case rules differ from the identity in less obvious ways: leading capitals,
    // runs of capitals, mixed case, digits inside, leading / trailing / doubled underscores
    "Id", "URL", "Level", "MaxLen", "maxLen", "HTTPServer", "Max_Len", "v2_name", "_lead", "trail_", "a__b", "x",
];
const RULES: &[&str] = &["lowercase", "PascalCase", "camelCase", "snake_case", "SCREAMING_SNAKE_CASE", "kebab-case"];

pub struct BatchCfg {
    pub n: usize,
    pub max_depth: usize,
}

fn scalar(d: &mut D) -> Ty {
    d.pick(&[Ty::Bool, Ty::U8, Ty::U8, Ty::U16, Ty::I64, Ty::Str, Ty::Str, Ty::Char]).clone()
}

/// A field type. `structs`/`enums`: ids of FromMeta receivers generated earlier (lower depth).
fn gen_ty(d: &mut D, structs: &[usize], enums: &[usize], allow_nested: bool) -> Ty {
    match d.weighted(&[10, 3, 2, 2, if allow_nested && !structs.is_empty() { 4 } else { 0 }, if allow_nested && !enums.is_empty() { 3 } else { 0 }, 2, 2, 1, 1]) {
        0 => scalar(d),
        1 => Ty::Opt(Box::new(scalar(d))),
        2 => Ty::Flag,
        3 => {
            // maps of scalars, sometimes of nested receivers
            if allow_nested && !structs.is_empty() && d.ratio(1, 4) {
                Ty::Map(Box::new(Ty::Recv(*d.pick(structs))))
            } else {
                Ty::Map(Box::new(d.pick(&[Ty::U8, Ty::Str, Ty::Bool]).clone()))
            }
        }
        4 => {
            let k = *d.pick(structs);
            match d.below(3) {
                0 => Ty::Opt(Box::new(Ty::Recv(k))),
                1 => Ty::Boxed(Box::new(Ty::Recv(k))),
                _ => Ty::Recv(k),
            }
        }
        5 => {
            let k = *d.pick(enums);
            if d.bool() {
                Ty::Opt(Box::new(Ty::Recv(k)))
            } else {
                Ty::Recv(k)
            }
        }
        6 => d.pick(&[Ty::Ident, Ty::Path, Ty::Expr, Ty::LitStr]).clone(),
        7 => Ty::Spanned(Box::new(scalar(d))),
        8 => Ty::Override(Box::new(scalar(d))),
        _ => Ty::Boxed(Box::new(scalar(d))),
    }
}

fn gen_field(d: &mut D, name: String, id: usize, j: usize, structs: &[usize], enums: &[usize], nested: bool, in_variant: bool) -> Field {
    let mut f = Field::plain(&name, gen_ty(d, structs, enums, nested));
    if d.ratio(1, 5) {
        f.rename = Some(match d.below(5) {
            // (the field's own identifier as its explicit name: stands as written under every case rule)
            3 => name.clone(),
            // (the four keywords a meta path may start with are names like any other: `#[builder(crate = "..")]`)
            4 => d.pick(&["crate", "self", "super", "Self"]).to_string(),
            0 => format!("rn{}_{}", id, j),
            1 => format!("p{}::q{}", id, j),
            _ => format!("Rn{}X{}", id, j),
        });
    }
    f.multiple = d.ratio(1, 6);
    // (`skip` and `multiple` on one field is accepted: the field is simply not read and holds its fallback)
    f.skip = d.ratio(1, 7);
    if taggable(&f.ty) {
        f.with = *d.pick(&[Call::None, Call::None, Call::None, Call::Path, Call::Closure]);
        f.transform = *d.pick(&[Tr::None, Tr::None, Tr::None, Tr::Map, Tr::AndThen]);
    }
    f.default = *d.pick(&[Dflt::None, Dflt::None, Dflt::Trait, Dflt::Fn]);
    if f.default == Dflt::Trait && !has_std_default(&f.ty) {
        f.default = Dflt::Fn;
    }
    if f.skip && !f.multiple && f.default == Dflt::None && !has_std_default(&f.ty) {
        f.default = Dflt::Fn;
    }
    if in_variant {
        // struct variants: no inherited defaults exist, keep the rest
        if f.skip && !f.multiple && f.default == Dflt::None && !has_std_default(&f.ty) {
            f.skip = false;
        }
    }
    f
}

fn field_names(d: &mut D, n: usize, id: usize) -> Vec<String> {
    // globally unique (the receiver id is part of every name), so that a flatten target never
    // shares a name with the receiver that flattens it
    let mut out: Vec<String> = vec![];
    while out.len() < n {
        let b = *d.pick(BASES);
        let name = format!("{}{}", b, id);
        if out.contains(&name) {
            out.push(format!("f{}_{}", id, out.len()));
        } else {
            out.push(name);
        }
    }
    out
}

/// Turn one field into a `#[darling(flatten)]` field (one time in three): into an earlier struct receiver
/// (possibly boxed) or a string map; options that conflict with flatten are cleared.
fn maybe_flatten(d: &mut D, fields: &mut Vec<Field>, structs: &[usize]) {
    if fields.is_empty() || !d.ratio(1, 3) {
        return;
    }
    let j = d.below(fields.len());
    let ty = if !structs.is_empty() && d.ratio(2, 3) {
        let k = *d.pick(structs);
        if d.bool() {
            Ty::Boxed(Box::new(Ty::Recv(k)))
        } else {
            Ty::Recv(k)
        }
    } else {
        Ty::Map(Box::new(d.pick(&[Ty::U8, Ty::Str]).clone()))
    };
    let f = &mut fields[j];
    f.ty = ty;
    f.flatten = true;
    f.rename = None;
    f.skip = false;
    f.multiple = false;
    f.with = Call::None;
    f.transform = Tr::None;
    f.default = Dflt::None;
    // a flatten field swallows every unknown name, so allow_unknown_fields is moot
}

pub fn gen_struct(d: &mut D, id: usize, tr: Trait, structs: &[usize], enums: &[usize], specs: &[Spec]) -> Spec {
    let mut c = Container::default();
    if d.ratio(1, 2) {
        c.rename_all = Some(d.pick(RULES).to_string());
    }
    c.default = *d.pick(&[Dflt::None, Dflt::None, Dflt::Trait, Dflt::Fn]);
    c.allow_unknown = d.ratio(1, 5);
    // (a receiver without any field is a boundary worth having: `struct R {}`)
    let n = if d.ratio(1, 12) { 0 } else { d.range(1, 5) };
    let names = field_names(d, n, id);
    let mut fields: Vec<Field> = names
        .into_iter()
        .enumerate()
        .map(|(j, nm)| gen_field(d, nm, id, j, structs, enums, true, false))
        .collect();
    // flatten: one field at most, into an earlier struct receiver or a map; incompatible options cleared
    maybe_flatten(d, &mut fields, structs);
    if crate::model::container_tag_field(&fields).is_some() {
        c.transform = *d.pick(&[Tr::None, Tr::None, Tr::Map, Tr::AndThen]);
    }
    // an element-level receiver may call an ordinary field by a name that is magic for *another* trait only
    // (`vis` in a FromVariant receiver is just a field); element-level receivers are never flatten targets, so the
    // name need not be globally unique
    if tr != Trait::FromMeta && d.ratio(1, 4) {
        let foreign: &[&str] = match tr {
            Trait::FromDeriveInput => &["ty", "bounds", "discriminant", "fields"],
            Trait::FromField => &["generics", "data", "bounds", "discriminant", "fields"],
            Trait::FromVariant => &["vis", "ty", "generics", "data", "bounds"],
            Trait::FromTypeParam => &["vis", "ty", "generics", "data", "discriminant", "fields"],
            _ => &["vis", "ty", "generics", "data", "bounds", "discriminant", "fields"],
        };
        let cands: Vec<usize> = (0..fields.len()).filter(|j| !fields[*j].flatten).collect();
        if !cands.is_empty() {
            let j = cands[d.below(cands.len())];
            fields[j].rust_name = d.pick(foreign).to_string();
        }
    }
    fix_inexpressible(&mut fields, &c, id);
    if tr == Trait::FromMeta {
        c.from_word = *d.pick(&[Call::None, Call::None, Call::Path, Call::Closure]);
        c.from_none = *d.pick(&[Call::None, Call::None, Call::Path, Call::Closure]);
    } else {
        let n = d.range(1, 3);
        c.attributes = (0..n).map(|i| format!("at{}", ["a", "b", "c"][i])).collect();
        if d.ratio(1, 8) {
            c.attributes[0] = "ns::at".to_string();
        }
        // (an attribute may be called by a raw identifier)
        if d.ratio(1, 8) {
            let k = c.attributes.len() - 1;
            c.attributes[k] = "r#type".to_string();
        }
        // (a receiver may claim `doc` itself: `#[doc(..)]` lists are then its own attributes)
        if d.ratio(1, 10) {
            let k = d.below(c.attributes.len());
            c.attributes[k] = "doc".to_string();
        }
        // (undocumented option; for FromField it needs From<Option<Ident>>, FromAttributes has no ident)
        c.from_ident = c.default == Dflt::None && d.ratio(1, 6) && matches!(tr, Trait::FromDeriveInput | Trait::FromVariant | Trait::FromTypeParam);
    }
    Spec {
        id,
        tr,
        container: c,
        body: Body::Struct(fields),
        magic: vec![],
        purpose: "c01".into(),
    }
}

/// A required field whose effective name cannot be written as a path (kebab-case of a multi-word
/// name) could never be supplied: give it an explicit rename.
fn fix_inexpressible(fields: &mut [Field], c: &Container, id: usize) {
    let mut seen: Vec<String> = vec![];
    for (j, f) in fields.iter_mut().enumerate() {
        if f.skip || f.flatten {
            continue;
        }
        if !expressible(&field_name(f, c)) && f.default == Dflt::None && !f.multiple {
            f.rename = Some(format!("rx{}_{}", id, j));
        }
        // two fields whose effective names coincide under the case rule (`Max_Len` and `maxLen` in camelCase) are the
        // user's mistake, not an input darling defines: keep effective names distinct inside one receiver
        if seen.contains(&field_name(f, c)) {
            f.rename = Some(format!("ru{}_{}", id, j));
        }
        seen.push(field_name(f, c));
    }
}

pub fn gen_enum(d: &mut D, id: usize, structs: &[usize], enums: &[usize]) -> Spec {
    let mut c = Container::default();
    if d.ratio(1, 2) {
        c.rename_all = Some(d.pick(RULES).to_string());
    }
    c.allow_unknown = d.ratio(1, 5);
    let n = d.range(1, 5);
    // (variant names of unusual shapes too: a run of capitals, a digit inside, snake-like)
    let vpool = ["UnitOne", "Beta", "GammaRay", "X", "DeltaFour", "Alpha", "HTTPServer", "A1b", "snake_like", "Io"];
    let off = d.below(vpool.len());
    let vnames: Vec<&str> = (0..6).map(|k| vpool[(off + k) % vpool.len()]).collect();
    let mut vs = vec![];
    let mut have_word = false;
    for i in 0..n {
        let shape = if i == 0 {
            VShape::Unit
        } else {
            match d.weighted(&[4, 3, 3]) {
                0 => VShape::Unit,
                1 => VShape::Newtype(gen_ty(d, structs, enums, true)),
                _ => {
                    // (`V {}` - a struct variant without fields - included)
                    let k = if d.ratio(1, 6) { 0 } else { d.range(1, 3) };
                    let names: Vec<String> = (0..k).map(|j| format!("{}{}v{}", ["fa", "fb_c", "fd"][j], id, i)).collect();
                    let mut fs: Vec<Field> = names
                        .into_iter()
                        .enumerate()
                        .map(|(j, nm)| {
                            let mut f = gen_field(d, nm, id, 10 * i + j, structs, enums, false, true);
                            // no container default to inherit from inside an enum
                            if f.skip && f.default == Dflt::None && !has_std_default(&f.ty) {
                                f.skip = false;
                            }
                            f
                        })
                        .collect();
                    // (a struct variant is a struct receiver: it may flatten too)
                    maybe_flatten(d, &mut fs, structs);
                    let pseudo = Container { rename_all: c.rename_all.clone(), ..Default::default() };
                    fix_inexpressible(&mut fs, &pseudo, id * 100 + i);
                    VShape::Struct(fs)
                }
            }
        };
        let is_unit = matches!(shape, VShape::Unit);
        let word = is_unit && !have_word && d.ratio(1, 5);
        have_word |= word;
        vs.push(Variant {
            rust_name: format!("{}{}", vnames[i], id),
            // (an explicit name may well be the variant's own identifier: it then stands as written, whatever the case rule)
            rename: match d.below(10) {
                0 | 1 => Some(format!("vr{}_{}", id, i)),
                2 => Some(format!("{}{}", vnames[i], id)),
                _ => None,
            },
            // known finding (DESIGN section 5 #12): skip + word on one variant is excluded by construction
            skip: i > 0 && !word && d.ratio(1, 6),
            word,
            shape,
        });
    }
    if !have_word {
        c.from_word = *d.pick(&[Call::None, Call::None, Call::None, Call::Path, Call::Closure]);
    }
    // a skipped variant may carry the very name of a later live one (it reserves nothing: the live one is selected)
    if d.ratio(1, 5) {
        let sk: Vec<usize> = (0..vs.len()).filter(|i| vs[*i].skip).collect();
        if let Some(&i) = sk.first() {
            if let Some(j) = ((i + 1)..vs.len()).find(|j| !vs[*j].skip) {
                let name = effective_name(&vs[j].rust_name, &vs[j].rename, &c.rename_all, true);
                vs[i].rename = Some(name);
            }
        }
    }
    // the first (unit, never skipped) variant must be nameable, otherwise the enum has no good value
    if !expressible(&effective_name(&vs[0].rust_name, &vs[0].rename, &c.rename_all, true)) {
        vs[0].rename = Some(format!("vx{}", id));
    }
    c.from_none = *d.pick(&[Call::None, Call::None, Call::Path, Call::Closure]);
    Spec {
        id,
        tr: Trait::FromMeta,
        container: c,
        body: Body::Enum(vs),
        magic: vec![],
        purpose: "c09".into(),
    }
}

/// A batch: FromMeta structs and enums of increasing depth first (so that nesting is possible),
/// then receivers for every trait.
pub fn gen_batch(d: &mut D, cfg: &BatchCfg) -> Vec<Spec> {
    let mut specs: Vec<Spec> = vec![];
    let mut structs: Vec<usize> = vec![];
    let mut enums: Vec<usize> = vec![];
    let mut depth: Vec<usize> = vec![];
    for id in 0..cfg.n {
        // only receivers of depth < max_depth may be nested further
        let ok_s: Vec<usize> = structs.iter().cloned().filter(|k| depth[*k] < cfg.max_depth).collect();
        let ok_e: Vec<usize> = enums.iter().cloned().filter(|k| depth[*k] < cfg.max_depth).collect();
        let kind = d.weighted(&[5, 3, 6]);
        let s = match kind {
            0 => {
                let s = gen_struct(d, id, Trait::FromMeta, &ok_s, &ok_e, &specs);
                structs.push(id);
                s
            }
            1 => {
                let s = gen_enum(d, id, &ok_s, &ok_e);
                enums.push(id);
                s
            }
            _ => {
                let tr = *d.pick(&[Trait::FromDeriveInput, Trait::FromField, Trait::FromVariant, Trait::FromTypeParam, Trait::FromAttributes]);
                gen_struct(d, id, tr, &ok_s, &ok_e, &specs)
            }
        };
        let dep = s.deps().iter().map(|k| depth[*k]).max().unwrap_or(0) + 1;
        depth.push(dep);
        specs.push(s);
    }
    // One fixed receiver for the known finding "skip + word on one variant" (excluded from random
    // generation by construction): `enum { Alpha, #[darling(skip, word)] Delta }`.
    specs.push(Spec {
        id: cfg.n,
        tr: Trait::FromMeta,
        container: Container::default(),
        body: Body::Enum(vec![
            Variant { rust_name: format!("Alpha{}", cfg.n), rename: None, skip: false, word: false, shape: VShape::Unit },
            Variant { rust_name: format!("Delta{}", cfg.n), rename: None, skip: true, word: true, shape: VShape::Unit },
        ]),
        magic: vec![],
        purpose: "c09-known-skip-word".into(),
    });
    specs
}

// ------------------------------------------------------------------------------------------
// inputs

#[derive(Clone, Copy, PartialEq, Eq, Debug)]
pub enum Mode {
    Clean,
    /// inject up to this many mistakes
    Mistakes(usize),
}

pub struct InputStats {
    pub mistakes: Vec<&'static str>,
    pub omitted_defaulted: bool,
    pub repeated_multiple: bool,
    pub flatten_handoff: usize,
    pub ignored_unknown: usize,
}

impl Default for InputStats {
    fn default() -> Self {
        InputStats { mistakes: vec![], omitted_defaulted: false, repeated_multiple: false, flatten_handoff: 0, ignored_unknown: 0 }
    }
}

fn str_lit(d: &mut D, content: &str) -> Syn {
    let simple = !content.contains('"') && !content.contains('\\');
    let text = match d.below(3) {
        0 if simple => format!("r\"{}\"", content),
        1 if !content.contains("\"#") => format!("r#\"{}\"#", content),
        _ => format!("{:?}", content),
    };
    Syn::Lit(text, LK::Str(content.to_string()))
}

fn gen_str_content(d: &mut D) -> String {
    let tails = ["", "a", " b", "\"q\"", "\\n", "é", "::x", "_1", " at y", "/z"];
    format!("s{}{}", d.below(40), d.pick(&tails))
}

pub fn good_value(w: &World, ty: &Ty, d: &mut D, depth: usize, st: &mut InputStats) -> Syn {
    match ty {
        Ty::U8 | Ty::U16 | Ty::I64 => {
            // below 32 and never the and_then sentinel, also not after the `with` tag (x ^ 0x20)
            let mut v = d.below(32) as i128;
            if v == 13 {
                v = 14;
            }
            match d.below(6) {
                0 => Syn::Lit(format!("{:#04x}", v), LK::Int(v)),
                1 => Syn::Lit(format!("{}{}", v, match ty { Ty::U8 => "u8", Ty::U16 => "u16", _ => "i64" }), LK::Int(v)),
                2 => Syn::Lit(format!("0_{}", v), LK::Int(v)),
                3 => Syn::Lit(format!("\"{}\"", v), LK::Str(v.to_string())),
                4 if matches!(ty, Ty::I64) => Syn::Lit(format!("\"-{}\"", v + 1), LK::Str(format!("-{}", v + 1))),
                _ => Syn::Lit(v.to_string(), LK::Int(v)),
            }
        }
        Ty::Bool => match d.below(5) {
            0 => Syn::Word,
            1 => Syn::Lit("true".into(), LK::Bool(true)),
            2 => Syn::Lit("false".into(), LK::Bool(false)),
            3 => Syn::Lit("\"true\"".into(), LK::Str("true".into())),
            _ => Syn::Lit("\"false\"".into(), LK::Str("false".into())),
        },
        Ty::Str => {
            let c = gen_str_content(d);
            str_lit(d, &c)
        }
        Ty::Char => {
            let c = *d.pick(&['a', 'Z', '#', 'é', '7', ' ']);
            if d.bool() {
                Syn::Lit(format!("{:?}", c), LK::Char(c))
            } else {
                Syn::Lit(format!("{:?}", c.to_string()), LK::Str(c.to_string()))
            }
        }
        Ty::Flag | Ty::Unit => Syn::Word,
        Ty::Opt(t) | Ty::Boxed(t) | Ty::Spanned(t) => good_value(w, t, d, depth, st),
        Ty::Override(t) => {
            if d.ratio(1, 3) {
                Syn::Word
            } else {
                // the bare word means Inherit, so a bool written as a word is not generated here
                let mut v = good_value(w, t, d, depth, st);
                if v == Syn::Word {
                    // (only bool is written as a word)
                    v = Syn::Lit("true".into(), LK::Bool(true));
                }
                v
            }
        }
        Ty::Map(t) => {
            let n = d.below(4);
            Syn::List((0..n).map(|i| Node::Item(format!("k{}", i), good_value(w, t, d, depth, st))).collect())
        }
        Ty::Ident => {
            let id = *d.pick(&["foo", "Bar", "r#type", "x1"]);
            if d.bool() {
                Syn::Expr(id.into(), "path".into())
            } else {
                Syn::Lit(format!("{:?}", id), LK::Str(id.into()))
            }
        }
        Ty::Path => {
            let p = *d.pick(&["a::b", "::std::x", "foo", "crate::m::T"]);
            if d.bool() {
                Syn::Expr(p.into(), "path".into())
            } else {
                Syn::Lit(format!("{:?}", p), LK::Str(p.into()))
            }
        }
        Ty::Expr => match d.below(4) {
            0 => Syn::Expr("x + 1".into(), "binary".into()),
            1 => Syn::Lit("\"y * 2\"".into(), LK::Str("y * 2".into())),
            2 => Syn::Lit("5".into(), LK::Int(5)),
            _ => Syn::Expr("f(a, b)".into(), "call".into()),
        },
        Ty::LitStr => {
            let c = gen_str_content(d);
            str_lit(d, &c)
        }
        Ty::Recv(k) => {
            let s = w.spec(*k);
            match &s.body {
                Body::Struct(_) => {
                    if s.container.from_word != Call::None && d.ratio(1, 5) {
                        Syn::Word
                    } else {
                        Syn::List(gen_items(w, s, d, Mode::Clean, depth + 1, st))
                    }
                }
                Body::Enum(vs) => {
                    let live: Vec<&Variant> = vs.iter().filter(|v| !v.skip && expressible(&variant_name(s, v))).collect();
                    if (s.container.from_word != Call::None || vs.iter().any(|v| v.word)) && d.ratio(1, 5) {
                        return Syn::Word;
                    }
                    if live.is_empty() {
                        // only reachable through a word
                        return Syn::Word;
                    }
                    let v = *d.pick(&live);
                    let name = variant_name(s, v);
                    match &v.shape {
                        VShape::Unit => {
                            if d.bool() {
                                Syn::Lit(format!("{:?}", name), LK::Str(name))
                            } else {
                                Syn::List(vec![Node::Item(name, Syn::Word)])
                            }
                        }
                        VShape::Newtype(t) => Syn::List(vec![Node::Item(name, good_value(w, t, d, depth + 1, st))]),
                        VShape::Struct(fs) => {
                            let pseudo = Container { rename_all: s.container.rename_all.clone(), allow_unknown: s.container.allow_unknown, ..Default::default() };
                            Syn::List(vec![Node::Item(name, Syn::List(gen_field_items(w, fs, &pseudo, d, Mode::Clean, depth + 2, st)))])
                        }
                    }
                }
            }
        }
    }
}

/// A value the type rejects (one mistake), or None if no such value is known for the type.
pub fn bad_value(ty: &Ty, d: &mut D) -> Option<Syn> {
    let wrong_kinds = |d: &mut D, accepted: &[&str]| -> Syn {
        let all: Vec<(&str, Syn)> = vec![
            ("int", Syn::Lit("7".into(), LK::Int(7))),
            ("str", Syn::Lit("\"zz\"".into(), LK::Str("zz".into()))),
            ("bool", Syn::Lit("true".into(), LK::Bool(true))),
            ("char", Syn::Lit("'q'".into(), LK::Char('q'))),
            ("float", Syn::Lit("1.5".into(), LK::Float)),
            ("bytestr", Syn::Lit("b\"x\"".into(), LK::ByteStr)),
            ("word", Syn::Word),
            ("list", Syn::List(vec![])),
            ("expr", Syn::Expr("a + b".into(), "binary".into())),
            ("path", Syn::Expr("pp".into(), "path".into())),
            ("array", Syn::Expr("[1, 2]".into(), "array".into())),
        ];
        let cands: Vec<Syn> = all.into_iter().filter(|(k, _)| !accepted.contains(k)).map(|(_, s)| s).collect();
        d.pick(&cands).clone()
    };
    Some(match ty {
        Ty::U8 => match d.below(3) {
            0 => Syn::Lit("300".into(), LK::Int(300)),
            1 => Syn::Lit("\"nan\"".into(), LK::Str("nan".into())),
            _ => wrong_kinds(d, &["int", "str"]),
        },
        Ty::U16 => match d.below(3) {
            0 => Syn::Lit("70000".into(), LK::Int(70000)),
            1 => Syn::Lit("\"-1\"".into(), LK::Str("-1".into())),
            _ => wrong_kinds(d, &["int", "str"]),
        },
        Ty::I64 => match d.below(3) {
            0 => Syn::Lit("9223372036854775808".into(), LK::Int(9223372036854775808)),
            1 => Syn::Lit("\"1.0\"".into(), LK::Str("1.0".into())),
            _ => wrong_kinds(d, &["int", "str"]),
        },
        Ty::Bool => {
            if d.bool() {
                Syn::Lit("\"yes\"".into(), LK::Str("yes".into()))
            } else {
                wrong_kinds(d, &["bool", "str", "word"])
            }
        }
        Ty::Str | Ty::LitStr => wrong_kinds(d, &["str"]),
        Ty::Char => {
            if d.bool() {
                Syn::Lit("\"ab\"".into(), LK::Str("ab".into()))
            } else {
                wrong_kinds(d, &["char", "str"])
            }
        }
        Ty::Flag | Ty::Unit => wrong_kinds(d, &["word"]),
        Ty::Opt(t) | Ty::Boxed(t) | Ty::Spanned(t) => return bad_value(t, d),
        Ty::Override(t) => {
            let b = bad_value(t, d)?;
            if b == Syn::Word {
                return None;
            }
            b
        }
        Ty::Ident => wrong_kinds(d, &["str", "path"]),
        Ty::Path => wrong_kinds(d, &["str", "path"]),
        Ty::Expr => {
            if d.bool() {
                Syn::Word
            } else {
                Syn::List(vec![])
            }
        }
        Ty::Map(t) => {
            let good = |t: &Ty| -> Syn {
                match t {
                    Ty::U8 | Ty::U16 | Ty::I64 => Syn::Lit("1".into(), LK::Int(1)),
                    Ty::Bool => Syn::Lit("true".into(), LK::Bool(true)),
                    _ => Syn::Lit("\"sx\"".into(), LK::Str("sx".into())),
                }
            };
            match d.below(7) {
                0 => wrong_kinds(d, &["list"]),
                1 => Syn::List(vec![Node::Lit("\"lit\"".into(), LK::Str("lit".into()))]),
                2 => {
                    let b = bad_value(t, d)?;
                    Syn::List(vec![Node::Item("kb".into(), b)])
                }
                // repeated keys: good then good, bad then good, good then bad, bad then bad, three times
                3 => Syn::List(vec![Node::Item("kr".into(), good(t)), Node::Item("ko".into(), good(t)), Node::Item("kr".into(), good(t))]),
                4 => {
                    let b = bad_value(t, d)?;
                    Syn::List(vec![Node::Item("kr".into(), b), Node::Item("kr".into(), good(t))])
                }
                5 => {
                    let b = bad_value(t, d)?;
                    Syn::List(vec![Node::Item("kr".into(), good(t)), Node::Item("kr".into(), b), Node::Item("kr".into(), good(t))])
                }
                _ => {
                    let b = bad_value(t, d)?;
                    let b2 = bad_value(t, d)?;
                    Syn::List(vec![Node::Item("kr".into(), b), Node::Lit("7".into(), LK::Int(7)), Node::Item("kr".into(), b2)])
                }
            }
        }
        Ty::Recv(_) => wrong_kinds(d, &["list", "word", "str"]),
    })
}

fn shuffle<T>(v: &mut Vec<T>, d: &mut D) {
    for i in (1..v.len()).rev() {
        let j = d.below(i + 1);
        v.swap(i, j);
    }
}

pub fn gen_items(w: &World, s: &Spec, d: &mut D, mode: Mode, depth: usize, st: &mut InputStats) -> Vec<Node> {
    gen_field_items(w, s.fields(), &s.container, d, mode, depth, st)
}

/// Items for a field list. Clean mode: every required field once, optional ones sometimes,
/// `multiple` fields 0..3 times, unknown names only where they are handed on or ignored.
pub fn gen_field_items(w: &World, fs: &[Field], c: &Container, d: &mut D, mode: Mode, depth: usize, st: &mut InputStats) -> Vec<Node> {
    let mut items: Vec<Node> = vec![];
    let budget = match mode {
        Mode::Clean => 0,
        Mode::Mistakes(n) => n,
    };
    let mut mistakes_left = if depth == 0 { budget } else { budget.min(2) };
    let too_deep = depth >= 4;
    for f in fs {
        if f.skip || f.flatten {
            continue;
        }
        let name = field_name(f, c);
        if !expressible(&name) {
            continue;
        }
        let has_default = f.default != Dflt::None || c.default != Dflt::None || c.from_ident;
        let optional = f.multiple || has_default || value_for_absent(w, &f.ty).is_some();
        let nested_recv = {
            let mut v = vec![];
            f.ty.recv_ids(&mut v);
            !v.is_empty()
        };
        let count = if f.multiple {
            let n = d.below(4);
            if n >= 2 {
                st.repeated_multiple = true;
            }
            n
        } else if optional && (d.bool() || (too_deep && nested_recv)) {
            if has_default {
                st.omitted_defaulted = true;
            }
            0
        } else {
            1
        };
        // mistake: drop a required item
        if count == 1 && !optional && mistakes_left > 0 && d.ratio(1, 8) {
            mistakes_left -= 1;
            st.mistakes.push("missing");
            continue;
        }
        for _ in 0..count {
            let val = if mistakes_left > 0 && d.ratio(1, 6) {
                match bad_value(&f.ty, d) {
                    Some(b) => {
                        mistakes_left -= 1;
                        st.mistakes.push("bad-value");
                        b
                    }
                    None => good_value(w, &f.ty, d, depth, st),
                }
            } else if mistakes_left > 0 && f.transform == Tr::AndThen && d.ratio(1, 6) && matches!(f.ty, Ty::U8 | Ty::U16 | Ty::I64 | Ty::Str) {
                mistakes_left -= 1;
                st.mistakes.push("and_then-reject");
                match f.ty {
                    Ty::Str => Syn::Lit("\"sreject\"".into(), LK::Str("sreject".into())),
                    _ => Syn::Lit("13".into(), LK::Int(13)),
                }
            } else if mistakes_left > 0 && nested_recv && d.ratio(1, 3) {
                // a mistake deeper inside
                let before = st.mistakes.len();
                let v = good_value_with_mistakes(w, &f.ty, d, depth, st, mistakes_left.min(2));
                mistakes_left = mistakes_left.saturating_sub(st.mistakes.len() - before);
                v
            } else {
                good_value(w, &f.ty, d, depth, st)
            };
            items.push(Node::Item(name.clone(), val));
        }
        // mistake: repeat a non-multiple field
        if count == 1 && !f.multiple && mistakes_left > 0 && d.ratio(1, 8) {
            let extra = d.range(1, 2);
            for _ in 0..extra {
                items.push(Node::Item(name.clone(), good_value(w, &f.ty, d, depth, st)));
                st.mistakes.push("duplicate");
            }
            mistakes_left -= 1;
        }
    }
    // names the receiver does not know
    if let Some(ff) = fs.iter().find(|f| f.flatten) {
        match inner_ty(&ff.ty) {
            Ty::Recv(k) => {
                let inner = w.spec(*k);
                let m = if mistakes_left > 0 && d.ratio(1, 3) { Mode::Mistakes(1) } else { Mode::Clean };
                let mut sub = gen_items(w, inner, d, m, depth + 1, st);
                st.flatten_handoff += sub.len();
                items.append(&mut sub);
            }
            Ty::Map(t) => {
                let n = d.below(4);
                for i in 0..n {
                    items.push(Node::Item(format!("zk{}", i), good_value(w, t, d, depth, st)));
                    st.flatten_handoff += 1;
                }
            }
            _ => {}
        }
    } else if c.allow_unknown {
        let n = d.below(3);
        for i in 0..n {
            items.push(Node::Item(format!("ign{}", i), d.pick(&[Syn::Word, Syn::Lit("1".into(), LK::Int(1)), Syn::List(vec![Node::Item("q".into(), Syn::Word)])]).clone()));
            st.ignored_unknown += 1;
        }
    } else if mistakes_left > 0 && d.ratio(1, 4) {
        // an unknown name, close to a real one when possible
        let real: Vec<String> = fs.iter().filter(|f| !f.skip && !f.flatten).map(|f| field_name(f, c)).filter(|n| expressible(n)).collect();
        let name = if !real.is_empty() && d.bool() {
            let r = d.pick(&real).clone();
            let bare = r.replace("::", "_").replace("r#", "");
            // close to a real name, or a longer path that merely ends / starts with a real name
            match d.below(4) {
                0 if !r.starts_with("::") => format!("x::{}", r),
                1 => format!("{}::x", r),
                _ => format!("{}x", bare),
            }
        } else {
            format!("unk{}", d.below(9))
        };
        items.push(Node::Item(name, d.pick(&[Syn::Word, Syn::Lit("1".into(), LK::Int(1))]).clone()));
        st.mistakes.push("unknown");
        mistakes_left -= 1;
    }
    if mistakes_left > 0 && d.ratio(1, 6) {
        items.push(d.pick(&[Node::Lit("\"stray\"".into(), LK::Str("stray".into())), Node::Lit("42".into(), LK::Int(42)), Node::Lit("true".into(), LK::Bool(true))]).clone());
        st.mistakes.push("literal-item");
    }
    shuffle(&mut items, d);
    items
}

fn inner_ty(t: &Ty) -> &Ty {
    match t {
        Ty::Boxed(x) | Ty::Opt(x) => inner_ty(x),
        other => other,
    }
}

/// A well-formed value for a nested receiver type in which mistakes are injected deeper down.
fn good_value_with_mistakes(w: &World, ty: &Ty, d: &mut D, depth: usize, st: &mut InputStats, n: usize) -> Syn {
    // a map whose values are receivers: one entry carries the mistakes (several inside one entry included), the
    // others are clean
    if let Ty::Map(t) = inner_ty(ty) {
        let mut t1: Vec<usize> = vec![];
        t.recv_ids(&mut t1);
        if !t1.is_empty() {
            let k = d.range(1, 3);
            let bad = d.below(k);
            let entries = (0..k)
                .map(|i| {
                    let v = if i == bad { good_value_with_mistakes(w, t, d, depth + 1, st, n) } else { good_value(w, t, d, depth + 1, st) };
                    Node::Item(format!("k{}", i), v)
                })
                .collect();
            return Syn::List(entries);
        }
    }
    match inner_ty(ty) {
        Ty::Recv(k) => {
            let s = w.spec(*k);
            match &s.body {
                Body::Struct(_) => Syn::List(gen_items(w, s, d, Mode::Mistakes(n), depth + 1, st)),
                Body::Enum(vs) => {
                    // wrong item count, unknown / skipped variant, or a mistake inside a struct variant
                    let live: Vec<&Variant> = vs.iter().filter(|v| !v.skip && expressible(&variant_name(s, v))).collect();
                    match d.below(5) {
                        0 => {
                            st.mistakes.push("enum-too-few");
                            Syn::List(vec![])
                        }
                        1 if !live.is_empty() => {
                            st.mistakes.push("enum-too-many");
                            let a = variant_name(s, live[0]);
                            Syn::List(vec![Node::Item(a.clone(), Syn::Word), Node::Item(a, Syn::Word)])
                        }
                        2 => {
                            st.mistakes.push("enum-unknown-variant");
                            let skipped: Vec<&Variant> = vs.iter().filter(|v| v.skip && expressible(&variant_name(s, v))).collect();
                            let name = if !skipped.is_empty() && d.bool() { variant_name(s, skipped[0]) } else { "nope".to_string() };
                            if d.bool() {
                                Syn::List(vec![Node::Item(name, Syn::Word)])
                            } else {
                                Syn::Lit(format!("{:?}", name), LK::Str(name))
                            }
                        }
                        _ => {
                            let structs: Vec<&&Variant> = live.iter().filter(|v| matches!(v.shape, VShape::Struct(_))).collect();
                            if let Some(v) = if structs.is_empty() { None } else { Some(structs[d.below(structs.len())]) } {
                                if let VShape::Struct(fs) = &v.shape {
                                    let pseudo = Container { rename_all: s.container.rename_all.clone(), allow_unknown: s.container.allow_unknown, ..Default::default() };
                                    return Syn::List(vec![Node::Item(variant_name(s, v), Syn::List(gen_field_items(w, fs, &pseudo, d, Mode::Mistakes(n), depth + 2, st)))]);
                                }
                            }
                            good_value(w, ty, d, depth, st)
                        }
                    }
                }
            }
        }
        _ => good_value(w, ty, d, depth, st),
    }
}

pub const HOSTILE: &[&str] = &[
    "e", "i", "x", "len", "errors", "default", "skip", "map", "with", "multiple", "flatten", "rename", "ident_", "item", "items", "lit",
    "value", "input", "r#type", "r#fn", "r#match", "attr", "attrs_", "data_", "field", "name", "path", "err", "result", "val", "r#mod", "body", "meta", "inner", "nested",
    // names that are magic for some trait (where they are magic for the receiver's own trait an underscore is appended)
    "ident", "attrs", "vis", "ty", "data", "generics", "bounds", "discriminant", "fields",
];

/// Replace field names by names that collide with darling's option words, with plausible locals of
/// generated code, or that are raw identifiers (C20 only: nothing is run, so flatten chains need no
/// global uniqueness - only distinct names inside one receiver).
pub fn hostile_rename(specs: &mut [Spec], d: &mut D) {
    for s in specs.iter_mut() {
        // names that are magic for the receiver's trait keep their special meaning: not "ordinary" names
        let magic: &[&str] = match s.tr {
            Trait::FromMeta => &[],
            Trait::FromDeriveInput => &["ident", "attrs", "vis", "generics", "data"],
            Trait::FromField => &["ident", "attrs", "vis", "ty"],
            Trait::FromVariant => &["ident", "attrs", "discriminant", "fields"],
            Trait::FromTypeParam => &["ident", "attrs", "bounds", "default"],
            Trait::FromAttributes => &["ident", "attrs"],
        };
        let rename_fields = |fs: &mut Vec<Field>, d: &mut D| {
            // (a new name must differ from every other field's name - those renamed before it and those, further down,
            // that keep the name they have)
            let mut used: Vec<String> = vec![];
            for k in 0..fs.len() {
                if d.ratio(2, 3) {
                    let mut n = d.pick(HOSTILE).to_string();
                    if magic.contains(&n.as_str()) {
                        n = format!("{}_", n);
                    }
                    if used.contains(&n) || fs[k + 1..].iter().any(|g| g.rust_name == n) {
                        n = format!("{}_{}", n.trim_start_matches("r#"), used.len());
                    }
                    fs[k].rust_name = n;
                }
                used.push(fs[k].rust_name.clone());
            }
        };
        match &mut s.body {
            Body::Struct(fs) => rename_fields(fs, d),
            Body::Enum(vs) => {
                for v in vs.iter_mut() {
                    if let VShape::Struct(fs) = &mut v.shape {
                        rename_fields(fs, d);
                    }
                }
            }
        }
    }
}
