//! Grammar of `DeriveInput` source text for the derive-time totality check (C06) and the libFuzzer
//! target `derive_total`: every data shape, generics, and `#[darling ...]` attributes whose bodies
//! range from well-formed option lists to arbitrary token trees.

use crate::dec::D;

#[derive(Default, Debug, Clone)]
pub struct Stats {
    pub malformed_body: bool, // some darling attribute body is not a well-formed option list
    pub non_named_shape: bool,
    pub invalid_options: usize,
    pub darling_attrs: usize,
    pub shape: String,
}

const TYPES: &[&str] = &[
    "u8", "String", "bool", "Option<String>", "Vec<u8>", "syn::Ident", "T", "Vec<T>",
    "darling::util::Flag", "Vec<syn::Attribute>", "darling::ast::Data<(), ()>", "syn::Visibility",
    "syn::Type", "syn::Generics", "Option<syn::Expr>", "&'a str", "[u8; 4]", "(u8, T)",
    "std::collections::HashMap<String, U>", "Box<dyn Fn(T) -> U>",
    // array lengths and other embedded expressions that are more than a literal or a path
    "[u8; 4 * 2]", "[T; N + 1]", "Option<[u8; { 4 }]>", "[u8; LEN as usize]", "Vec<[T; size_of::<u64>()]>", "[[u8; 2]; (1 + 1)]", "Foo<{ N + 1 }>",
    "::core::marker::PhantomData<T>", "PhantomData<(T, U)>", "fn(T) -> [U; 3]", "*const T", "&'a mut [T]", "dyn Tr<T> + 'a", "impl Tr<T>", "(T,)", "!", "_", "m!(T)",
];
const FIELD_NAMES: &[&str] = &[
    "a", "b", "c", "lorem", "ipsum", "ident", "attrs", "vis", "ty", "data", "generics", "bounds",
    "default", "discriminant", "fields", "r#type", "skip", "e",
    // identifiers on which case rules have little or nothing to work with
    "__", "_x", "x_", "\u{e9}t\u{e9}", "X", "a1", "\u{3b1}\u{3b2}",
];
const VARIANT_NAMES: &[&str] = &["A", "B", "Cee", "Dee", "UnitOne", "Struct", "New", "r#type", "r#Second", "r#fn", "HTTPServer", "snake_like", "\u{c9}t\u{e9}", "\u{e9}", "__", "X1"];
const PATHS: &[&str] = &[
    "f", "Self::new", "Default::default", "my::module::func", "::std::default::Default::default",
    "make::<u8>", "Conv<u8>::go", "Vec<String>", "<T as Tr>::f", "a::<b>::c", "crate::f", "r#fn", "Self",
];
const RULES: &[&str] = &[
    "snake_case", "camelCase", "PascalCase", "SCREAMING_SNAKE_CASE", "kebab-case", "lowercase",
    "UPPERCASE", "nonsense", "",
];
const SHAPE_WORDS: &[&str] = &[
    "any", "struct_any", "struct_named", "struct_newtype", "struct_tuple", "struct_unit",
    "enum_any", "enum_named", "enum_newtype", "enum_tuple", "enum_unit", "named", "newtype",
    "tuple", "unit", "struct_struct_named", "enum_enum_unit", "bogus", "struct_", "enum_",
];
const ATTR_NAMES: &[&str] = &["foo", "bar", "a::b", "darling", "r#type", "::x"];
const PUNCTS: &[&str] = &[",", ";", "=", "#", "@", "::", "->", "!", ".", "+", "-", "&", "|", "?", "$", "'a", ":", "=>", ".."];
const LITS: &[&str] = &[
    "1", "0", "\"s\"", "\"\"", "true", "false", "'c'", "1.5", "b\"x\"", "b'x'", "-1", "0xff",
    "340282366920938463463374607431768211456", "r#\"raw\"#", "c\"cs\"", "1u8", "1e400",
];

#[derive(Clone, Copy, PartialEq, Eq, Debug)]
pub enum Pos {
    Container,
    Field,
    Variant,
}

fn path(d: &mut D) -> String {
    d.pick(PATHS).to_string()
}

fn closure(d: &mut D) -> String {
    d.pick(&["|| Default::default()", "|m| Ok(Default::default())", "|| None", "|x| x", "move || 1", "|a, b| a"])
        .to_string()
}

/// a value of the wrong kind for most options
fn bad_value(d: &mut D) -> String {
    match d.below(8) {
        0 => format!("= {}", d.pick(LITS)),
        1 => "(a, b)".to_string(),
        2 => "()".to_string(),
        3 => "= a + b".to_string(),
        4 => "(1, \"x\")".to_string(),
        5 => "= \"not a path!\"".to_string(),
        6 => format!("= {}", closure(d)),
        _ => String::new(),
    }
}

/// One option for the given position. Returns (text, is_valid_in_isolation).
pub fn option(d: &mut D, pos: Pos) -> (String, bool) {
    let container: &[&str] = &[
        "default", "rename_all", "map", "and_then", "bound", "allow_unknown_fields", "from_word",
        "from_none", "attributes", "forward_attrs", "from_ident", "supports",
    ];
    let field: &[&str] = &[
        "rename", "default", "with", "skip", "map", "and_then", "multiple", "flatten",
    ];
    let variant: &[&str] = &["rename", "skip", "word"];
    // mostly the vocabulary of the position, sometimes another position's or an unknown word
    let name = match d.below(12) {
        0 => d.pick(&["bogus", "defualt", "Rename", "r#default", "a::b", "::skip", "self", "crate::x"]).to_string(),
        1 => d.pick(container).to_string(),
        2 => d.pick(field).to_string(),
        3 => d.pick(variant).to_string(),
        _ => match pos {
            Pos::Container => d.pick(container).to_string(),
            Pos::Field => d.pick(field).to_string(),
            Pos::Variant => d.pick(variant).to_string(),
        },
    };
    // an option key is a path: the same word with a leading `::` (or behind a module) is another, unknown key
    if d.ratio(1, 12) {
        let v = if d.bool() { bad_value(d) } else { String::new() };
        let key = if d.ratio(2, 3) { format!("::{}", name) } else { format!("m::{}", name) };
        return (format!("{} {}", key, v), false);
    }
    if d.ratio(1, 7) {
        let v = bad_value(d);
        return (format!("{} {}", name, v), false);
    }
    let text = match name.as_str() {
        "default" => match d.below(4) {
            0 => "default".to_string(),
            1 => format!("default = \"{}\"", path(d)),
            2 => format!("default = {}", path(d)),
            _ => "default()".to_string(),
        },
        "rename_all" => format!("rename_all = \"{}\"", d.pick(RULES)),
        "map" | "and_then" => {
            if d.bool() {
                format!("{} = \"{}\"", name, path(d))
            } else {
                format!("{} = {}", name, path(d))
            }
        }
        "bound" => format!("bound = \"{}\"", d.pick(&["T: Clone", "T: Clone, U: Copy", "", "not a bound ::", "'a: 'b"])),
        "allow_unknown_fields" | "skip" | "multiple" | "word" => match d.below(4) {
            0 => name.clone(),
            1 => format!("{} = true", name),
            2 => format!("{} = false", name),
            _ => format!("{} = \"true\"", name),
        },
        "flatten" | "from_ident" => match d.below(5) {
            0 => format!("{} = true", name),
            _ => name.clone(),
        },
        "from_word" | "from_none" | "with" => match d.below(3) {
            0 => format!("{} = {}", name, path(d)),
            1 => format!("{} = \"{}\"", name, path(d)),
            _ => format!("{} = {}", name, closure(d)),
        },
        "attributes" | "forward_attrs" => {
            if name == "forward_attrs" && d.ratio(1, 3) {
                "forward_attrs".to_string()
            } else {
                let n = d.below(4);
                let xs: Vec<String> = (0..n).map(|_| if d.ratio(1, 5) { odd_list_item(d) } else { d.pick(ATTR_NAMES).to_string() }).collect();
                format!("{}({})", name, xs.join(", "))
            }
        }
        "supports" => {
            let n = d.below(5);
            let xs: Vec<String> = (0..n).map(|_| if d.ratio(1, 5) { odd_list_item(d) } else { d.pick(SHAPE_WORDS).to_string() }).collect();
            format!("supports({})", xs.join(", "))
        }
        "rename" => format!("rename = \"{}\"", d.pick(&["x", "other_name", "a::b", "kebab-name", "", "type"])),
        other => other.to_string(),
    };
    (text, true)
}

/// An item of a word-list option (`supports`, `attributes`, `forward_attrs`) that is not a plain word.
fn odd_list_item(d: &mut D) -> String {
    d.pick(&[
        "a::b", "::named", "unit::extra", "named::", "\"lit\"", "1", "true", "x = 1", "named = \"x\"", "y(z)", "struct_named(inner)", "r#type", "r#named", "self", "crate::q",
        "enum_any::x", "::darling", "'c'", "-1", "tuple()", "newtype = true",
    ])
    .to_string()
}

fn token_soup(d: &mut D, depth: usize) -> String {
    let n = d.below(6);
    let mut out = vec![];
    for _ in 0..n {
        out.push(match d.below(if depth < 3 { 6 } else { 4 }) {
            0 => d.pick(FIELD_NAMES).to_string(),
            1 => d.pick(PUNCTS).to_string(),
            2 => d.pick(LITS).to_string(),
            3 => d.pick(&["default", "skip", "flatten", "multiple", "rename", "word", "map"]).to_string(),
            4 => {
                let inner = token_soup(d, depth + 1);
                match d.below(3) {
                    0 => format!("({})", inner),
                    1 => format!("[{}]", inner),
                    _ => format!("{{{}}}", inner),
                }
            }
            _ => format!("{} = {}", d.pick(FIELD_NAMES), d.pick(LITS)),
        });
    }
    out.join(" ")
}

/// The body that follows `#[darling`: "(..)" most of the time.
pub fn darling_attr(d: &mut D, pos: Pos, st: &mut Stats) -> String {
    st.darling_attrs += 1;
    match d.weighted(&[14, 1, 1, 1, 3, 1, 1]) {
        0 => {
            // an option list, possibly with mutations
            let n = d.below(5);
            let mut items = vec![];
            for _ in 0..n {
                if d.ratio(1, 12) {
                    items.push(d.pick(LITS).to_string());
                    st.malformed_body = true;
                } else {
                    let (t, ok) = option(d, pos);
                    if !ok {
                        st.invalid_options += 1;
                    }
                    items.push(t);
                }
            }
            let mut body = String::new();
            for (i, it) in items.iter().enumerate() {
                if i > 0 {
                    // separator: usually a comma
                    match d.below(24) {
                        1 => {
                            body.push(' ');
                            st.malformed_body = true;
                        }
                        2 => {
                            body.push_str(",, ");
                            st.malformed_body = true;
                        }
                        3 => {
                            body.push_str("; ");
                            st.malformed_body = true;
                        }
                        _ => body.push_str(", "),
                    }
                }
                body.push_str(it);
            }
            if d.ratio(1, 6) {
                body.push(',');
                if n == 0 {
                    st.malformed_body = true;
                }
            }
            format!("#[darling({})]", body)
        }
        1 => {
            st.malformed_body = true;
            "#[darling]".to_string()
        }
        2 => {
            st.malformed_body = true;
            format!("#[darling = {}]", d.pick(LITS))
        }
        3 => {
            st.malformed_body = true;
            format!("#[darling({})]", d.pick(LITS))
        }
        4 => {
            st.malformed_body = true;
            let s = token_soup(d, 0);
            match d.below(3) {
                0 => format!("#[darling({})]", s),
                1 => format!("#[darling[{}]]", s),
                _ => format!("#[darling{{{}}}]", s),
            }
        }
        5 => {
            st.malformed_body = true;
            format!("#[darling::{}({})]", d.pick(&["x", "darling"]), token_soup(d, 1))
        }
        _ => {
            st.malformed_body = true;
            "#[darling()]".to_string()
        }
    }
}

fn other_attr(d: &mut D) -> String {
    d.pick(&[
        "#[doc = \"hi\"]",
        "/// doc comment",
        "#[cfg(test)]",
        "#[derive(Debug)]",
        "#[foo(a b ; c)]",
        "#[serde(rename = \"x\")]",
        "#[allow(dead_code)]",
        "#[foo::bar]",
    ])
    .to_string()
}

fn attrs(d: &mut D, pos: Pos, st: &mut Stats, p_darling: usize) -> String {
    let mut out = String::new();
    let n = d.weighted(&[6, 8, 3, 1]);
    for _ in 0..n {
        if d.below(10) < p_darling {
            out.push_str(&darling_attr(d, pos, st));
        } else {
            out.push_str(&other_attr(d));
        }
        out.push('\n');
    }
    out
}

fn generics(d: &mut D) -> (String, String) {
    match d.below(8) {
        0 | 1 | 2 | 3 => (String::new(), String::new()),
        4 => ("<T>".into(), String::new()),
        5 => ("<'a, T: Clone, U = u8>".into(), " where U: Default".into()),
        6 => ("<'a, 'b: 'a, T, const N: usize>".into(), " where T: 'a".into()),
        _ => ("<T: ?Sized, U>".into(), String::new()),
    }
}

fn vis(d: &mut D) -> &'static str {
    *d.pick(&["", "pub ", "pub(crate) ", "pub(in crate::x) "])
}

fn named_fields(d: &mut D, st: &mut Stats) -> String {
    let n = d.below(5);
    let mut used = vec![];
    let mut out = String::new();
    for _ in 0..n {
        let mut name = d.pick(FIELD_NAMES).to_string();
        if used.contains(&name) {
            name = format!("f{}", used.len());
        }
        used.push(name.clone());
        out.push_str(&attrs(d, Pos::Field, st, 7));
        out.push_str(&format!("{}{}: {},\n", vis(d), name, d.pick(TYPES)));
    }
    out
}

fn tuple_fields(d: &mut D, st: &mut Stats) -> String {
    let n = d.weighted(&[1, 4, 3, 1, 1]);
    let mut out = vec![];
    for _ in 0..n {
        out.push(format!("{}{}{}", attrs(d, Pos::Field, st, 7), vis(d), d.pick(TYPES)));
    }
    out.join(", ")
}

/// A `DeriveInput` as source text.
pub fn derive_input(d: &mut D) -> (String, Stats) {
    let mut st = Stats::default();
    let mut s = String::new();
    if d.ratio(1, 30) {
        // names a case rule has nothing to work with (only underscores, a non-ASCII first letter), every one of
        // them behind an explicit `rename`: the rule is never needed for them
        let rule = *d.pick(&["camelCase", "PascalCase", "snake_case", "SCREAMING_SNAKE_CASE", "kebab-case", "lowercase", "UPPERCASE"]);
        let awkward: &[&str] = &["__", "____", "\u{e9}t\u{e9}", "_\u{f1}", "\u{3b1}\u{3b2}", "___x"];
        let n = d.range(1, 3);
        let mut used: Vec<&str> = vec![];
        let mut fields = String::new();
        for k in 0..n {
            let nm = *d.pick(awkward);
            if used.contains(&nm) {
                continue;
            }
            used.push(nm);
            let extra = *d.pick(&["", ", default", ", multiple", ", skip"]);
            fields.push_str(&format!("#[darling(rename = \"n{}\"{})] {}: {},\n", k, extra, nm, if extra == ", multiple" { "Vec<u8>" } else { "u8" }));
        }
        if d.bool() {
            fields.push_str("plain_one: String,\n");
        }
        st.shape = "shielded-awkward-names".into();
        if d.ratio(2, 3) {
            s.push_str(&format!("#[darling(rename_all = \"{}\")]\nstruct Rcv {{\n{}}}", rule, fields));
        } else {
            st.non_named_shape = true;
            let vname = *d.pick(&["V", "\u{c9}t\u{e9}", "__"]);
            s.push_str(&format!("#[darling(rename_all = \"{}\")]\nenum Rcv {{ A, #[darling(rename = \"v\")] {} {{\n{}}} }}", rule, vname, fields));
        }
        return (s, st);
    }
    if d.ratio(1, 40) {
        // every place a user callable can be named - the converters of the pass-through fields included - with
        // paths in every spelling a quoted path admits (type-style generic arguments, qualified self, raw segments)
        let mut body = String::new();
        let mut callable = |d: &mut D| -> String {
            let p = *d.pick(&["f", "m::f", "Conv<u8>::go", "Vec<String>", "Conv::<u8>::go", "<T as Tr>::f", "a::<b>::c", "r#fn", "::m::f", "Self::f"]);
            if d.ratio(2, 3) { format!("\"{}\"", p) } else { p.to_string() }
        };
        for (name, ty) in [("data", "darling::ast::Data<(), ()>"), ("attrs", "Vec<syn::Attribute>"), ("fields", "darling::ast::Fields<()>"), ("ident", "syn::Ident"), ("generics", "syn::Generics")] {
            if d.bool() {
                let opt = if d.ratio(3, 4) { format!("#[darling(with = {})] ", callable(d)) } else { String::new() };
                body.push_str(&format!("{}{}: {},\n", opt, name, ty));
            }
        }
        for k in 0..d.below(3) {
            let opt = *d.pick(&["with", "map", "and_then", "default"]);
            body.push_str(&format!("#[darling({} = {})] o{}: u8,\n", opt, callable(d), k));
        }
        let copt = match d.below(4) {
            0 => format!(", map = {}", callable(d)),
            1 => format!(", and_then = {}", callable(d)),
            2 => format!(", default = {}", callable(d)),
            _ => String::new(),
        };
        st.shape = "callables-everywhere".into();
        s.push_str(&format!("#[darling(attributes(my), forward_attrs{})]\nstruct Rcv {{\n{}}}", copt, body));
        return (s, st);
    }
    s.push_str(&attrs(d, Pos::Container, &mut st, 8));
    s.push_str(vis(d));
    let (g, w) = generics(d);
    match d.weighted(&[5, 1, 2, 2, 5, 1]) {
        0 => {
            st.shape = "struct_named".into();
            s.push_str(&format!("struct Rcv{}{} {{\n{}}}", g, w, named_fields(d, &mut st)));
        }
        1 => {
            st.shape = "struct_unit".into();
            st.non_named_shape = true;
            s.push_str(&format!("struct Rcv{}{};", g, w));
        }
        2 => {
            let f = tuple_fields(d, &mut st);
            st.shape = "struct_tuple".into();
            st.non_named_shape = true;
            s.push_str(&format!("struct Rcv{}({}){};", g, f, w));
        }
        3 => {
            // an explicit newtype
            st.shape = "struct_newtype".into();
            st.non_named_shape = true;
            s.push_str(&format!("struct Rcv{}({}{}){};", g, attrs(d, Pos::Field, &mut st, 5), d.pick(TYPES), w));
        }
        4 => {
            st.shape = "enum".into();
            st.non_named_shape = true;
            let n = d.below(6);
            let mut body = String::new();
            let mut used = vec![];
            for _ in 0..n {
                let mut name = d.pick(VARIANT_NAMES).to_string();
                if used.contains(&name) {
                    name = format!("V{}", used.len());
                }
                used.push(name.clone());
                body.push_str(&attrs(d, Pos::Variant, &mut st, 7));
                match d.weighted(&[4, 3, 2, 2]) {
                    0 => body.push_str(&name),
                    1 => body.push_str(&format!("{}({}{})", name, attrs(d, Pos::Field, &mut st, 4), d.pick(TYPES))),
                    2 => body.push_str(&format!("{}({})", name, tuple_fields(d, &mut st))),
                    _ => body.push_str(&format!("{} {{\n{}}}", name, named_fields(d, &mut st))),
                }
                if d.ratio(1, 6) {
                    body.push_str(" = 3");
                }
                body.push_str(",\n");
            }
            s.push_str(&format!("enum Rcv{}{} {{\n{}}}", g, w, body));
        }
        _ => {
            st.shape = "union".into();
            st.non_named_shape = true;
            s.push_str(&format!("union Rcv{}{} {{\n{}}}", g, w, named_fields(d, &mut st)));
        }
    }
    (s, st)
}

// ------------------------------------------------------------------------------------------
// arbitrary (not necessarily accepted) meta items and attribute lists for the run-time totality check

const BIG: &[&str] = &[
    "340282366920938463463374607431768211455", "340282366920938463463374607431768211456",
    "999999999999999999999999999999999999999999999999999999999999", "-170141183460469231731687303715884105729",
    "0xffffffffffffffffffffffffffffffffffffffff", "1e999999", "1e-999999", "0.000000000000000000000000000000000000000000000000001",
    "18446744073709551616", "-9223372036854775809", "0b1111111111111111111111111111111111111111111111111111111111111111111", "1_000_000u8",
];
const VALS: &[&str] = &[
    "1", "0", "255", "256", "-1", "\"s\"", "\"\"", "\"5\"", "\"-5\"", "\"true\"", "true", "false", "'c'", "'\\u{10FFFF}'", "1.5", "b\"x\"", "b'x'", "c\"z\"",
    "x", "a::b", "::a", "x + 1", "[1, 2]", "[]", "(1, 2)", "|a| a", "f(1)", "\"a::b\"", "\"x +\"", "\"[1, 2\"", "r#\"raw\"#", "\"\\u{0}\"", "..", "1..2",
    // strings that start like a number in another radix or notation but are not one; raw strings holding numbers
    "\"0x\"", "\"0xZZ\"", "\"0o8\"", "\"-0b12\"", "\"0b\"", "\"1e\"", "\"0x_\"", "\"0x 1\"", "\"+\"", "\"-\"", "\"1_\"", "\"0x10\"", "r#\"25\"#", "r\"25\"", "r##\"1.5e3\"##",
    "&x", "!x", "-x", "x?", "if a { 1 } else { 2 }", "{ }", "m!()", "S { a: 1 }", "<T as U>::V",
    // every remaining expression kind (each has its own name in "unexpected expression type" errors)
    "async { 1 }", "x.await", "break", "break 'l 1", "const { 1 }", "continue", "for a in b { }", "let a = b", "loop { }", "return x", "unsafe { 1 }",
    "while a { }", "yield x", "x as u8", "x = 1", "x += 1", "x[0]", "x.f", "x.m()", "match x { _ => 1 }", "[x; 2]", "&raw const x", "'l: loop { }", "x..=y", "..",
    "move || 1", "static || 1", "(x)", "(x,)", "-1", "- 1", "-1.5", "1u8", "1_u128", "b'\\n'", "c\"x\"", "\"where\"", "\"T: Clone\"", "\"pub(crate)\"", "\"fn(u8) -> u8\"",
];

pub fn arb_value(d: &mut D) -> String {
    match d.below(9) {
        0 => d.pick(BIG).to_string(),
        1 => format!("\"{}\"", d.pick(BIG)),
        // long strings of multi-byte characters at every alignment: whatever quotes part of a value in a
        // message must cut it at a character boundary
        8 => {
            let unit = *d.pick(&["\u{e9}", "\u{2192}", "\u{1F600}", "a\u{e9}", "x y \u{2192} "]);
            format!("\"{}{}\"", "a".repeat(d.below(5)), unit.repeat(d.range(1, 160)))
        }
        _ => d.pick(VALS).to_string(),
    }
}

/// One meta item named by one of `names` (or a random name), of arbitrary form.
pub fn arb_item(d: &mut D, names: &[String], depth: usize) -> String {
    let name = if !names.is_empty() && d.ratio(3, 4) {
        d.pick(names).clone()
    } else {
        d.pick(&["zz", "a::b", "::c", "r#type", "self", "crate::x", "default", "skip"]).to_string()
    };
    match d.weighted(&[3, 6, if depth < 5 { 5 } else { 0 }, 1]) {
        0 => name,
        1 => format!("{} = {}", name, arb_value(d)),
        2 => {
            let n = d.below(4);
            let mut items = vec![];
            for _ in 0..n {
                if d.ratio(1, 5) {
                    items.push(arb_value(d));
                } else {
                    items.push(arb_item(d, names, depth + 1));
                }
            }
            // nested bodies are usually well-formed lists, sometimes not meta syntax at all
            if d.ratio(1, 10) {
                items.push(token_soup(d, 1));
            }
            // ... or end too early (the parser runs out of input inside the list: its error has no token to point at)
            let truncated = d.ratio(1, 8);
            if truncated {
                items.push(d.pick(&["x =", "x = 1 +", "default =", "x = -", "a::", "x = !", "x = y ."]).to_string());
            }
            let sep = match d.below(12) {
                0 => " ",
                1 => ",, ",
                2 => "; ",
                _ => ", ",
            };
            let (o, c) = *d.pick(&[("(", ")"), ("(", ")"), ("[", "]"), ("{", "}")]);
            format!("{}{}{}{}{}", name, o, items.join(sep), if !truncated && d.ratio(1, 6) { "," } else { "" }, c)
        }
        _ => {
            // deep nesting
            let k = d.range(8, 64);
            let mut s = String::new();
            for _ in 0..k {
                s.push_str(&format!("{}(", name));
            }
            s.push_str("x = 1");
            for _ in 0..k {
                s.push(')');
            }
            s
        }
    }
}

/// The body of an attribute the receiver reads: a well-formed list, or something else entirely.
pub fn arb_attr(d: &mut D, attr: &str, names: &[String]) -> String {
    match d.weighted(&[12, 1, 1, 1, 3]) {
        0 => {
            let n = d.below(5);
            let mut items = vec![];
            for _ in 0..n {
                if d.ratio(1, 10) {
                    items.push(arb_value(d));
                } else {
                    items.push(arb_item(d, names, 0));
                }
            }
            let sep = if d.ratio(1, 12) { " " } else { ", " };
            format!("#[{}({})]", attr, items.join(sep))
        }
        1 => format!("#[{}]", attr),
        2 => format!("#[{} = {}]", attr, arb_value(d)),
        3 => format!("#[{}()]", attr),
        _ => {
            let s = token_soup(d, 0);
            match d.below(3) {
                0 => format!("#[{}({})]", attr, s),
                1 => format!("#[{}[{}]]", attr, s),
                _ => format!("#[{}{{{}}}]", attr, s),
            }
        }
    }
}

fn arb_attrs(d: &mut D, attr_names: &[String], names: &[String]) -> String {
    let mut s = String::new();
    let n = d.weighted(&[3, 6, 3, 1]);
    for _ in 0..n {
        if !attr_names.is_empty() && d.ratio(3, 4) {
            let a = d.pick(attr_names).clone();
            s.push_str(&arb_attr(d, &a, names));
        } else {
            s.push_str(&other_attr(d));
        }
        s.push('\n');
    }
    s
}

/// A syntactically valid item of any shape whose attributes (on the item, its fields, variants and
/// type parameters) are arbitrary.
pub fn arb_element(d: &mut D, attr_names: &[String], names: &[String]) -> (String, Stats) {
    let mut st = Stats::default();
    let mut s = arb_attrs(d, attr_names, names);
    s.push_str(vis(d));
    let ng = d.below(3);
    let mut gens = vec![];
    for i in 0..ng {
        gens.push(format!("{}{}{}", arb_attrs(d, attr_names, names), ["T", "U"][i], *d.pick(&["", ": Clone", ": 'static + Copy = u8"])));
    }
    if d.ratio(1, 4) {
        gens.insert(0, "'a".to_string());
    }
    let g = if gens.is_empty() { String::new() } else { format!("<{}>", gens.join(", ")) };
    let field = |d: &mut D, named: Option<usize>| -> String {
        let a = arb_attrs(d, attr_names, names);
        match named {
            Some(j) => format!("{}{}f{}: {}", a, vis(d), j, d.pick(TYPES)),
            None => format!("{}{}{}", a, vis(d), d.pick(TYPES)),
        }
    };
    match d.weighted(&[5, 1, 3, 5, 1]) {
        0 => {
            st.shape = "struct_named".into();
            let n = d.below(4);
            let fs: Vec<String> = (0..n).map(|j| field(d, Some(j))).collect();
            s.push_str(&format!("struct Foo{} {{\n{}\n}}", g, fs.join(",\n")));
        }
        1 => {
            st.shape = "struct_unit".into();
            s.push_str(&format!("struct Foo{};", g));
        }
        2 => {
            st.shape = "struct_tuple".into();
            let n = d.below(4);
            let fs: Vec<String> = (0..n).map(|_| field(d, None)).collect();
            s.push_str(&format!("struct Foo{}({});", g, fs.join(", ")));
        }
        3 => {
            st.shape = "enum".into();
            let n = d.below(5);
            let mut vs = vec![];
            for i in 0..n {
                let a = arb_attrs(d, attr_names, names);
                let body = match d.below(4) {
                    0 => String::new(),
                    1 => format!("({})", field(d, None)),
                    2 => format!("({}, {})", field(d, None), field(d, None)),
                    _ => {
                        let k = d.below(3);
                        let fs: Vec<String> = (0..k).map(|j| field(d, Some(j))).collect();
                        format!(" {{ {} }}", fs.join(", "))
                    }
                };
                let disc = if d.ratio(1, 6) { " = 1 + 1" } else { "" };
                vs.push(format!("{}V{}{}{}", a, i, body, disc));
            }
            s.push_str(&format!("enum Foo{} {{\n{}\n}}", g, vs.join(",\n")));
        }
        _ => {
            st.shape = "union".into();
            s.push_str(&format!("union Foo{} {{ {}, {} }}", g, field(d, Some(0)), field(d, Some(1))));
        }
    }
    (s, st)
}
