//! Stage B: render receiver specs as the Rust source of a generated crate - the derive items
//! exactly as a user would write them, the tagged library they call, `Observe` glue and a registry.

use crate::model::container_tag_field;
use crate::spec::*;

fn field_attr(f: &Field, id: usize, j: usize, owner: &str) -> String {
    let mut opts: Vec<String> = vec![];
    if let Some(r) = &f.rename {
        opts.push(format!("rename = {:?}", r));
    }
    match f.default {
        Dflt::None => {}
        Dflt::Trait => opts.push("default".into()),
        Dflt::Fn => {
            if (id + j) % 2 == 0 {
                opts.push(format!("default = \"dflt_{}_{}\"", owner, j))
            } else {
                opts.push(format!("default = dflt_{}_{}", owner, j))
            }
        }
    }
    // a boolean option spelled out as `= false` is the same as leaving it out
    let spell = crate::ev::hash64(&(id, j, owner, "spelling"));
    if f.skip {
        opts.push(if (id + j) % 2 == 0 { "skip".into() } else { "skip = true".into() });
    } else if spell % 7 == 0 && !f.flatten {
        opts.push("skip = false".into());
    }
    if f.multiple {
        opts.push(if spell % 3 == 0 { "multiple = true".into() } else { "multiple".into() });
    } else if spell % 7 == 1 && !f.flatten {
        opts.push("multiple = false".into());
    }
    if f.flatten {
        opts.push("flatten".into());
    }
    match f.with {
        Call::None => {}
        Call::Path => opts.push("with = ::vmodel::val::with_fn".into()),
        Call::Closure => opts.push("with = |m| ::vmodel::val::with_fn(m)".into()),
    }
    match f.transform {
        Tr::None => {}
        Tr::Map => opts.push(if (id + j) % 2 == 0 { "map = \"::vmodel::val::map_fn\"".into() } else { "map = ::vmodel::val::map_fn".into() }),
        Tr::AndThen => opts.push("and_then = \"::vmodel::val::and_fn\"".into()),
    }
    if opts.is_empty() {
        return String::new();
    }
    // spelling is part of the input space: one list, or one attribute per option
    if (id + j) % 3 == 0 && opts.len() > 1 {
        opts.iter().map(|o| format!("#[darling({})] ", o)).collect::<Vec<_>>().join("")
    } else {
        format!("#[darling({})] ", opts.join(", "))
    }
}

fn emit_fields(fs: &[Field], id: usize, owner: &str, vis: &str) -> String {
    let mut s = String::new();
    for (j, f) in fs.iter().enumerate() {
        s.push_str(&format!("    {}{}{}: {},\n", field_attr(f, id, j, owner), vis, f.rust_name, f.rust_ty()));
    }
    s
}

fn default_fns(fs: &[Field], owner: &str, base_seed: u32) -> String {
    let mut s = String::new();
    for (j, f) in fs.iter().enumerate() {
        if f.default == Dflt::Fn {
            s.push_str(&format!(
                "#[allow(non_snake_case)] fn dflt_{}_{}() -> {} {{ ::vmodel::val::Marker::marker({}) }}\n",
                owner,
                j,
                f.rust_ty(),
                base_seed + j as u32
            ));
        }
    }
    s
}

fn observe_fields(fs: &[Field], access: &str) -> String {
    fs.iter()
        .map(|f| format!("({:?}.to_string(), ::vmodel::val::Observe::observe(&{}{}))", f.rust_name, access, f.rust_name))
        .collect::<Vec<_>>()
        .join(", ")
}

fn magic_ty(s: &Spec, m: &Magic) -> (String, String) {
    // (attribute prefix, type)
    let recv = |r: Option<usize>, unit: &str, syn_ty: &str| -> String {
        match r {
            None => unit.to_string(),
            Some(usize::MAX) => syn_ty.to_string(),
            Some(id) => format!("R{}", id),
        }
    };
    let syn = "::darling::export::syn";
    match m.name.as_str() {
        "ident" => (String::new(), if s.tr == Trait::FromField { format!("Option<{}::Ident>", syn) } else { format!("{}::Ident", syn) }),
        "vis" => (String::new(), format!("{}::Visibility", syn)),
        "ty" => (String::new(), format!("{}::Type", syn)),
        "bounds" => (String::new(), format!("Vec<{}::TypeParamBound>", syn)),
        "default" => (String::new(), format!("Option<{}::Type>", syn)),
        "discriminant" => (String::new(), format!("Option<{}::Expr>", syn)),
        "generics" => {
            let base = format!("{}::Generics", syn);
            (
                String::new(),
                match m.wrap.as_str() {
                    "ast" => format!("::darling::ast::Generics<::darling::ast::GenericParam<{}>>", recv(m.field_recv, &format!("{}::TypeParam", syn), &format!("{}::TypeParam", syn))),
                    "result" => format!("::darling::Result<{}>", base),
                    "result_ast" => format!("::darling::Result<::darling::ast::Generics<::darling::ast::GenericParam<{}>>>", recv(m.field_recv, &format!("{}::TypeParam", syn), &format!("{}::TypeParam", syn))),
                    "spanned" => format!("::darling::util::SpannedValue<{}>", base),
                    "with_original" => format!("::darling::util::WithOriginal<{}, {}>", base, base),
                    _ => base,
                },
            )
        }
        "attrs" => {
            if m.wrap == "with" {
                ("#[darling(with = ::vmodel::val::attrs_with)] ".into(), "::vmodel::val::CountedAttrs".into())
            } else {
                (String::new(), format!("Vec<{}::Attribute>", syn))
            }
        }
        "data" => {
            if m.wrap == "with" {
                ("#[darling(with = ::vmodel::val::data_with)] ".into(), "::vmodel::val::BodyKind".into())
            } else {
                (String::new(), format!("::darling::ast::Data<{}, {}>", recv(m.variant_recv, "()", &format!("{}::Variant", syn)), recv(m.field_recv, "()", &format!("{}::Field", syn))))
            }
        }
        "fields" => (String::new(), format!("::darling::ast::Fields<{}>", recv(m.field_recv, "()", &format!("{}::Field", syn)))),
        other => panic!("unknown magic field {}", other),
    }
}

fn magic_parts(s: &Spec) -> (String, String) {
    let mut fields = String::new();
    let mut obs = String::new();
    for m in &s.magic {
        let (attr, ty) = magic_ty(s, m);
        fields.push_str(&format!("    {}pub {}: {},\n", attr, m.name, ty));
        obs.push_str(&format!("({:?}.to_string(), ::vmodel::val::Observe::observe(&self.{})), ", m.name, m.name));
    }
    (fields, obs)
}

pub fn emit_spec(s: &Spec, extra_container: &str, magic_fields: &str, magic_observe: &str) -> String {
    let (mf, mo) = magic_parts(s);
    let magic_fields = &format!("{}{}", magic_fields, mf);
    let magic_observe = &format!("{}{}", magic_observe, mo);
    let name = s.name();
    let mut out = String::new();
    let c = &s.container;
    let mut copts: Vec<String> = vec![];
    if let Some(r) = &c.rename_all {
        copts.push(format!("rename_all = {:?}", r));
    }
    match c.default {
        Dflt::None => {}
        Dflt::Trait => copts.push("default".into()),
        Dflt::Fn => copts.push(format!("default = \"{}::cdflt\"", name)),
    }
    match c.transform {
        Tr::None => {}
        Tr::Map => copts.push(format!("map = \"{}::ctr_map\"", name)),
        Tr::AndThen => copts.push(format!("and_then = \"{}::ctr_and\"", name)),
    }
    if c.allow_unknown {
        copts.push(if s.id % 3 == 0 { "allow_unknown_fields = true".into() } else { "allow_unknown_fields".into() });
    } else if s.id % 7 == 3 {
        copts.push("allow_unknown_fields = false".into());
    }
    match c.from_word {
        Call::None => {}
        Call::Path => copts.push(format!("from_word = {}::fw", name)),
        Call::Closure => copts.push("from_word = || ::darling::export::Ok(::vmodel::val::Marker::marker(4000))".into()),
    }
    match c.from_none {
        Call::None => {}
        Call::Path => copts.push(format!("from_none = {}::fnone", name)),
        Call::Closure => copts.push("from_none = || ::darling::export::Some(::vmodel::val::Marker::marker(5000))".into()),
    }
    if !c.attributes.is_empty() {
        copts.push(format!("attributes({})", c.attributes.join(", ")));
    }
    match &c.forward_attrs {
        Fwd::Absent => {}
        Fwd::Bare => copts.push("forward_attrs".into()),
        Fwd::List(l) => copts.push(format!("forward_attrs({})", l.join(", "))),
    }
    if c.from_ident {
        copts.push("from_ident".into());
    }
    if let Some(sup) = &c.supports {
        copts.push(format!("supports({})", sup.join(", ")));
    }
    if !extra_container.is_empty() {
        copts.push(extra_container.to_string());
    }
    out.push_str(&format!("#[derive(Debug, ::darling::{})]\n", s.tr.name()));
    if !copts.is_empty() {
        if s.id % 2 == 0 && copts.len() > 1 {
            let (a, b) = copts.split_at(copts.len() / 2);
            out.push_str(&format!("#[darling({})]\n#[darling({})]\n", a.join(", "), b.join(", ")));
        } else {
            out.push_str(&format!("#[darling({})]\n", copts.join(", ")));
        }
    }
    match &s.body {
        Body::Struct(fs) => {
            if fs.is_empty() && magic_fields.is_empty() && s.id % 3 != 0 && s.tr != Trait::FromMeta {
                // an element-level receiver without fields may be written as a unit struct (for FromMeta a unit struct is another
                // thing: it takes the bare word and nothing else)
                out.push_str(&format!("pub struct {};\n", name));
            } else {
                out.push_str(&format!("pub struct {} {{\n{}{}}}\n", name, magic_fields, emit_fields(fs, s.id, &name, "pub ")));
            }
            out.push_str(&default_fns(fs, &name, 3000));
            // Marker / Default / helper functions (only meaningful without magic fields)
            if s.magic.is_empty() {
                let inits = fs
                    .iter()
                    .enumerate()
                    .map(|(j, f)| format!("{}: ::vmodel::val::Marker::marker(seed.wrapping_mul(31).wrapping_add({}))", f.rust_name, j))
                    .collect::<Vec<_>>()
                    .join(", ");
                out.push_str(&format!(
                    "impl ::vmodel::val::Marker for {n} {{ fn marker(seed: u32) -> Self {{ let _ = seed; {n} {{ {inits} }} }} }}\n",
                    n = name,
                    inits = inits
                ));
                out.push_str(&format!("impl Default for {n} {{ fn default() -> Self {{ ::vmodel::val::Marker::marker(1000) }} }}\n", n = name));
                let mut helpers = format!(
                    "#[allow(dead_code)] impl {n} {{\n  fn cdflt() -> Self {{ ::vmodel::val::Marker::marker(2000) }}\n  fn fw() -> ::darling::Result<Self> {{ Ok(::vmodel::val::Marker::marker(4000)) }}\n  fn fnone() -> Option<Self> {{ Some(::vmodel::val::Marker::marker(5000)) }}\n",
                    n = name
                );
                if let Some(i) = container_tag_field(fs) {
                    let f = &fs[i].rust_name;
                    helpers.push_str(&format!(
                        "  fn ctr_map(mut self) -> Self {{ self.{f} = ::vmodel::val::Tag::map_tag(self.{f}); self }}\n  fn ctr_and(mut self) -> ::darling::Result<Self> {{ self.{f} = ::vmodel::val::Tag::and_tag(self.{f}); Ok(self) }}\n",
                        f = f
                    ));
                }
                helpers.push_str("}\n");
                out.push_str(&helpers);
                if s.container.from_ident {
                    out.push_str(&format!(
                        "impl From<::darling::export::syn::Ident> for {n} {{ fn from(i: ::darling::export::syn::Ident) -> Self {{ ::vmodel::val::Marker::marker(6000 + i.to_string().len() as u32) }} }}\n",
                        n = name
                    ));
                }
            }
            // a receiver with magic fields and a container-level fallback: ordinary fields get marker values
            // as above, magic fields decoys (the input's parts must win)
            if !s.magic.is_empty() && (s.container.default != Dflt::None || s.container.from_ident) {
                let magic_inits: String = s.magic.iter().map(|m| format!("{}: ::vmodel::val::Decoy::decoy(), ", m.name)).collect();
                let inits = fs
                    .iter()
                    .enumerate()
                    .map(|(j, f)| format!("{}: ::vmodel::val::Marker::marker(seed.wrapping_mul(31).wrapping_add({}))", f.rust_name, j))
                    .collect::<Vec<_>>()
                    .join(", ");
                out.push_str(&format!(
                    "#[allow(dead_code)] impl {n} {{ fn mk(seed: u32) -> Self {{ let _ = seed; {n} {{ {mi}{inits} }} }}\n  fn cdflt() -> Self {{ {n}::mk(2000) }} }}\nimpl Default for {n} {{ fn default() -> Self {{ {n}::mk(1000) }} }}\n",
                    n = name,
                    mi = magic_inits,
                    inits = inits
                ));
                if s.container.from_ident {
                    out.push_str(&format!(
                        "impl From<::darling::export::syn::Ident> for {n} {{ fn from(i: ::darling::export::syn::Ident) -> Self {{ {n}::mk(6000 + i.to_string().len() as u32) }} }}\n",
                        n = name
                    ));
                }
            }
            out.push_str(&format!(
                "impl ::vmodel::val::Observe for {n} {{ fn observe(&self) -> ::vmodel::val::Val {{ ::vmodel::val::Val::Struct({n:?}.to_string(), vec![{m}{f}]) }} }}\n",
                n = name,
                m = magic_observe,
                f = observe_fields(fs, "self.")
            ));
        }
        Body::Enum(vs) => {
            out.push_str(&format!("pub enum {} {{\n", name));
            let mut word_false_used = false;
            for (i, v) in vs.iter().enumerate() {
                let mut vo: Vec<String> = vec![];
                if let Some(r) = &v.rename {
                    vo.push(format!("rename = {:?}", r));
                }
                // `= false` spellings must behave like the option being absent
                let spell = crate::ev::hash64(&(s.id, i, "variant-spelling"));
                if v.skip {
                    vo.push(if spell % 3 == 0 { "skip = true".into() } else { "skip".into() });
                } else if spell % 5 == 0 {
                    vo.push("skip = false".into());
                }
                if v.word {
                    vo.push(if spell % 3 == 1 { "word = true".into() } else { "word".into() });
                } else if spell % 3 == 1 && matches!(v.shape, VShape::Unit) && !vs.iter().any(|x| x.word) && c.from_word == Call::None && !word_false_used {
                    // (the derive counts `word = false` as a word when it looks for a second one or for from_word:
                    // at most one per enum, and never next to a real word variant / from_word)
                    word_false_used = true;
                    vo.push("word = false".into());
                }
                let attr = if vo.is_empty() { String::new() } else { format!("#[darling({})] ", vo.join(", ")) };
                match &v.shape {
                    VShape::Unit => out.push_str(&format!("    {}{},\n", attr, v.rust_name)),
                    VShape::Newtype(t) => out.push_str(&format!("    {}{}({}),\n", attr, v.rust_name, t.rust())),
                    VShape::Struct(fs) => out.push_str(&format!("    {}{} {{\n{}    }},\n", attr, v.rust_name, emit_fields(fs, s.id, &format!("{}_v{}", name, i), ""))),
                }
            }
            out.push_str("}\n");
            for (i, v) in vs.iter().enumerate() {
                if let VShape::Struct(fs) = &v.shape {
                    out.push_str(&default_fns(fs, &format!("{}_v{}", name, i), 3000));
                }
            }
            let first_unit = vs.iter().find(|v| matches!(v.shape, VShape::Unit)).expect("unit variant");
            out.push_str(&format!(
                "impl ::vmodel::val::Marker for {n} {{ fn marker(_seed: u32) -> Self {{ {n}::{v} }} }}\nimpl Default for {n} {{ fn default() -> Self {{ ::vmodel::val::Marker::marker(1000) }} }}\n#[allow(dead_code)] impl {n} {{ fn fw() -> ::darling::Result<Self> {{ Ok(::vmodel::val::Marker::marker(4000)) }} fn fnone() -> Option<Self> {{ Some(::vmodel::val::Marker::marker(5000)) }} }}\n",
                n = name,
                v = first_unit.rust_name
            ));
            let mut arms = String::new();
            for v in vs {
                match &v.shape {
                    VShape::Unit => arms.push_str(&format!("{n}::{v} => ::vmodel::val::Val::Variant({n:?}.to_string(), {v:?}.to_string(), vec![]),\n", n = name, v = v.rust_name)),
                    VShape::Newtype(_) => arms.push_str(&format!(
                        "{n}::{v}(x) => ::vmodel::val::Val::Variant({n:?}.to_string(), {v:?}.to_string(), vec![(\"0\".to_string(), ::vmodel::val::Observe::observe(x))]),\n",
                        n = name,
                        v = v.rust_name
                    )),
                    VShape::Struct(fs) => {
                        let binds = fs.iter().map(|f| f.rust_name.clone()).collect::<Vec<_>>().join(", ");
                        let obs = fs
                            .iter()
                            .map(|f| format!("({:?}.to_string(), ::vmodel::val::Observe::observe({}))", f.rust_name, f.rust_name))
                            .collect::<Vec<_>>()
                            .join(", ");
                        arms.push_str(&format!(
                            "{n}::{v} {{ {b} }} => ::vmodel::val::Val::Variant({n:?}.to_string(), {v:?}.to_string(), vec![{o}]),\n",
                            n = name,
                            v = v.rust_name,
                            b = binds,
                            o = obs
                        ));
                    }
                }
            }
            out.push_str(&format!(
                "impl ::vmodel::val::Observe for {n} {{ fn observe(&self) -> ::vmodel::val::Val {{ match self {{\n{a} }} }} }}\n",
                n = name,
                a = arms
            ));
        }
    }
    out
}

/// Registry glue: how the harness calls the receiver.
pub fn emit_entry(s: &Spec) -> String {
    let n = s.name();
    let (pat, call) = match s.tr {
        Trait::FromMeta => ("::vl3::In::Meta(x)", format!("<{} as ::darling::FromMeta>::from_meta(x)", n)),
        Trait::FromDeriveInput => ("::vl3::In::DeriveInput(x)", format!("<{} as ::darling::FromDeriveInput>::from_derive_input(x)", n)),
        Trait::FromField => ("::vl3::In::Field(x)", format!("<{} as ::darling::FromField>::from_field(x)", n)),
        Trait::FromVariant => ("::vl3::In::Variant(x)", format!("<{} as ::darling::FromVariant>::from_variant(x)", n)),
        Trait::FromTypeParam => ("::vl3::In::TypeParam(x)", format!("<{} as ::darling::FromTypeParam>::from_type_param(x)", n)),
        Trait::FromAttributes => ("::vl3::In::Attrs(x)", format!("<{} as ::darling::FromAttributes>::from_attributes(x)", n)),
    };
    let none = if s.tr == Trait::FromMeta {
        format!("<{} as ::darling::FromMeta>::from_none().map(|v| ::vmodel::val::Observe::observe(&v))", n)
    } else {
        "None".to_string()
    };
    // structural comparison of the plain magic fields with the input's parts
    let mut conds: Vec<String> = vec![];
    for m in &s.magic {
        if m.wrap != "plain" {
            continue;
        }
        let c = match (s.tr, m.name.as_str()) {
            (Trait::FromDeriveInput, "ident") | (Trait::FromVariant, "ident") | (Trait::FromTypeParam, "ident") => "v.ident == x.ident".to_string(),
            (Trait::FromField, "ident") => "v.ident == x.ident".to_string(),
            (Trait::FromDeriveInput, "vis") | (Trait::FromField, "vis") => "v.vis == x.vis".to_string(),
            (Trait::FromDeriveInput, "generics") => "v.generics == x.generics".to_string(),
            (Trait::FromField, "ty") => "v.ty == x.ty".to_string(),
            (Trait::FromVariant, "discriminant") => "v.discriminant == x.discriminant.as_ref().map(|d| d.1.clone())".to_string(),
            (Trait::FromTypeParam, "bounds") => "v.bounds == x.bounds.iter().cloned().collect::<Vec<_>>()".to_string(),
            (Trait::FromTypeParam, "default") => "v.default == x.default".to_string(),
            _ => continue,
        };
        conds.push(format!("if !({}) {{ bad.push({:?}); }}", c, m.name));
    }
    let exact = if conds.is_empty() || s.tr == Trait::FromMeta || s.tr == Trait::FromAttributes {
        "None".to_string()
    } else {
        format!("match i {{ {pat} => match {call} {{ Ok(v) => {{ let mut bad: Vec<&'static str> = vec![]; {conds} Some(bad) }}, Err(_) => None }}, _ => None }}", pat = pat, call = call, conds = conds.join(" "))
    };
    let nw = emit_newtype(s, pat);
    format!(
        "{nw}fn call_{id}(i: &::vl3::In) -> Option<::darling::Result<::vmodel::val::Val>> {{ match i {{ {pat} => Some({call}.map(|v| ::vmodel::val::Observe::observe(&v))), _ => None }} }}\nfn none_{id}() -> Option<::vmodel::val::Val> {{ {none} }}\nfn exact_{id}(i: &::vl3::In) -> Option<Vec<&'static str>> {{ {exact} }}\n",
        nw = nw,
        id = s.id,
        pat = pat,
        call = call,
        none = none,
        exact = exact
    )
}

/// 0 = no wrapper, 1 = map, 2 = and_then accepting, 3 = and_then refusing
pub fn newtype_mode(s: &Spec) -> u8 {
    match s.tr {
        Trait::FromMeta | Trait::FromDeriveInput | Trait::FromAttributes => 1 + (s.id % 3) as u8,
        _ => 0,
    }
}

/// A newtype wrapper around the receiver deriving the same trait, with a container-level transform (and, for
/// FromMeta, a `from_none`) that counts its calls; the derive delegates to the wrapped receiver.
fn emit_newtype(s: &Spec, pat: &str) -> String {
    let id = s.id;
    let mode = newtype_mode(s);
    if mode == 0 {
        return format!("fn nw_{id}(_i: &::vl3::In) -> Option<::darling::Result<::vmodel::val::Val>> {{ None }}\nfn nwnone_{id}() -> bool {{ true }}\n", id = id);
    }
    let (opt, sig, body) = match mode {
        1 => ("map", "Self", "v"),
        2 => ("and_then", "::darling::Result<Self>", "::darling::export::Ok(v)"),
        _ => ("and_then", "::darling::Result<Self>", "{ let _ = v; ::darling::export::Err(::darling::Error::custom(\"nw refuses\")) }"),
    };
    let (call, fnone, none_fn) = match s.tr {
        Trait::FromMeta => (
            format!("<NW{} as ::darling::FromMeta>::from_meta(x)", id),
            format!(", from_none = NW{}::nn", id),
            format!("<NW{} as ::darling::FromMeta>::from_none().is_none()", id),
        ),
        Trait::FromDeriveInput => (format!("<NW{} as ::darling::FromDeriveInput>::from_derive_input(x)", id), String::new(), "true".to_string()),
        _ => (format!("<NW{} as ::darling::FromAttributes>::from_attributes(x)", id), String::new(), "true".to_string()),
    };
    format!(
        "#[derive(::darling::{tr})]\n#[darling({opt} = \"NW{id}::tr\"{fnone})]\npub struct NW{id}(pub R{id});\nimpl NW{id} {{\n    fn tr(v: Self) -> {sig} {{ ::vl3::nw_hit(); {body} }}\n    fn nn() -> ::core::option::Option<Self> {{ ::vl3::nw_hit(); ::core::option::Option::None }}\n}}\nfn nw_{id}(i: &::vl3::In) -> Option<::darling::Result<::vmodel::val::Val>> {{ match i {{ {pat} => Some({call}.map(|v| ::vmodel::val::Observe::observe(&v.0))), _ => None }} }}\nfn nwnone_{id}() -> bool {{ {none_fn} }}\n",
        tr = s.tr.name(), opt = opt, id = id, fnone = fnone, sig = sig, body = body, pat = pat, call = call, none_fn = none_fn
    )
}

pub fn emit_registry(specs: &[Spec]) -> String {
    let mut s = String::from("pub fn registry() -> Vec<::vl3::Entry> { vec![\n");
    for sp in specs {
        s.push_str(&format!("    ::vl3::Entry {{ id: {id}, call: call_{id}, from_none: none_{id}, exact: exact_{id}, newtype: nw_{id}, newtype_mode: {m}, newtype_none: nwnone_{id} }},\n", id = sp.id, m = newtype_mode(sp)));
    }
    s.push_str("] }\n");
    s
}

pub fn emit_crate_source(specs: &[Spec]) -> String {
    let mut s = String::from("// @generated by vgen\n#![allow(dead_code, unused_variables, non_camel_case_types, non_snake_case, clippy::all)]\n\n");
    for sp in specs {
        s.push_str(&emit_spec(sp, "", "", ""));
        s.push_str(&emit_entry(sp));
        s.push('\n');
    }
    s.push_str(&emit_registry(specs));
    let json = serde_json::to_string(specs).unwrap();
    s.push_str(&format!("pub const SPECS: &str = r####\"{}\"####;\n", json));
    s.push_str("fn main() { ::vl3::main(SPECS, registry()) }\n");
    s
}

pub fn cargo_toml(name: &str, default_features: bool) -> String {
    format!(
        r#"[package]
name = "{name}"
version = "0.0.0"
edition = "2021"

[workspace]

[dependencies]
darling = {{ path = "/repo", default-features = {df} }}
syn = {{ version = "2.0.15", features = ["full", "extra-traits"] }}
proc-macro2 = {{ version = "1.0.86", features = ["span-locations"] }}
vmodel = {{ path = "/verif/harness/vmodel" }}
vl3 = {{ path = "/verif/harness/vl3" }}

[profile.dev]
opt-level = 0
debug = false
incremental = false

[profile.dev.package."*"]
opt-level = 2
"#,
        name = name,
        df = default_features
    )
}

// ------------------------------------------------------------------------------------------
// C20: a crate that only has to compile, with no dependency named `syn`

pub fn cargo_toml_c20(name: &str) -> String {
    format!(
        r#"[package]
name = "{name}"
version = "0.0.0"
edition = "2021"

[workspace]

[dependencies]
darling = {{ path = "/repo", default-features = false }}
# deliberately NOT named `syn`: emitted code must reach syn through darling's re-exports
syn_v2 = {{ package = "syn", version = "2.0.15", features = ["full", "extra-traits"] }}
vmodel = {{ path = "/verif/harness/vmodel" }}

# checked twice: as most crates use darling (default features) and with `--no-default-features`
[features]
default = ["darling/suggestions"]
"#,
        name = name
    )
}

/// Generic receivers and other declarations that only matter to the compiler (hand-written templates,
/// instantiated with hostile names).
pub fn c20_extras(first_id: usize, names: &[&str]) -> Vec<(usize, String)> {
    let mut out = vec![];
    let mut id = first_id;
    // names that are magic fields of some element-level trait are not ordinary field names there
    let pool: Vec<&str> = names
        .iter()
        .cloned()
        .filter(|x| !["ident", "attrs", "vis", "ty", "data", "generics", "bounds", "default", "discriminant", "fields"].contains(x))
        .collect();
    let n = |k: usize| pool[k % pool.len()];
    let traits = ["FromMeta", "FromDeriveInput", "FromField", "FromVariant", "FromTypeParam", "FromAttributes"];
    for (k, tr) in traits.iter().enumerate() {
        let attrs = if *tr == "FromMeta" { "" } else { "#[darling(attributes(ata))]\n" };
        // type parameter used by parsed fields, a skipped field of another parameter, lifetime and const params
        out.push((id, format!(
            "#[derive(::darling::{tr})]\n{attrs}pub struct G{id}<'a, T, U: ::core::default::Default, const N: usize> where T: ::core::clone::Clone {{\n    pub {a}: T,\n    #[darling(default)] pub {b}: ::core::option::Option<T>,\n    #[darling(multiple)] pub {c}: ::std::vec::Vec<T>,\n    #[darling(skip)] pub {d}: U,\n    #[darling(skip)] pub ph: ::core::marker::PhantomData<&'a [u8; N]>,\n}}\n",
            tr = tr, attrs = attrs, id = id, a = n(k), b = n(k + 1), c = n(k + 2), d = n(k + 3)
        )));
        id += 1;
        // closures for with / map on a generic-free receiver with hostile names; defaults through generic paths
        out.push((id, format!(
            "#[derive(::darling::{tr})]\n{attrs}pub struct H{id} {{\n    #[darling(with = |m| <u8 as ::darling::FromMeta>::from_meta(m), map = \"::core::convert::identity\")] pub {a}: u8,\n    #[darling(default = \"::std::vec::Vec::<u8>::new\", multiple)] pub {b}: ::std::vec::Vec<u8>,\n    #[darling(default = \"::core::default::Default::default\")] pub {c}: ::std::string::String,\n    #[darling(and_then = \"::darling::export::Ok\")] pub {d}: bool,\n}}\n",
            tr = tr, attrs = attrs, id = id, a = n(k + 4), b = n(k + 5), c = n(k + 6), d = n(k + 7)
        )));
        id += 1;
    }
    // enums: hostile variant names, generic enum, container-level options on enums
    out.push((id, format!("#[derive(::darling::FromMeta)]\npub enum E{id} {{ Ok, Err(u8), Some {{ {a}: u8, {b}: ::core::option::Option<bool> }}, None, Self_, Result(::std::string::String) }}\n", id = id, a = n(0), b = n(1))));
    id += 1;
    out.push((id, format!("#[derive(::darling::FromMeta)]\npub enum E{id}<T> {{ Unit, New(T), St {{ {a}: T, #[darling(skip)] {b}: ::core::option::Option<T> }} }}\n", id = id, a = n(2), b = n(3))));
    id += 1;
    out.push((id, format!("#[derive(::darling::FromMeta)]\n#[darling(rename_all = \"kebab-case\", allow_unknown_fields)]\npub enum E{id} {{ #[darling(word)] UnitOne, #[darling(rename = \"x\")] New(u8), #[darling(skip)] Skipped(::std::fs::File), St {{ #[darling(default)] {a}: u8, #[darling(multiple, rename = \"m\")] {b}: ::std::vec::Vec<u8> }} }}\n", id = id, a = n(4), b = n(5))));
    id += 1;
    // newtype and unit receivers
    // (newtype delegation exists for FromMeta, FromDeriveInput and FromAttributes only)
    for tr in ["FromMeta", "FromDeriveInput"] {
        out.push((id, format!("#[derive(::darling::{tr})]\npub struct N{id}(pub W{id});\n#[derive(::darling::{tr})]\npub struct W{id} {{ #[darling(default)] pub {a}: u8 }}\n", tr = tr, id = id, a = n(id))));
        id += 1;
    }
    out.push((id, format!("#[derive(::darling::FromMeta)]\npub struct U{id};\n#[derive(::darling::FromMeta)]\npub struct D{id} {{ pub default: u8, #[darling(default)] pub ident: ::core::option::Option<u8>, pub attrs: bool, #[darling(skip)] pub data: u8 }}\n", id = id)));
    id += 1;
    // every hostile name as an ordinary field, as a `multiple` field, and with a converter / default
    for (k, tr) in traits.iter().enumerate() {
        let attrs = if *tr == "FromMeta" { "" } else { "#[darling(attributes(ata))]\n" };
        let _ = k;
        let plain: String = pool.iter().map(|nm| format!("    #[darling(default)] pub {}: u8,\n", nm)).collect();
        out.push((id, format!("#[derive(::darling::{tr})]\n{attrs}pub struct AP{id} {{\n{f}}}\n", tr = tr, attrs = attrs, id = id, f = plain)));
        id += 1;
        let multi: String = pool.iter().map(|nm| format!("    #[darling(multiple)] pub {}: ::std::vec::Vec<u8>,\n", nm)).collect();
        out.push((id, format!("#[derive(::darling::{tr})]\n{attrs}pub struct AM{id} {{\n{f}}}\n", tr = tr, attrs = attrs, id = id, f = multi)));
        id += 1;
        let conv: String = pool
            .iter()
            .enumerate()
            .map(|(i, nm)| match i % 4 {
                0 => format!("    #[darling(with = |m| <u8 as ::darling::FromMeta>::from_meta(m))] pub {}: u8,\n", nm),
                1 => format!("    #[darling(multiple, with = |m| <u8 as ::darling::FromMeta>::from_meta(m), map = \"::core::convert::identity\")] pub {}: ::std::vec::Vec<u8>,\n", nm),
                2 => format!("    #[darling(default = \"::core::default::Default::default\", and_then = \"::darling::export::Ok\")] pub {}: ::core::option::Option<u8>,\n", nm),
                _ => format!("    #[darling(skip)] pub {}: u8,\n", nm),
            })
            .collect();
        out.push((id, format!("#[derive(::darling::{tr})]\n{attrs}pub struct AC{id} {{\n{f}}}\n", tr = tr, attrs = attrs, id = id, f = conv)));
        id += 1;
    }
    // map / and_then whose input type differs from the field's type (the parsed type is then the
    // function's parameter type), without and with `default`, and inside a struct variant
    for tr in traits.iter() {
        let attrs = if *tr == "FromMeta" { "" } else { "#[darling(attributes(ata))]\n" };
        out.push((id, format!(
            "#[derive(::darling::{tr})]\n{attrs}pub struct MT{id} {{\n    #[darling(and_then = \"MT{id}::parse_port\")] pub port: u16,\n    #[darling(map = \"MT{id}::wrap\")] pub wrapped: ::core::option::Option<::std::string::String>,\n    #[darling(default, and_then = \"MT{id}::len_of\")] pub n: usize,\n    #[darling(default, map = \"MT{id}::widen\")] pub wide: u64,\n}}\nimpl MT{id} {{\n    fn parse_port(s: ::std::string::String) -> ::darling::Result<u16> {{ s.parse().map_err(|_| ::darling::Error::custom(\"port\")) }}\n    fn wrap(s: ::std::string::String) -> ::core::option::Option<::std::string::String> {{ ::core::option::Option::Some(s) }}\n    fn len_of(s: ::std::string::String) -> ::darling::Result<usize> {{ ::darling::export::Ok(s.len()) }}\n    fn widen(v: u8) -> u64 {{ v as u64 }}\n}}\n",
            tr = tr, attrs = attrs, id = id
        )));
        id += 1;
    }
    out.push((id, format!(
        "#[derive(::darling::FromMeta)]\npub enum MV{id} {{ Unit, St {{ #[darling(and_then = \"mv{id}_port\")] port: u16, #[darling(map = \"mv{id}_widen\")] wide: u64 }} }}\nfn mv{id}_port(s: ::std::string::String) -> ::darling::Result<u16> {{ s.parse().map_err(|_| ::darling::Error::custom(\"port\")) }}\nfn mv{id}_widen(v: u8) -> u64 {{ v as u64 }}\n",
        id = id
    )));
    id += 1;
    // unit-struct receivers (`struct R;`) for every trait, with and without options that still apply
    for tr in traits.iter() {
        let attrs = if *tr == "FromMeta" { "" } else { "#[darling(attributes(ata))]\n" };
        out.push((id, format!("#[derive(::darling::{tr})]\n{attrs}pub struct UU{id};\n", tr = tr, attrs = attrs, id = id)));
        id += 1;
        if *tr != "FromAttributes" {
            let attrs2 = if *tr == "FromMeta" { "#[darling(allow_unknown_fields)]\n" } else { "#[darling(allow_unknown_fields)]\n" };
            out.push((id, format!("#[derive(::darling::{tr})]\n{attrs}pub struct UV{id};\n", tr = tr, attrs = attrs2, id = id)));
            id += 1;
        }
    }
    out.push((id, format!("#[derive(::darling::FromDeriveInput)]\n#[darling(supports(struct_named, enum_any))]\npub struct US{id};\n", id = id)));
    id += 1;
    // `default = path` where the function's return type only *coerces* to the field's type (a longer lifetime, an array
    // for a slice, a function pointer for a trait object): the fallback sits at a coercion site
    for tr in ["FromMeta", "FromDeriveInput", "FromField"] {
        let attrs = if tr == "FromMeta" { "" } else { "#[darling(attributes(ata))]\n" };
        out.push((id, format!(
            "#[derive(::darling::{tr})]\n{attrs}pub struct CO{id}<'a> {{\n    #[darling(skip, default = \"co{id}_a\")] pub a: ::std::borrow::Cow<'a, str>,\n    #[darling(skip, default = \"co{id}_b\")] pub b: &'static [&'static str],\n    #[darling(skip, default = \"co{id}_c\")] pub c: ::std::boxed::Box<dyn ::core::ops::Fn(u8) -> u8>,\n    #[darling(with = co{id}_w, default = \"co{id}_b\")] pub w: &'static [&'static str],\n    #[darling(default)] pub {d}: u8,\n}}\nfn co{id}_a() -> ::std::borrow::Cow<'static, str> {{ ::std::borrow::Cow::Borrowed(\"a\") }}\nfn co{id}_b() -> &'static [&'static str; 2] {{ &[\"a\", \"b\"] }}\nfn co{id}_c() -> ::std::boxed::Box<fn(u8) -> u8> {{ ::std::boxed::Box::new(co{id}_id as fn(u8) -> u8) }}\nfn co{id}_id(x: u8) -> u8 {{ x }}\nfn co{id}_w(_m: &::darling::export::syn::Meta) -> ::darling::Result<&'static [&'static str]> {{ ::darling::export::Ok(&[]) }}\n",
            tr = tr, attrs = attrs, id = id, d = n(id)
        )));
        id += 1;
    }
    // receivers produced by a `macro_rules!` macro that takes the type's and the fields' names as arguments: the names
    // carry the call site's hygiene, the derive attribute the macro's - generated locals and field accesses must still meet
    for tr in traits.iter() {
        let attrs = if *tr == "FromMeta" { "" } else { ", attributes(ata)" };
        out.push((id, format!(
            "macro_rules! mk_recv{id} {{\n    ($name:ident, $f:ident, $g:ident, $h:ident) => {{\n        #[derive(::darling::{tr})]\n        #[darling(default{attrs})]\n        pub struct $name {{\n            pub $f: u8,\n            #[darling(multiple)] pub $g: ::std::vec::Vec<u8>,\n            #[darling(default)] pub $h: ::core::option::Option<bool>,\n            #[darling(skip)] pub skipped: u8,\n        }}\n        impl ::core::default::Default for $name {{ fn default() -> Self {{ $name {{ $f: 1, $g: ::std::vec::Vec::new(), $h: ::core::option::Option::None, skipped: 0 }} }} }}\n    }};\n}}\nmk_recv{id}!(MR{id}, {a}, {b}, {c});\n",
            id = id, tr = tr, attrs = attrs, a = n(id), b = n(id + 1), c = n(id + 2)
        )));
        id += 1;
    }
    out.push((id, format!(
        "macro_rules! mk_recv{id} {{\n    ($name:ident, $f:ident) => {{\n        #[derive(::darling::FromDeriveInput)]\n        #[darling(from_ident, attributes(ata))]\n        pub struct $name {{ pub ident: ::darling::export::syn::Ident, pub $f: u8 }}\n        impl ::core::convert::From<::darling::export::syn::Ident> for $name {{ fn from(ident: ::darling::export::syn::Ident) -> Self {{ $name {{ ident, $f: 0 }} }} }}\n    }};\n}}\nmk_recv{id}!(MR{id}, {a});\n",
        id = id, a = n(id)
    )));
    id += 1;
    out.push((id, format!(
        "macro_rules! mk_enum{id} {{\n    ($name:ident, $v:ident, $f:ident) => {{\n        #[derive(::darling::FromMeta)]\n        pub enum $name {{ Unit, $v {{ $f: u8, #[darling(default)] other: ::core::option::Option<u8> }} }}\n    }};\n}}\nmk_enum{id}!(ME{id}, Vee, {a});\n",
        id = id, a = n(id)
    )));
    id += 1;
    // hostile names inside struct variants
    let vfields: String = pool.iter().take(12).map(|nm| format!("{}: u8, ", nm)).collect();
    let vmulti: String = pool.iter().skip(12).take(12).map(|nm| format!("#[darling(multiple)] {}: ::std::vec::Vec<u8>, ", nm)).collect();
    out.push((id, format!("#[derive(::darling::FromMeta)]\npub enum AV{id} {{ Unit, A {{ {a} }}, B {{ {b} }} }}\n", id = id, a = vfields, b = vmulti)));
    id += 1;
    // known finding: a container-level `default` on an enum with a struct variant
    out.push((id, format!("#[derive(::darling::FromMeta)]\n#[darling(default)]\npub enum KD{id} {{ A, B {{ {a}: u8 }} }}\nimpl ::core::default::Default for KD{id} {{ fn default() -> Self {{ KD{id}::A }} }}\n", id = id, a = n(6))));
    id += 1;
    // the same on an enum without struct variants is harmless
    out.push((id, format!("#[derive(::darling::FromMeta)]\n#[darling(default, map = \"::core::convert::identity\")]\npub enum KE{id} {{ A, B(u8) }}\nimpl ::core::default::Default for KE{id} {{ fn default() -> Self {{ KE{id}::A }} }}\n", id = id)));
    id += 1;
    // a receiver inside a module without any imports, nested in a function-like scope
    out.push((id, format!(
        "pub mod m{id} {{\n    pub mod inner {{\n        #[derive(::darling::FromDeriveInput)]\n        #[darling(attributes(ata), forward_attrs(doc), supports(struct_named, enum_any))]\n        pub struct M{id} {{ pub ident: ::darling::export::syn::Ident, pub attrs: ::std::vec::Vec<::darling::export::syn::Attribute>, pub data: ::darling::ast::Data<(), ()>, #[darling(default)] pub {a}: ::core::option::Option<::std::string::String> }}\n    }}\n}}\n",
        id = id, a = n(id)
    )));
    out
}

/// The C20 crate: every receiver preceded by a marker line so that rustc diagnostics can be
/// attributed. Returns (source, [(receiver key, first line, last line)]).
pub fn emit_c20_source(specs: &[Spec], extras: &[(usize, String)]) -> (String, Vec<(String, usize, usize)>) {
    let mut s = String::from("// @generated by vgen (C20)\n#![allow(dead_code, unused_variables, non_camel_case_types, non_snake_case, clippy::all)]\n\n");
    let mut ranges = vec![];
    let line_of = |s: &str| s.matches('\n').count() + 1;
    for sp in specs {
        let start = line_of(&s);
        s.push_str(&emit_spec(sp, "", "", ""));
        s.push('\n');
        ranges.push((format!("R{}", sp.id), start, line_of(&s) - 1));
    }
    for (id, src) in extras {
        let start = line_of(&s);
        s.push_str(src);
        s.push('\n');
        ranges.push((format!("X{}", id), start, line_of(&s) - 1));
    }
    s.push_str("fn main() {}\n");
    (s, ranges)
}

/// C20: randomly composed *generic* receivers. Every type parameter is used by at least one field in a
/// randomly chosen role (ordinary, Option, multiple, flatten, boxed, map value, wrapper types, a generic
/// receiver of its own, skipped); parameter names include names of prelude types and of the traits the
/// generated code mentions. The struct declares only the bounds the documentation asks the *user* for
/// (`Default` for a parameter a skipped field needs a value of); `FromMeta` bounds on parsed parameters
/// are the derive's job.
pub fn c20_generics(d: &mut crate::dec::D, first_id: usize, count: usize) -> Vec<(usize, String)> {
    const PNAMES: &[&str] = &["T", "U", "V", "F", "E", "Item", "Meta", "Error", "Result", "Option", "Vec", "String", "FromMeta", "Box", "Default", "Ok", "Self_", "D", "__T"];
    let traits = ["FromMeta", "FromMeta", "FromDeriveInput", "FromField", "FromVariant", "FromTypeParam", "FromAttributes"];
    let mut out = vec![];
    for k in 0..count {
        let id = first_id + k;
        let np = d.range(1, 3);
        let mut params: Vec<&str> = vec![];
        while params.len() < np {
            let p = *d.pick(PNAMES);
            if !params.contains(&p) {
                params.push(p);
            } else {
                params.push(["P0", "P1", "P2"][params.len()]);
            }
        }
        let lifetime = d.ratio(1, 4);
        let konst = d.ratio(1, 4);
        let is_enum = d.ratio(1, 4);
        let mut need_default: Vec<&str> = vec![];
        let mut wrappers = String::new();
        let mut fno = 0usize;
        let mut flat_used = false;
        // one field declaration using parameter `p`
        let mut field = |d: &mut crate::dec::D, p: &str, in_variant: bool, need_default: &mut Vec<&'static str>, pstatic: &'static str| -> String {
            fno += 1;
            let name = format!("g{}_{}", id, fno);
            let vis = if in_variant { "" } else { "pub " };
            let role = d.below(14);
            match role {
                0 | 1 => format!("{}{}: {}", vis, name, p),
                2 => format!("{}{}: ::core::option::Option<{}>", vis, name, p),
                3 => format!("#[darling(multiple)] {}{}: ::std::vec::Vec<{}>", vis, name, p),
                4 if !flat_used => {
                    flat_used = true;
                    format!("#[darling(flatten)] {}{}: {}", vis, name, p)
                }
                5 => format!("#[darling(skip)] {}{}: ::core::option::Option<{}>", vis, name, p),
                6 => {
                    if !need_default.contains(&pstatic) {
                        need_default.push(pstatic);
                    }
                    format!("#[darling(skip)] {}{}: {}", vis, name, p)
                }
                7 => format!("{}{}: ::std::boxed::Box<{}>", vis, name, p),
                8 => format!("{}{}: ::std::collections::HashMap<::std::string::String, {}>", vis, name, p),
                9 => format!("#[darling(default)] {}{}: ::core::option::Option<{}>", vis, name, p),
                10 => {
                    wrappers.push_str(&format!("#[derive(::darling::FromMeta)]\npub struct Wrap{}_{}<X> {{ pub w: X }}\n", id, fno));
                    format!("{}{}: Wrap{}_{}<{}>", vis, name, id, fno, p)
                }
                11 => format!("{}{}: ::darling::util::SpannedValue<{}>", vis, name, p),
                12 => format!("{}{}: ::darling::util::Override<{}>", vis, name, p),
                _ => format!("#[darling(rename = \"rn{}\")] {}{}: ::std::rc::Rc<::core::option::Option<{}>>", fno, vis, name, p),
            }
        };
        let mut decl = String::new();
        let mut fwd = false;
        let tr = if is_enum { "FromMeta" } else { *d.pick(&traits) };
        let mut body = String::new();
        if is_enum {
            body.push_str("    Unit,\n");
            for (i, p) in params.clone().iter().enumerate() {
                match d.below(3) {
                    0 => body.push_str(&format!("    New{}({}),\n", i, p)),
                    1 => {
                        let f1 = field(d, p, true, &mut need_default, p);
                        let q = *d.pick(&params);
                        let f2 = field(d, q, true, &mut need_default, q);
                        body.push_str(&format!("    St{} {{ {}, {} }},\n", i, f1, f2));
                    }
                    _ => {
                        let f1 = field(d, p, true, &mut need_default, p);
                        body.push_str(&format!("    #[darling(rename = \"s{}\")] St{} {{ {} }},\n", i, i, f1));
                    }
                }
            }
        } else {
            for p in params.clone().iter() {
                let f = field(d, p, false, &mut need_default, p);
                body.push_str(&format!("    {},\n", f));
                if d.ratio(1, 3) {
                    let f = field(d, p, false, &mut need_default, p);
                    body.push_str(&format!("    {},\n", f));
                }
            }
            if d.ratio(1, 3) {
                body.push_str(&format!("    #[darling(default)] pub plain{}: u8,\n", id));
            }
            // magic fields of the trait, each with its documented type spelled through absolute paths
            let magic: &[(&str, &str)] = match tr {
                "FromDeriveInput" => &[
                    ("ident", "::darling::export::syn::Ident"),
                    ("vis", "::darling::export::syn::Visibility"),
                    ("generics", "::darling::export::syn::Generics"),
                    ("data", "::darling::ast::Data<::darling::util::Ignored, ::darling::util::Ignored>"),
                    ("attrs", "::std::vec::Vec<::darling::export::syn::Attribute>"),
                ],
                "FromField" => &[
                    ("ident", "::core::option::Option<::darling::export::syn::Ident>"),
                    ("vis", "::darling::export::syn::Visibility"),
                    ("ty", "::darling::export::syn::Type"),
                    ("attrs", "::std::vec::Vec<::darling::export::syn::Attribute>"),
                ],
                "FromVariant" => &[
                    ("ident", "::darling::export::syn::Ident"),
                    ("discriminant", "::core::option::Option<::darling::export::syn::Expr>"),
                    ("fields", "::darling::ast::Fields<::darling::util::Ignored>"),
                    ("attrs", "::std::vec::Vec<::darling::export::syn::Attribute>"),
                ],
                "FromTypeParam" => &[
                    ("ident", "::darling::export::syn::Ident"),
                    ("bounds", "::std::vec::Vec<::darling::export::syn::TypeParamBound>"),
                    ("default", "::core::option::Option<::darling::export::syn::Type>"),
                    ("attrs", "::std::vec::Vec<::darling::export::syn::Attribute>"),
                ],
                _ => &[],
            };
            for (mn, mt) in magic {
                if d.ratio(1, 3) {
                    if *mn == "attrs" {
                        fwd = true;
                    }
                    body.push_str(&format!("    pub {}: {},\n", mn, mt));
                }
            }
        }
        // phantom use of lifetime / const parameters
        let mut gl: Vec<String> = vec![];
        if lifetime {
            gl.push("'a".into());
        }
        // bounds: inline or in a where-clause
        let in_where = d.bool();
        for p in &params {
            if need_default.contains(p) && !in_where {
                gl.push(format!("{}: ::core::default::Default", p));
            } else {
                gl.push(p.to_string());
            }
        }
        if konst {
            gl.push("const N: usize".into());
        }
        let wc: Vec<String> = if in_where { need_default.iter().map(|p| format!("{}: ::core::default::Default", p)).collect() } else { vec![] };
        let wc = if wc.is_empty() { String::new() } else { format!(" where {}", wc.join(", ")) };
        if !is_enum && (lifetime || konst) {
            body.push_str(&format!(
                "    #[darling(skip)] pub ph{}: ::core::marker::PhantomData<{}>,\n",
                id,
                match (lifetime, konst) {
                    (true, true) => "&'a [u8; N]",
                    (true, false) => "&'a u8",
                    _ => "[u8; N]",
                }
            ));
        }
        if is_enum && (lifetime || konst) {
            body.push_str(&format!(
                "    #[darling(skip)] Ph(::core::marker::PhantomData<{}>),\n",
                match (lifetime, konst) {
                    (true, true) => "&'a [u8; N]",
                    (true, false) => "&'a u8",
                    _ => "[u8; N]",
                }
            ));
        }
        // container-level options whose generated code mentions std types in signatures (a parameter may be
        // called `Option` or `Result`)
        let mut copts: Vec<&str> = vec![];
        if tr == "FromMeta" {
            if d.ratio(1, 3) {
                copts.push("from_none = || ::core::option::Option::None");
            }
            if d.ratio(1, 3) && !is_enum {
                copts.push("from_word = || ::darling::export::Err(::darling::Error::custom(\"w\"))");
            }
        }
        if d.ratio(1, 4) {
            copts.push("and_then = ::darling::export::Ok");
        } else if d.ratio(1, 4) {
            copts.push("map = ::core::convert::identity");
        }
        if d.ratio(1, 4) {
            copts.push("allow_unknown_fields");
        }
        if d.ratio(1, 4) {
            copts.push("rename_all = \"camelCase\"");
        }
        let copts = if copts.is_empty() { String::new() } else { format!("#[darling({})]\n", copts.join(", ")) };
        let attrs = if tr == "FromMeta" {
            ""
        } else if fwd {
            "#[darling(attributes(ata), forward_attrs(doc, allow))]\n"
        } else {
            "#[darling(attributes(ata))]\n"
        };
        decl.push_str(&wrappers);
        decl.push_str(&format!(
            "#[derive(::darling::{tr})]\n{attrs}{copts}pub {kw} GG{id}<{gl}>{wc} {{\n{body}}}\n",
            tr = tr,
            attrs = attrs,
            copts = copts,
            kw = if is_enum { "enum" } else { "struct" },
            id = id,
            gl = gl.join(", "),
            wc = wc,
            body = body
        ));
        out.push((id, decl));
    }
    out
}
