//! Small helpers shared by checks: span ranges, token printing, panic capture.

use proc_macro2::{Delimiter, Span, TokenStream, TokenTree};
use std::cell::RefCell;
use std::panic::{self, AssertUnwindSafe};

pub fn range(span: Span) -> (usize, usize) {
    let r = span.byte_range();
    (r.start, r.end)
}

pub fn opt_range(span: Option<Span>) -> Option<(usize, usize)> {
    span.map(range)
}

/// `inner` lies inside `outer` (containment, not equality).
pub fn inside(inner: (usize, usize), outer: (usize, usize)) -> bool {
    inner.0 >= outer.0 && inner.1 <= outer.1 && inner.0 <= inner.1
}

/// Token-by-token printing with invisible groups flattened; the canonical form used to compare
/// "the same tokens".
pub fn canon_tokens(ts: TokenStream) -> String {
    let mut out = Vec::new();
    fn walk(ts: TokenStream, out: &mut Vec<String>) {
        for tt in ts {
            match tt {
                TokenTree::Group(g) => {
                    let (o, c) = match g.delimiter() {
                        Delimiter::Parenthesis => ("(", ")"),
                        Delimiter::Brace => ("{", "}"),
                        Delimiter::Bracket => ("[", "]"),
                        Delimiter::None => ("", ""),
                    };
                    if !o.is_empty() {
                        out.push(o.to_string());
                    }
                    walk(g.stream(), out);
                    if !c.is_empty() {
                        out.push(c.to_string());
                    }
                }
                TokenTree::Ident(i) => out.push(i.to_string()),
                TokenTree::Punct(p) => {
                    // spacing is not recorded: `||` lexed from text is joint, the same two
                    // tokens printed by syn (closure bars) are not
                    out.push(p.as_char().to_string())
                }
                TokenTree::Literal(l) => out.push(l.to_string()),
            }
        }
    }
    walk(ts, &mut out);
    out.join(" ")
}

thread_local! {
    static LAST_PANIC: RefCell<Option<String>> = RefCell::new(None);
    static CATCH_DEPTH: std::cell::Cell<usize> = std::cell::Cell::new(0);
}

/// Install (once) a panic hook that records the message instead of printing it.
pub fn install_quiet_panic_hook() {
    static ONCE: std::sync::Once = std::sync::Once::new();
    ONCE.call_once(|| {
        panic::set_hook(Box::new(|info| {
            let msg = if let Some(s) = info.payload().downcast_ref::<&str>() {
                s.to_string()
            } else if let Some(s) = info.payload().downcast_ref::<String>() {
                s.clone()
            } else {
                "<non-string panic payload>".to_string()
            };
            let loc = info
                .location()
                .map(|l| format!("{}:{}", l.file(), l.line()))
                .unwrap_or_default();
            if CATCH_DEPTH.with(|d| d.get()) == 0 {
                // a panic of the harness itself, not of the code under test
                eprintln!("harness panic: {} @ {}", msg, loc);
            }
            LAST_PANIC.with(|p| *p.borrow_mut() = Some(format!("{} @ {}", msg, loc)));
        }));
    });
}

/// Run `f`, returning `Err(panic message)` if it panicked.
pub fn catch<T>(f: impl FnOnce() -> T) -> Result<T, String> {
    install_quiet_panic_hook();
    LAST_PANIC.with(|p| *p.borrow_mut() = None);
    CATCH_DEPTH.with(|d| d.set(d.get() + 1));
    let r = panic::catch_unwind(AssertUnwindSafe(f));
    CATCH_DEPTH.with(|d| d.set(d.get() - 1));
    match r {
        Ok(v) => Ok(v),
        Err(_) => Err(LAST_PANIC
            .with(|p| p.borrow_mut().take())
            .unwrap_or_else(|| "<panic>".to_string())),
    }
}

/// Normalise a panic message into a signature component: strip the file location's line number
/// and long payloads.
pub fn panic_sig(msg: &str) -> String {
    let (m, loc) = match msg.rsplit_once(" @ ") {
        Some((m, l)) => (m, l),
        None => (msg, ""),
    };
    let file = loc.rsplit_once(':').map(|(f, _)| f).unwrap_or(loc);
    let file = file.rsplit('/').next().unwrap_or(file);
    let mut m: String = m.chars().take(60).collect();
    m = m.replace(|c: char| c.is_ascii_digit(), "#");
    format!("{}@{}", m, file)
}

/// Split `msg at a/b/c` into (msg, path). darling joins the location with `/`.
pub fn split_at(display: &str) -> (String, Vec<String>) {
    match display.rfind(" at ") {
        // "Too few items: Expected at least 1" carries no location
        Some(i) if display[i + 4..].starts_with("least ") => (display.to_string(), vec![]),
        Some(i) => {
            let (m, p) = display.split_at(i);
            let p = &p[4..];
            (m.to_string(), p.split('/').map(|s| s.to_string()).collect())
        }
        None => (display.to_string(), vec![]),
    }
}

/// The compile_error! invocations inside a token stream: (message, span of the `compile_error` ident).
pub fn compile_errors(ts: TokenStream) -> Vec<(String, Span)> {
    let mut out = vec![];
    fn walk(ts: TokenStream, out: &mut Vec<(String, Span)>) {
        let toks: Vec<TokenTree> = ts.into_iter().collect();
        let mut i = 0;
        while i < toks.len() {
            if let TokenTree::Ident(id) = &toks[i] {
                if id == "compile_error" {
                    if let (Some(TokenTree::Punct(p)), Some(TokenTree::Group(g))) =
                        (toks.get(i + 1), toks.get(i + 2))
                    {
                        if p.as_char() == '!' {
                            let mut msg = String::new();
                            for t in g.stream() {
                                if let TokenTree::Literal(l) = t {
                                    if let Ok(s) = syn::parse_str::<syn::LitStr>(&l.to_string()) {
                                        msg = s.value();
                                    }
                                }
                            }
                            out.push((msg, id.span()));
                            i += 3;
                            continue;
                        }
                    }
                }
            }
            if let TokenTree::Group(g) = &toks[i] {
                walk(g.stream(), out);
            }
            i += 1;
        }
    }
    walk(ts, &mut out);
    out
}

/// Forget every span of earlier cases on this thread (the fallback source map of proc-macro2
/// otherwise keeps the text of every string ever parsed). Call at the top of each case; no span
/// from an earlier case may be touched afterwards.
pub fn fresh_spans() {
    proc_macro2::extra::invalidate_current_thread_spans();
}
