//! Generators for the "magic" batch (element-level receivers with every subset of magic fields,
//! wrappers, inner body receivers, supports) and for abstract input elements.

use crate::dec::D;
use crate::elem::*;
use crate::gen::{self, InputStats, Mode};
use crate::model::World;
use crate::spec::*;

fn magic(name: &str) -> Magic {
    Magic { name: name.into(), wrap: "plain".into(), variant_recv: None, field_recv: None }
}

fn base_spec(id: usize, tr: Trait, purpose: &str) -> Spec {
    let mut c = Container::default();
    c.attributes = vec!["ata".into()];
    Spec { id, tr, container: c, body: Body::Struct(vec![]), magic: vec![], purpose: purpose.into() }
}

fn req_field(name: String, ty: Ty) -> Field {
    Field::plain(&name, ty)
}

fn opt_field(name: String, ty: Ty) -> Field {
    let mut f = Field::plain(&name, ty);
    f.default = Dflt::Fn;
    f
}

pub struct MagicBatch {
    pub specs: Vec<Spec>,
}

const FDI_MAGIC: &[&str] = &["ident", "vis", "generics", "attrs", "data"];
const FF_MAGIC: &[&str] = &["ident", "vis", "ty", "attrs"];
const FV_MAGIC: &[&str] = &["ident", "discriminant", "fields", "attrs"];
const FTP_MAGIC: &[&str] = &["ident", "bounds", "default", "attrs"];

pub fn gen_magic_batch(d: &mut D) -> Vec<Spec> {
    let mut specs: Vec<Spec> = vec![];
    let mut id = 0usize;
    let mut next = |specs: &Vec<Spec>| specs.len();
    // --- inner FromTypeParam receivers
    let mut tps = vec![];
    {
        let mut s = base_spec(next(&specs), Trait::FromTypeParam, "c16-inner");
        s.magic = vec![magic("ident"), magic("bounds"), magic("default")];
        s.body = Body::Struct(vec![{
            let mut f = Field::plain(&format!("note{}", s.id), Ty::Opt(Box::new(Ty::Str)));
            f.default = Dflt::None;
            f
        }]);
        tps.push(s.id);
        specs.push(s);
        let mut s = base_spec(next(&specs), Trait::FromTypeParam, "c16-inner");
        s.magic = vec![magic("ident")];
        s.body = Body::Struct(vec![opt_field(format!("tag{}", s.id), Ty::U8)]);
        tps.push(s.id);
        specs.push(s);
    }
    // --- inner FromField receivers
    let mut ffs = vec![];
    {
        let mut s = base_spec(next(&specs), Trait::FromField, "c16-inner");
        s.magic = vec![magic("ident"), magic("ty"), magic("vis")];
        s.body = Body::Struct(vec![req_field(format!("req{}", s.id), Ty::U8), Field::plain(&format!("note{}", s.id), Ty::Opt(Box::new(Ty::Str)))]);
        ffs.push(s.id);
        specs.push(s);
        let mut s = base_spec(next(&specs), Trait::FromField, "c16-inner");
        s.magic = vec![magic("ident"), magic("ty"), magic("attrs")];
        s.container.forward_attrs = Fwd::List(vec!["doc".into()]);
        s.body = Body::Struct(vec![opt_field(format!("opt{}", s.id), Ty::Bool)]);
        ffs.push(s.id);
        specs.push(s);
        let mut s = base_spec(next(&specs), Trait::FromField, "c16-inner");
        s.body = Body::Struct(vec![req_field(format!("req{}", s.id), Ty::Str)]);
        ffs.push(s.id);
        specs.push(s);
        let mut s = base_spec(next(&specs), Trait::FromField, "c16-inner");
        s.magic = vec![magic("vis"), Magic { wrap: "with".into(), ..magic("attrs") }];
        s.container.forward_attrs = Fwd::Bare;
        ffs.push(s.id);
        specs.push(s);
    }
    // --- inner FromVariant receivers
    let mut fvs = vec![];
    {
        let mut s = base_spec(next(&specs), Trait::FromVariant, "c16-inner");
        s.magic = vec![magic("ident"), magic("discriminant"), Magic { field_recv: Some(ffs[0]), ..magic("fields") }];
        s.body = Body::Struct(vec![req_field(format!("vreq{}", s.id), Ty::U8)]);
        fvs.push(s.id);
        specs.push(s);
        let mut s = base_spec(next(&specs), Trait::FromVariant, "c16-inner");
        s.magic = vec![magic("ident"), magic("fields")];
        s.container.supports = Some(vec!["unit".into(), "newtype".into()]);
        s.body = Body::Struct(vec![opt_field(format!("vopt{}", s.id), Ty::Str)]);
        fvs.push(s.id);
        specs.push(s);
        let mut s = base_spec(next(&specs), Trait::FromVariant, "c16-inner");
        s.magic = vec![Magic { field_recv: Some(usize::MAX), ..magic("fields") }, magic("attrs")];
        s.container.forward_attrs = Fwd::Bare;
        fvs.push(s.id);
        specs.push(s);
        let mut s = base_spec(next(&specs), Trait::FromVariant, "c16-inner");
        s.magic = vec![magic("ident"), Magic { field_recv: Some(ffs[2]), ..magic("fields") }];
        fvs.push(s.id);
        specs.push(s);
    }
    let _ = &mut id;
    // --- top-level receivers: every subset of the magic fields of each trait
    let families: Vec<(Trait, &[&str])> = vec![
        (Trait::FromDeriveInput, FDI_MAGIC),
        (Trait::FromField, FF_MAGIC),
        (Trait::FromVariant, FV_MAGIC),
        (Trait::FromTypeParam, FTP_MAGIC),
        (Trait::FromAttributes, &["attrs"]),
    ];
    for (tr, names) in families {
        for mask in 0..(1usize << names.len()) {
            let sid = next(&specs);
            let mut s = base_spec(sid, tr, "c16");
            let mut ms = vec![];
            for (i, n) in names.iter().enumerate() {
                if mask & (1 << i) == 0 {
                    continue;
                }
                let mut m = magic(n);
                match *n {
                    "generics" => {
                        m.wrap = d.pick(&["plain", "plain", "ast", "ast", "result", "result_ast", "spanned", "with_original"]).to_string();
                        if m.wrap == "result_ast" || (m.wrap == "ast" && d.bool()) {
                            m.field_recv = Some(*d.pick(&tps));
                        }
                    }
                    "attrs" => {
                        if d.ratio(1, 4) {
                            m.wrap = "with".into();
                        }
                        s.container.forward_attrs = match d.below(4) {
                            0 => Fwd::List(vec!["doc".into(), "serde".into()]),
                            1 => Fwd::List(vec!["foo".into(), "other::path".into(), "cfg".into(), "r#move".into()]),
                            _ => Fwd::Bare,
                        };
                    }
                    "data" => match d.below(6) {
                        0 => m.wrap = "with".into(),
                        1 => {}
                        2 => {
                            m.variant_recv = Some(usize::MAX);
                            m.field_recv = Some(usize::MAX);
                        }
                        _ => {
                            if d.bool() {
                                m.variant_recv = Some(*d.pick(&fvs));
                            }
                            if d.ratio(2, 3) {
                                m.field_recv = Some(*d.pick(&ffs));
                            }
                        }
                    },
                    "fields" => match d.below(4) {
                        0 => {}
                        1 => m.field_recv = Some(usize::MAX),
                        _ => m.field_recv = Some(*d.pick(&ffs)),
                    },
                    _ => {}
                }
                ms.push(m);
            }
            // declaration order of magic fields is part of the program space
            if d.bool() {
                ms.reverse();
            }
            s.magic = ms;
            if d.ratio(1, 3) {
                s.container.attributes.push("atb".into());
            }
            // a multi-segment attribute name next to the (possibly multi-segment) names of a forward_attrs list
            if d.ratio(1, 4) {
                s.container.attributes.push("ns::at".into());
            }
            if d.ratio(1, 6) {
                s.container.attributes.push("r#type".into());
            }
            // a claimed attribute name may also be in the list of forwarded names: reading wins, the attribute
            // is not forwarded
            if d.ratio(1, 5) && !s.container.attributes.is_empty() {
                let nm = d.pick(&s.container.attributes).clone();
                if let Fwd::List(l) = &mut s.container.forward_attrs {
                    let at = d.below(l.len() + 1);
                    l.insert(at, nm);
                }
            }
            // ordinary fields
            let nf = d.below(3);
            let mut fields = vec![];
            for j in 0..nf {
                let ty = d.pick(&[Ty::U8, Ty::Str, Ty::Bool, Ty::Opt(Box::new(Ty::I64)), Ty::Flag]).clone();
                let mut f = Field::plain(&format!("{}{}", ["gamma", "lorem", "max_len"][j], sid), ty);
                f.default = *d.pick(&[Dflt::None, Dflt::Fn, Dflt::Trait]);
                f.multiple = d.ratio(1, 6);
                fields.push(f);
            }
            s.body = Body::Struct(fields);
            // a container-level fallback: the magic fields must still come from the input
            match d.below(8) {
                0 => s.container.default = Dflt::Trait,
                1 => s.container.default = Dflt::Fn,
                2 if matches!(tr, Trait::FromDeriveInput | Trait::FromVariant | Trait::FromTypeParam) => s.container.from_ident = true,
                _ => {}
            }
            if matches!(tr, Trait::FromDeriveInput) && d.ratio(1, 3) {
                let words = ["any", "struct_any", "struct_named", "struct_newtype", "struct_tuple", "struct_unit", "enum_any", "enum_named", "enum_newtype", "enum_tuple", "enum_unit"];
                let n = d.range(1, 4);
                s.container.supports = Some((0..n).map(|_| d.pick(&words).to_string()).collect());
            }
            if matches!(tr, Trait::FromVariant) && d.ratio(1, 3) {
                let words = ["any", "named", "newtype", "tuple", "unit"];
                let n = d.range(1, 3);
                s.container.supports = Some((0..n).map(|_| d.pick(&words).to_string()).collect());
            }
            specs.push(s);
        }
    }
    // `attrs` with an empty forward_attrs() list and no attributes(..): nothing is read, nothing is
    // forwarded, the field holds an empty vector
    for tr in [Trait::FromDeriveInput, Trait::FromField, Trait::FromVariant, Trait::FromTypeParam] {
        let sid = next(&specs);
        let mut s = base_spec(sid, tr, "c16");
        s.container.attributes = vec![];
        s.container.forward_attrs = Fwd::List(vec![]);
        s.magic = vec![magic("attrs"), magic("ident")];
        specs.push(s);
        // nothing is read, but a non-empty list of names is forwarded
        let sid = next(&specs);
        let mut s = base_spec(sid, tr, "c16");
        s.container.attributes = vec![];
        s.container.forward_attrs = Fwd::List(vec!["doc".into(), "foo".into(), "other::path".into()]);
        s.magic = vec![magic("attrs"), magic("ident")];
        specs.push(s);
        // the same with a custom converter on `attrs` (it must still be called, with nothing)
        let sid = next(&specs);
        let mut s = base_spec(sid, tr, "c16");
        s.container.attributes = vec![];
        s.container.forward_attrs = Fwd::List(vec![]);
        s.magic = vec![Magic { wrap: "with".into(), ..magic("attrs") }];
        specs.push(s);
    }
    specs
}

pub const SHAPE_WORDS: [&str; 11] = ["any", "struct_any", "struct_named", "struct_newtype", "struct_tuple", "struct_unit", "enum_any", "enum_named", "enum_newtype", "enum_tuple", "enum_unit"];
pub const VARIANT_WORDS: [&str; 5] = ["any", "named", "newtype", "tuple", "unit"];

/// C18 part b: receivers that only declare `supports(..)`. `n` FromDeriveInput subsets (a covering
/// family: every subset of size <= 2 first; all 2^11 when n >= 2048) and all 32 FromVariant subsets.
pub fn gen_shapes_batch(d: &mut D, n: usize) -> Vec<Spec> {
    let mut masks: Vec<usize> = vec![];
    if n >= 2048 {
        masks = (0..2048).collect();
    } else {
        masks.push(0);
        // every subset of the struct_* words, every subset of the enum_* words (the generated code treats the two
        // families separately, so any interaction of words of any size inside a family is covered), and the same
        // pattern in both families at once
        for k in 1..32usize {
            // (the last two: the same words in both families except for `newtype` on one side only)
            for m in [k << 1, k << 6, (k << 1) | (k << 6), (k << 1) | ((k ^ 4) << 6), ((k ^ 4) << 1) | (k << 6)] {
                if !masks.contains(&m) {
                    masks.push(m);
                }
            }
        }
        for i in 0..11 {
            if !masks.contains(&(1 << i)) {
                masks.push(1 << i);
            }
        }
        for i in 0..11 {
            for j in (i + 1)..11 {
                if !masks.contains(&((1 << i) | (1 << j))) {
                    masks.push((1 << i) | (1 << j));
                }
            }
        }
        while masks.len() < n {
            let m = d.below(2048);
            if !masks.contains(&m) {
                masks.push(m);
            }
        }
        masks.truncate(n.max(190));
    }
    let mut specs = vec![];
    for m in masks {
        let id = specs.len();
        let mut s = base_spec(id, Trait::FromDeriveInput, "c18");
        s.container.attributes = vec![];
        s.container.supports = Some(SHAPE_WORDS.iter().enumerate().filter(|(i, _)| m & (1 << i) != 0).map(|(_, w)| w.to_string()).collect());
        specs.push(s);
    }
    for m in 0..32usize {
        let id = specs.len();
        let mut s = base_spec(id, Trait::FromVariant, "c18");
        s.container.attributes = vec![];
        s.container.supports = Some(VARIANT_WORDS.iter().enumerate().filter(|(i, _)| m & (1 << i) != 0).map(|(_, w)| w.to_string()).collect());
        specs.push(s);
    }
    // and receivers without any supports(..): everything is accepted
    let id = specs.len();
    let mut s = base_spec(id, Trait::FromDeriveInput, "c18");
    s.container.attributes = vec![];
    specs.push(s);
    specs
}

// ------------------------------------------------------------------------------------------
// input elements

const TYPES: &[&str] = &["u8", "String", "Vec<u8>", "Option<T>", "&'a str", "[u8; 4]", "(u8, T)", "Box<dyn Fn(T) -> u8>", "::std::string::String", "m::Ty<'a, T>"];
const VISES: &[&str] = &["", "pub ", "pub(crate) ", "pub(super) ", "pub(in crate::m) "];
pub const FOREIGN: &[&str] = &[
    "#[doc = \"text\"]",
    "/// a doc comment",
    "#[cfg(test)]",
    "#[derive(Debug, Clone)]",
    "#[foo(a b ; c)]",
    "#[serde(rename = \"x\", default)]",
    "#[unrelated = 5]",
    "#[other::path(x = 1)]",
    "#[allow(dead_code)]",
    "#[foo]",
    "#[bar(= = =)]",
    "#[r#move]",
    "#[r#move(x)]",
];

pub fn gen_attrset(w: &World, recv: Option<&Spec>, d: &mut D, mode: Mode, st: &mut InputStats, allow_absent: bool) -> AttrSet {
    let mut a = AttrSet::default();
    if let Some(s) = recv.filter(|s| !s.container.attributes.is_empty()) {
        a.name = d.pick(&s.container.attributes).clone();
        let nodes = gen::gen_items(w, s, d, mode, 1, st);
        // an element without the attribute at all (fine when nothing is required)
        if nodes.is_empty() && allow_absent && d.bool() {
            a.nodes = None;
        } else if matches!(mode, Mode::Mistakes(_)) && allow_absent && d.ratio(1, 6) {
            a.nodes = None;
            st.mistakes.push("attribute-absent");
        } else {
            // an attribute without items may be written `#[name()]` or bare `#[name]`
            a.bare = nodes.is_empty() && d.bool();
            a.nodes = Some(nodes);
        }
    }
    let nf = d.weighted(&[6, 3, 2, 1]);
    for _ in 0..nf {
        a.foreign.push((d.bool(), d.pick(FOREIGN).to_string()));
    }
    a
}

fn gen_field_in(w: &World, recv: Option<&Spec>, d: &mut D, mode: Mode, st: &mut InputStats, named: bool, j: usize) -> FieldIn {
    FieldIn {
        attrs: gen_attrset(w, recv, d, mode, st, true),
        vis: d.pick(VISES).to_string(),
        name: if named {
            // sometimes the input field is called exactly like one of the options its receiver reads (the location
            // path `size/size` is then right: the field, then the option)
            let option_names: Vec<String> = recv
                .map(|r| r.fields().iter().filter(|f| !f.skip && !f.flatten).map(|f| crate::model::field_name(f, &r.container)).filter(|n| syn::parse_str::<syn::Ident>(n).is_ok()).collect())
                .unwrap_or_default();
            Some(if d.ratio(1, 8) {
                "r#type".to_string()
            } else if !option_names.is_empty() && d.ratio(1, 5) {
                d.pick(&option_names).clone()
            } else {
                format!("fld{}", j)
            })
        } else {
            None
        },
        ty: d.pick(TYPES).to_string(),
    }
}

fn gen_fields_in(w: &World, recv: Option<&Spec>, d: &mut D, mode: Mode, st: &mut InputStats, style: StyleIn, min: usize) -> Vec<FieldIn> {
    let n = match style {
        StyleIn::Unit => 0,
        _ => d.range(min, 4),
    };
    let mut out: Vec<FieldIn> = vec![];
    for j in 0..n {
        let mut f = gen_field_in(w, recv, d, mode, st, style == StyleIn::Named, j);
        if let Some(nm) = &f.name {
            if out.iter().any(|o| o.name.as_ref() == Some(nm)) {
                f.name = Some(format!("fld{}", j));
            }
        }
        out.push(f);
    }
    out
}

fn style(d: &mut D) -> StyleIn {
    *d.pick(&[StyleIn::Named, StyleIn::Named, StyleIn::Tuple, StyleIn::Unit])
}

fn gen_variant_in(w: &World, vrecv: Option<&Spec>, frecv: Option<&Spec>, d: &mut D, mode: Mode, st: &mut InputStats, i: usize) -> VariantIn {
    let stl = style(d);
    VariantIn {
        attrs: gen_attrset(w, vrecv, d, mode, st, true),
        name: format!("Var{}", i),
        style: stl,
        fields: gen_fields_in(w, frecv, d, mode, st, stl, 0),
        disc: if d.ratio(1, 4) { Some(d.pick(&["3", "1 + 2", "0x10", "-1"]).to_string()) } else { None },
    }
}

fn spec_by<'a>(w: &World<'a>, id: Option<usize>) -> Option<&'a Spec> {
    match id {
        Some(usize::MAX) | None => None,
        Some(i) => Some(w.spec(i)),
    }
}

/// An input element for receiver `s`. `body_mode`: mistakes allowed inside the body's attributes.
pub fn gen_elem(w: &World, s: &Spec, d: &mut D, mode: Mode, body_mode: Mode, st: &mut InputStats) -> ElemIn {
    let data_m = s.magic.iter().find(|m| m.name == "data");
    let fields_m = s.magic.iter().find(|m| m.name == "fields");
    let gen_m = s.magic.iter().find(|m| m.name == "generics");
    let vrecv = spec_by(w, data_m.and_then(|m| m.variant_recv));
    let frecv = spec_by(w, data_m.and_then(|m| m.field_recv));
    // generics
    let mut generics = vec![];
    let ng = d.weighted(&[3, 3, 2, 2]);
    let tprecv = spec_by(w, gen_m.filter(|m| m.wrap == "ast" || m.wrap == "result_ast").and_then(|m| m.field_recv));
    for i in 0..ng {
        generics.push(match d.below(5) {
            0 => GParam::Lifetime(d.pick(&["'a", "'b: 'a", "'c"]).to_string()),
            1 if i == ng - 1 => GParam::Const(d.pick(&["const N: usize", "const M: u8 = 3"]).to_string()),
            _ => GParam::Type(TypeParamIn {
                // (mistakes inside a type parameter's attributes belong to the body layer, like those of fields and variants)
                attrs: gen_attrset(w, tprecv, d, if tprecv.is_some() { body_mode } else { Mode::Clean }, st, true),
                name: format!("{}", ["T", "U", "V"][i % 3]),
                bounds: d.pick(&["", "Clone", "Clone + 'static", "Iterator<Item = u8> + ?Sized"]).to_string(),
                default: if d.ratio(1, 4) { Some(d.pick(&["u8", "Vec<String>"]).to_string()) } else { None },
            }),
        });
    }
    // lifetimes first, consts last: order the params legally
    generics.sort_by_key(|g| match g {
        GParam::Lifetime(_) => 0,
        GParam::Type(t) => {
            if t.default.is_some() {
                2
            } else {
                1
            }
        }
        GParam::Const(c) => {
            if c.contains('=') {
                4
            } else {
                3
            }
        }
    });
    // a defaulted const must not precede a non-defaulted type parameter; the sort above ensures it
    // (a where-clause needs no parameter list: `struct S where u8: Copy;`)
    let where_clause = if d.ratio(1, 3) { Some(d.pick(&["u8: Copy", "Vec<u8>: Clone, String: Default,", "String: Clone", "i8: Copy,", ""]).to_string()) } else { None };
    // (the element itself may carry no claimed attribute at all when nothing is required of it)
    let attrs = gen_attrset(w, Some(s), d, mode, st, true);
    let body = match s.tr {
        Trait::FromField => {
            let stl = if d.ratio(1, 4) { StyleIn::Tuple } else { StyleIn::Named };
            let mut fs = gen_fields_in(w, None, d, Mode::Clean, st, stl, 1);
            fs[0].attrs = attrs.clone();
            BodyIn::Struct(stl, fs)
        }
        Trait::FromVariant => {
            let n = d.range(1, 3);
            let frecv = spec_by(w, fields_m.and_then(|m| m.field_recv));
            let mut vs: Vec<VariantIn> = (0..n).map(|i| gen_variant_in(w, None, if i == 0 { frecv } else { None }, d, body_mode, st, i)).collect();
            vs[0].attrs = attrs.clone();
            BodyIn::Enum(vs)
        }
        Trait::FromTypeParam => {
            // the first type parameter is the element
            let tp = TypeParamIn {
                attrs: attrs.clone(),
                name: "T".into(),
                bounds: d.pick(&["", "Clone", "Clone + 'static", "Iterator<Item = u8> + ?Sized + 'a"]).to_string(),
                default: if d.ratio(1, 3) { Some(d.pick(&["u8", "Vec<String>"]).to_string()) } else { None },
            };
            generics.retain(|g| !matches!(g, GParam::Type(_)));
            let pos = generics.iter().position(|g| matches!(g, GParam::Const(_))).unwrap_or(generics.len());
            generics.insert(pos, GParam::Type(tp));
            BodyIn::Struct(StyleIn::Unit, vec![])
        }
        _ => match d.weighted(&[6, 5, 1]) {
            0 => {
                let stl = style(d);
                BodyIn::Struct(stl, gen_fields_in(w, frecv, d, body_mode, st, stl, 0))
            }
            1 => {
                let n = d.below(5);
                BodyIn::Enum((0..n).map(|i| gen_variant_in(w, vrecv, frecv.filter(|_| vrecv.is_none()), d, body_mode, st, i)).collect())
            }
            _ => BodyIn::Union(gen_fields_in(w, None, d, Mode::Clean, st, StyleIn::Named, 1)),
        },
    };
    // for FromVariant inner receivers reached through `data`, their own `fields` receiver applies
    let mut e = ElemIn {
        attrs: if matches!(s.tr, Trait::FromField | Trait::FromVariant | Trait::FromTypeParam) { AttrSet::default() } else { attrs },
        vis: d.pick(VISES).to_string(),
        ident: d.pick(&["Foo", "Bar9", "r#Type"]).to_string(),
        generics,
        where_clause,
        body,
    };
    if let (Some(vr), BodyIn::Enum(vs)) = (vrecv, &mut e.body) {
        // the variant receiver's own field receiver converts the variant's fields
        let inner_f = spec_by(w, vr.magic.iter().find(|m| m.name == "fields").and_then(|m| m.field_recv));
        for v in vs.iter_mut() {
            let stl = v.style;
            v.fields = gen_fields_in(w, inner_f, d, body_mode, st, stl, 0);
        }
    }
    e
}
