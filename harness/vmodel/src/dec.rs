//! Decoder helpers over `arbitrary::Unstructured`: the structure-aware front end shared by the
//! proptest strategies (`vec(any::<u8>())`) and the libFuzzer targets. Exhausted input / zero byte
//! always maps to the first (simplest) choice so that shrinking the bytes shrinks the case.

use arbitrary::Unstructured;

pub struct D<'a> {
    pub u: Unstructured<'a>,
}

impl<'a> D<'a> {
    pub fn new(bytes: &'a [u8]) -> Self {
        D {
            u: Unstructured::new(bytes),
        }
    }
    /// 0..n (n >= 1); 0 when exhausted
    pub fn below(&mut self, n: usize) -> usize {
        if n <= 1 {
            return 0;
        }
        self.u.int_in_range(0..=(n - 1)).unwrap_or(0)
    }
    pub fn range(&mut self, lo: usize, hi: usize) -> usize {
        lo + self.below(hi - lo + 1)
    }
    pub fn bool(&mut self) -> bool {
        self.below(2) == 1
    }
    /// true with probability about num/den; false when exhausted
    pub fn ratio(&mut self, num: usize, den: usize) -> bool {
        let v = self.below(den);
        // map so that 0 -> false
        v > 0 && v <= num
    }
    pub fn pick<'b, T>(&mut self, xs: &'b [T]) -> &'b T {
        &xs[self.below(xs.len())]
    }
    pub fn byte(&mut self) -> u8 {
        self.u.arbitrary::<u8>().unwrap_or(0)
    }
    pub fn u64(&mut self) -> u64 {
        self.u.arbitrary::<u64>().unwrap_or(0)
    }
    pub fn u128(&mut self) -> u128 {
        self.u.arbitrary::<u128>().unwrap_or(0)
    }
    pub fn is_empty(&self) -> bool {
        self.u.is_empty()
    }
    /// a weighted choice: returns the index; weights need not be normalised
    pub fn weighted(&mut self, weights: &[usize]) -> usize {
        let total: usize = weights.iter().sum();
        let mut v = self.below(total.max(1));
        for (i, w) in weights.iter().enumerate() {
            if v < *w {
                return i;
            }
            v -= *w;
        }
        0
    }
    pub fn ident(&mut self, pool: &[&str]) -> String {
        self.pick(pool).to_string()
    }
}
