//! The value domain shared by the reference model and the generated receivers, the `Observe`
//! trait turning parsed values into it, and the *tagged library*: the user-supplied callables
//! (defaults, map / and_then / with functions) whose effect the model knows exactly.

use serde::{Deserialize, Serialize};

#[derive(Clone, Debug, Serialize, Deserialize, PartialEq, Eq, Hash)]
pub enum Val {
    Unit,
    Bool(bool),
    Int(i64),
    Str(String),
    Char(char),
    Tokens(String),
    None,
    Some(Box<Val>),
    List(Vec<Val>),
    /// sorted by key
    Map(Vec<(String, Val)>),
    Struct(String, Vec<(String, Val)>),
    /// enum name, variant name, fields ("0" for a newtype)
    Variant(String, String, Vec<(String, Val)>),
    Flag(bool),
    Inherit,
    Explicit(Box<Val>),
    Spanned(Box<Val>, (usize, usize)),
    /// forwarded / magic syntax, printed canonically
    Syntax(String),
}

pub trait Observe {
    fn observe(&self) -> Val;
}

impl Observe for () {
    fn observe(&self) -> Val {
        Val::Unit
    }
}
impl Observe for bool {
    fn observe(&self) -> Val {
        Val::Bool(*self)
    }
}
impl Observe for u8 {
    fn observe(&self) -> Val {
        Val::Int(*self as i64)
    }
}
impl Observe for u16 {
    fn observe(&self) -> Val {
        Val::Int(*self as i64)
    }
}
impl Observe for i64 {
    fn observe(&self) -> Val {
        Val::Int(*self)
    }
}
impl Observe for String {
    fn observe(&self) -> Val {
        Val::Str(self.clone())
    }
}
impl Observe for char {
    fn observe(&self) -> Val {
        Val::Char(*self)
    }
}
impl Observe for darling::util::Flag {
    fn observe(&self) -> Val {
        Val::Flag(self.is_present())
    }
}
impl<T: Observe> Observe for Option<T> {
    fn observe(&self) -> Val {
        match self {
            Some(x) => Val::Some(Box::new(x.observe())),
            None => Val::None,
        }
    }
}
impl<T: Observe> Observe for Box<T> {
    fn observe(&self) -> Val {
        (**self).observe()
    }
}
impl<T: Observe> Observe for Vec<T> {
    fn observe(&self) -> Val {
        Val::List(self.iter().map(|x| x.observe()).collect())
    }
}
impl<T: Observe> Observe for std::collections::HashMap<String, T> {
    fn observe(&self) -> Val {
        let mut v: Vec<(String, Val)> = self.iter().map(|(k, v)| (k.clone(), v.observe())).collect();
        v.sort_by(|a, b| a.0.cmp(&b.0));
        Val::Map(v)
    }
}
macro_rules! observe_tokens {
    ($($t:ty),*) => { $( impl Observe for $t { fn observe(&self) -> Val { Val::Tokens(crate::util::canon_tokens(quote::ToTokens::to_token_stream(self))) } } )* };
}
observe_tokens!(syn::Ident, syn::Path, syn::Expr, syn::LitStr, syn::Visibility, syn::Type, syn::Attribute, syn::Meta, syn::TypeParamBound, syn::Field, syn::Variant, syn::TypeParam, syn::LifetimeParam, syn::ConstParam, syn::WhereClause);

fn tok<T: quote::ToTokens>(t: &T) -> Val {
    Val::Tokens(crate::util::canon_tokens(quote::ToTokens::to_token_stream(t)))
}

/// Generics are observed structurally (params in order, each with its kind, then the where-clause),
/// in the same shape for `syn::Generics` and `darling::ast::Generics<..>`.
impl Observe for syn::Generics {
    fn observe(&self) -> Val {
        let params = self
            .params
            .iter()
            .map(|p| match p {
                syn::GenericParam::Type(t) => Val::Variant("GenericParam".into(), "Type".into(), vec![("0".into(), tok(t))]),
                syn::GenericParam::Lifetime(l) => Val::Variant("GenericParam".into(), "Lifetime".into(), vec![("0".into(), tok(l))]),
                syn::GenericParam::Const(c) => Val::Variant("GenericParam".into(), "Const".into(), vec![("0".into(), tok(c))]),
            })
            .collect();
        Val::Struct("Generics".into(), vec![("params".into(), Val::List(params)), ("where".into(), self.where_clause.observe())])
    }
}
impl<T: Observe, L: Observe, C: Observe> Observe for darling::ast::GenericParam<T, L, C> {
    fn observe(&self) -> Val {
        match self {
            darling::ast::GenericParam::Type(t) => Val::Variant("GenericParam".into(), "Type".into(), vec![("0".into(), t.observe())]),
            darling::ast::GenericParam::Lifetime(l) => Val::Variant("GenericParam".into(), "Lifetime".into(), vec![("0".into(), l.observe())]),
            darling::ast::GenericParam::Const(c) => Val::Variant("GenericParam".into(), "Const".into(), vec![("0".into(), c.observe())]),
        }
    }
}
impl<P: Observe, W: Observe> Observe for darling::ast::Generics<P, W> {
    fn observe(&self) -> Val {
        Val::Struct("Generics".into(), vec![("params".into(), self.params.observe()), ("where".into(), self.where_clause.observe())])
    }
}
impl<F: Observe> Observe for darling::ast::Fields<F> {
    fn observe(&self) -> Val {
        let style = match self.style {
            darling::ast::Style::Struct => "named",
            darling::ast::Style::Tuple => "tuple",
            darling::ast::Style::Unit => "unit",
        };
        Val::Struct("Fields".into(), vec![("style".into(), Val::Str(style.into())), ("fields".into(), self.fields.observe())])
    }
}
impl<V: Observe, F: Observe> Observe for darling::ast::Data<V, F> {
    fn observe(&self) -> Val {
        match self {
            darling::ast::Data::Enum(vs) => Val::Variant("Data".into(), "Enum".into(), vec![("0".into(), vs.observe())]),
            darling::ast::Data::Struct(fs) => Val::Variant("Data".into(), "Struct".into(), vec![("0".into(), fs.observe())]),
        }
    }
}
impl<T: Observe> Observe for darling::Result<T> {
    fn observe(&self) -> Val {
        match self {
            Ok(x) => Val::Variant("Result".into(), "Ok".into(), vec![("0".into(), x.observe())]),
            Err(e) => Val::Variant("Result".into(), "Err".into(), vec![("0".into(), Val::Int(e.len() as i64))]),
        }
    }
}
impl<T: Observe, O: Observe> Observe for darling::util::WithOriginal<T, O> {
    fn observe(&self) -> Val {
        Val::Struct("WithOriginal".into(), vec![("parsed".into(), self.parsed.observe()), ("original".into(), self.original.observe())])
    }
}
impl Observe for darling::util::Ignored {
    fn observe(&self) -> Val {
        Val::Unit
    }
}

/// `#[darling(with = ...)]` converters for forwarded fields.
#[derive(Debug)]
pub struct CountedAttrs(pub Vec<syn::Attribute>);
impl Observe for CountedAttrs {
    fn observe(&self) -> Val {
        Val::Struct("CountedAttrs".into(), vec![("n".into(), Val::Int(self.0.len() as i64)), ("attrs".into(), self.0.observe())])
    }
}
pub fn attrs_with(a: Vec<syn::Attribute>) -> darling::Result<CountedAttrs> {
    Ok(CountedAttrs(a))
}
#[derive(Debug)]
pub struct BodyKind(pub String);
impl Observe for BodyKind {
    fn observe(&self) -> Val {
        Val::Str(self.0.clone())
    }
}
pub fn data_with(d: &syn::Data) -> darling::Result<BodyKind> {
    Ok(BodyKind(
        match d {
            syn::Data::Struct(s) => format!("struct:{}", s.fields.len()),
            syn::Data::Enum(e) => format!("enum:{}", e.variants.len()),
            syn::Data::Union(_) => "union".to_string(),
        },
    ))
}
impl<T: Observe> Observe for darling::util::SpannedValue<T> {
    fn observe(&self) -> Val {
        Val::Spanned(Box::new((**self).observe()), crate::util::range(self.span()))
    }
}
impl<T: Observe> Observe for darling::util::Override<T> {
    fn observe(&self) -> Val {
        match self {
            darling::util::Override::Inherit => Val::Inherit,
            darling::util::Override::Explicit(x) => Val::Explicit(Box::new(x.observe())),
        }
    }
}

// ------------------------------------------------------------------------------------------
// the tagged library

/// Marker values: what defaults return. Never collides with a value the input generators supply
/// (they stay below 50 / use strings starting with `s`).
pub trait Marker: Sized {
    fn marker(seed: u32) -> Self;
}
impl Marker for () {
    fn marker(_: u32) -> Self {}
}
impl Marker for bool {
    fn marker(seed: u32) -> Self {
        seed % 2 == 1
    }
}
impl Marker for u8 {
    fn marker(seed: u32) -> Self {
        100 + (seed % 100) as u8
    }
}
impl Marker for u16 {
    fn marker(seed: u32) -> Self {
        10000 + (seed % 10000) as u16
    }
}
impl Marker for i64 {
    fn marker(seed: u32) -> Self {
        -1000 - seed as i64
    }
}
impl Marker for String {
    fn marker(seed: u32) -> Self {
        format!("m{}", seed)
    }
}
impl Marker for char {
    fn marker(seed: u32) -> Self {
        (b'A' + (seed % 26) as u8) as char
    }
}
impl Marker for darling::util::Flag {
    fn marker(seed: u32) -> Self {
        if seed % 2 == 1 {
            darling::util::Flag::present()
        } else {
            Default::default()
        }
    }
}
impl<T: Marker> Marker for Option<T> {
    fn marker(seed: u32) -> Self {
        Some(T::marker(seed))
    }
}
impl<T: Marker> Marker for Box<T> {
    fn marker(seed: u32) -> Self {
        Box::new(T::marker(seed))
    }
}
impl<T: Marker> Marker for Vec<T> {
    fn marker(seed: u32) -> Self {
        vec![T::marker(seed), T::marker(seed + 1)]
    }
}
impl<T: Marker> Marker for std::collections::HashMap<String, T> {
    fn marker(seed: u32) -> Self {
        let mut m = std::collections::HashMap::new();
        m.insert(format!("mk{}", seed), T::marker(seed));
        m
    }
}
impl Marker for syn::Ident {
    fn marker(seed: u32) -> Self {
        syn::Ident::new(&format!("mi{}", seed), proc_macro2::Span::call_site())
    }
}
impl Marker for syn::Path {
    fn marker(seed: u32) -> Self {
        syn::parse_str(&format!("mp{}::q", seed)).unwrap()
    }
}
impl Marker for syn::Expr {
    fn marker(seed: u32) -> Self {
        syn::parse_str(&format!("me{} + 1", seed)).unwrap()
    }
}
impl Marker for syn::LitStr {
    fn marker(seed: u32) -> Self {
        syn::LitStr::new(&format!("ml{}", seed), proc_macro2::Span::call_site())
    }
}
impl<T: Marker> Marker for darling::util::SpannedValue<T> {
    fn marker(seed: u32) -> Self {
        darling::util::SpannedValue::new(T::marker(seed), proc_macro2::Span::call_site())
    }
}
impl<T: Marker> Marker for darling::util::Override<T> {
    fn marker(seed: u32) -> Self {
        darling::util::Override::Explicit(T::marker(seed))
    }
}

/// Visible, injective transforms for `map`, `and_then` and `with` on scalar-like values.
pub trait Tag: Sized {
    fn map_tag(self) -> Self;
    fn and_tag(self) -> Self;
    fn with_tag(self) -> Self;
    /// the value `and_then` functions reject (C02 only)
    fn is_sentinel(&self) -> bool;
}
impl Tag for bool {
    fn map_tag(self) -> Self {
        !self
    }
    fn and_tag(self) -> Self {
        !self
    }
    fn with_tag(self) -> Self {
        !self
    }
    fn is_sentinel(&self) -> bool {
        false
    }
}
impl Tag for u8 {
    fn map_tag(self) -> Self {
        self ^ 0x80
    }
    fn and_tag(self) -> Self {
        self ^ 0x40
    }
    fn with_tag(self) -> Self {
        self ^ 0x20
    }
    fn is_sentinel(&self) -> bool {
        *self == 13
    }
}
impl Tag for u16 {
    fn map_tag(self) -> Self {
        self ^ 0x8000
    }
    fn and_tag(self) -> Self {
        self ^ 0x4000
    }
    fn with_tag(self) -> Self {
        self ^ 0x2000
    }
    fn is_sentinel(&self) -> bool {
        *self == 13
    }
}
impl Tag for i64 {
    fn map_tag(self) -> Self {
        self ^ (1 << 40)
    }
    fn and_tag(self) -> Self {
        self ^ (1 << 41)
    }
    fn with_tag(self) -> Self {
        self ^ (1 << 42)
    }
    fn is_sentinel(&self) -> bool {
        *self == 13
    }
}
impl Tag for String {
    fn map_tag(self) -> Self {
        format!("{}~map", self)
    }
    fn and_tag(self) -> Self {
        format!("{}~and", self)
    }
    fn with_tag(self) -> Self {
        format!("{}~with", self)
    }
    fn is_sentinel(&self) -> bool {
        self == "sreject"
    }
}
impl Tag for char {
    fn map_tag(self) -> Self {
        char::from_u32(self as u32 + 0x100).unwrap_or('?')
    }
    fn and_tag(self) -> Self {
        char::from_u32(self as u32 + 0x200).unwrap_or('?')
    }
    fn with_tag(self) -> Self {
        char::from_u32(self as u32 + 0x400).unwrap_or('?')
    }
    fn is_sentinel(&self) -> bool {
        false
    }
}
impl<T: Tag> Tag for Option<T> {
    fn map_tag(self) -> Self {
        self.map(T::map_tag)
    }
    fn and_tag(self) -> Self {
        self.map(T::and_tag)
    }
    fn with_tag(self) -> Self {
        self.map(T::with_tag)
    }
    fn is_sentinel(&self) -> bool {
        self.as_ref().map(|x| x.is_sentinel()).unwrap_or(false)
    }
}
impl<T: Tag> Tag for Box<T> {
    fn map_tag(self) -> Self {
        Box::new((*self).map_tag())
    }
    fn and_tag(self) -> Self {
        Box::new((*self).and_tag())
    }
    fn with_tag(self) -> Self {
        Box::new((*self).with_tag())
    }
    fn is_sentinel(&self) -> bool {
        (**self).is_sentinel()
    }
}

/// `map = vmodel::val::map_fn`
pub fn map_fn<T: Tag>(x: T) -> T {
    x.map_tag()
}
/// `and_then = vmodel::val::and_fn`: rejects the sentinel with a custom message
pub fn and_fn<T: Tag>(x: T) -> darling::Result<T> {
    if x.is_sentinel() {
        Err(darling::Error::custom("and_then rejected the sentinel"))
    } else {
        Ok(x.and_tag())
    }
}
/// `with = vmodel::val::with_fn`: the standard conversion, tagged
pub fn with_fn<T: Tag + darling::FromMeta>(m: &syn::Meta) -> darling::Result<T> {
    T::from_meta(m).map(|x| x.with_tag())
}


/// Values for the *magic* fields of a container-level default (`#[darling(default)]`, `default = path`,
/// `from_ident`) of an element-level receiver: something no input element contains, so that a magic
/// field wrongly filled from the default instead of from the input shows.
pub trait Decoy: Sized {
    fn decoy() -> Self;
}
impl Decoy for syn::Ident {
    fn decoy() -> Self {
        syn::Ident::new("decoy_ident", proc_macro2::Span::call_site())
    }
}
impl<T: Decoy> Decoy for Option<T> {
    fn decoy() -> Self {
        Some(T::decoy())
    }
}
impl Decoy for syn::Visibility {
    fn decoy() -> Self {
        syn::parse_str("pub(in decoy::path)").unwrap()
    }
}
impl Decoy for syn::Type {
    fn decoy() -> Self {
        syn::parse_str("DecoyType<0>").unwrap()
    }
}
impl Decoy for syn::Expr {
    fn decoy() -> Self {
        syn::parse_str("4242 + decoy").unwrap()
    }
}
impl Decoy for Vec<syn::TypeParamBound> {
    fn decoy() -> Self {
        vec![syn::parse_str("DecoyBound").unwrap()]
    }
}
impl Decoy for Vec<syn::Attribute> {
    fn decoy() -> Self {
        use syn::parse::Parser;
        syn::Attribute::parse_outer.parse_str("#[decoy_attr]").unwrap()
    }
}
impl Decoy for syn::Generics {
    fn decoy() -> Self {
        syn::parse_str("<DecoyParam>").unwrap()
    }
}
impl<P> Decoy for darling::ast::Generics<P> {
    fn decoy() -> Self {
        darling::ast::Generics { params: vec![], where_clause: Some(syn::parse_str("where DecoyWhere: Sized").unwrap()) }
    }
}
impl<T: Decoy> Decoy for darling::Result<T> {
    fn decoy() -> Self {
        Ok(T::decoy())
    }
}
impl<T: Decoy> Decoy for darling::util::SpannedValue<T> {
    fn decoy() -> Self {
        darling::util::SpannedValue::new(T::decoy(), proc_macro2::Span::call_site())
    }
}
impl<T: Decoy, O: Decoy> Decoy for darling::util::WithOriginal<T, O> {
    fn decoy() -> Self {
        darling::util::WithOriginal::new(T::decoy(), O::decoy())
    }
}
impl<V, F> Decoy for darling::ast::Data<V, F> {
    fn decoy() -> Self {
        darling::ast::Data::Struct(darling::ast::Fields::new(darling::ast::Style::Tuple, vec![]))
    }
}
impl<F> Decoy for darling::ast::Fields<F> {
    fn decoy() -> Self {
        darling::ast::Fields::new(darling::ast::Style::Tuple, vec![])
    }
}
impl Decoy for CountedAttrs {
    fn decoy() -> Self {
        CountedAttrs(Decoy::decoy())
    }
}
impl Decoy for BodyKind {
    fn decoy() -> Self {
        BodyKind("decoy".to_string())
    }
}
