//! The "suggestions" batch (C17): receivers whose names are deliberately close to each other, with
//! skip, rename, flatten chains to depth 3, nested non-flatten receivers and enums.

use crate::dec::D;
use crate::spec::*;

const WORDS: &[&str] = &["lorem", "loren", "lore", "lorem_ipsum", "ipsum", "ipsun", "dolor", "dolar", "dollar", "color", "colour", "amet", "armet", "sit_amet"];
const VWORDS: &[&str] = &["Alpha", "Alpho", "Alph", "Gamma", "Gamme", "Delta", "Delt", "DeltaFour", "Beta", "Betta"];

fn names(d: &mut D, n: usize, suffix: &str) -> Vec<String> {
    let mut out: Vec<String> = vec![];
    let start = d.below(WORDS.len());
    let mut k = 0;
    while out.len() < n {
        let w = WORDS[(start + k) % WORDS.len()];
        k += 1;
        let nm = format!("{}{}", w, suffix);
        if !out.contains(&nm) {
            out.push(nm);
        }
    }
    out
}

fn opt_field(d: &mut D, name: String) -> Field {
    let ty = d.pick(&[Ty::Opt(Box::new(Ty::U8)), Ty::Flag, Ty::Opt(Box::new(Ty::Str)), Ty::Opt(Box::new(Ty::Bool))]).clone();
    let mut f = Field::plain(&name, ty);
    f.skip = d.ratio(1, 5);
    if d.ratio(1, 8) {
        f.rename = Some(format!("{}_rn", name));
    }
    f
}

fn mk_struct(d: &mut D, id: usize, tr: Trait, suffix: &str, extra: Vec<Field>) -> Spec {
    let n = d.range(2, 4);
    let mut fields: Vec<Field> = names(d, n, suffix).into_iter().map(|nm| opt_field(d, nm)).collect();
    fields.extend(extra);
    let mut c = Container::default();
    if tr != Trait::FromMeta {
        c.attributes = vec!["ata".into()];
    }
    if d.ratio(1, 4) {
        c.rename_all = Some(d.pick(&["camelCase", "PascalCase", "SCREAMING_SNAKE_CASE"]).to_string());
    }
    Spec { id, tr, container: c, body: Body::Struct(fields), magic: vec![], purpose: "c17".into() }
}

pub fn gen_sugg_batch(d: &mut D, families: usize) -> Vec<Spec> {
    let mut specs: Vec<Spec> = vec![];
    for fam in 0..families {
        let sfx = |k: usize| format!("{}", (fam * 4 + k) % 10);
        // an enum with close variant names, some skipped
        let eid = specs.len();
        let nv = d.range(2, 5);
        let start = d.below(VWORDS.len());
        let mut vs = vec![];
        for i in 0..nv {
            let w = VWORDS[(start + i) % VWORDS.len()];
            if !w.is_ascii() {
                continue;
            }
            let shape = if i == 0 {
                VShape::Unit
            } else {
                match d.below(3) {
                    0 => VShape::Unit,
                    1 => VShape::Newtype(Ty::U8),
                    _ => VShape::Struct(names(d, 2, &sfx(3)).into_iter().map(|nm| { let mut f = opt_field(d, format!("v{}", nm)); f.rename = None; f }).collect()),
                }
            };
            vs.push(Variant { rust_name: format!("{}{}", w, eid), rename: None, skip: i > 0 && d.ratio(1, 4), word: false, shape });
        }
        let mut ec = Container::default();
        if d.ratio(1, 3) {
            ec.rename_all = Some(d.pick(&["camelCase", "PascalCase", "lowercase"]).to_string());
        }
        // a skipped variant may answer to the very name of a live one declared after it (it reserves nothing: the live
        // one is selected by that name, and the name stays a candidate for suggestions)
        if d.ratio(1, 3) {
            if let Some(i) = (0..vs.len()).find(|i| vs[*i].skip) {
                if let Some(j) = ((i + 1)..vs.len()).find(|j| !vs[*j].skip) {
                    let name = crate::spec::effective_name(&vs[j].rust_name, &vs[j].rename, &ec.rename_all, true);
                    vs[i].rename = Some(name);
                }
            }
        }
        specs.push(Spec { id: eid, tr: Trait::FromMeta, container: ec, body: Body::Enum(vs), magic: vec![], purpose: "c17-enum".into() });
        // Leaf: nested (non-flatten) receiver
        let lid = specs.len();
        let leaf = mk_struct(d, lid, Trait::FromMeta, &sfx(0), vec![Field::plain(&format!("en{}", lid), Ty::Opt(Box::new(Ty::Recv(eid))))]);
        specs.push(leaf);
        // N: deepest flatten member, holds the nested receiver
        let nid = specs.len();
        let n = mk_struct(d, nid, Trait::FromMeta, &sfx(1), vec![Field::plain(&format!("nest{}", nid), Ty::Opt(Box::new(Ty::Recv(lid))))]);
        specs.push(n);
        // M: flattens N
        let mid = specs.len();
        let mut fl = Field::plain(&format!("inner{}", mid), if d.bool() { Ty::Recv(nid) } else { Ty::Boxed(Box::new(Ty::Recv(nid))) });
        fl.flatten = true;
        let mut m = mk_struct(d, mid, Trait::FromMeta, &sfx(2), vec![fl]);
        // (next to a flatten member `allow_unknown_fields` changes nothing: unknown names still go to the member, and
        // the receiver's own names stay candidates)
        m.container.allow_unknown = d.ratio(1, 3);
        specs.push(m);
        // P: flattens M; FromMeta or element-level
        let pid = specs.len();
        let mut fl = Field::plain(&format!("mid{}", pid), Ty::Recv(mid));
        fl.flatten = true;
        let tr = *d.pick(&[Trait::FromMeta, Trait::FromMeta, Trait::FromDeriveInput, Trait::FromField, Trait::FromAttributes]);
        let mut p = mk_struct(d, pid, tr, &sfx(3), vec![fl]);
        p.container.allow_unknown = d.ratio(1, 3);
        specs.push(p);
    }
    specs
}
