//! C07 part b: every receiver of the crate, on every parseable input, returns Ok or Err - never panics.

use crate::*;
use vmodel::digen;

fn names_of(reg: &Reg, s: &Spec, out: &mut Vec<String>, depth: usize) {
    if depth > 4 {
        return;
    }
    match &s.body {
        Body::Struct(fs) => {
            for f in fs {
                out.push(model::field_name(f, &s.container));
                let mut ids = vec![];
                f.ty.recv_ids(&mut ids);
                for k in ids {
                    if let Some(t) = reg.specs.iter().find(|x| x.id == k) {
                        names_of(reg, t, out, depth + 1);
                    }
                }
            }
        }
        Body::Enum(vs) => {
            for v in vs {
                out.push(model::variant_name(s, v));
            }
        }
    }
    for m in &s.magic {
        for k in m.variant_recv.iter().chain(m.field_recv.iter()) {
            if let Some(t) = reg.specs.iter().find(|x| x.id == *k) {
                names_of(reg, t, out, depth + 1);
            }
        }
    }
}

pub fn check_total(ctx: &Ctx, reg: &Reg, s: &Spec, bytes: &[u8]) -> Result<(), Fail> {
    fresh_spans();
    let mut d = D::new(bytes);
    let mut names = vec![];
    names_of(reg, s, &mut names, 0);
    names.retain(|n| expressible(n));
    let entry = reg.entries.get(&s.id).expect("entry");
    let mut calls = 0u64;
    let mut rejected = false;
    let text;
    let result: Result<(), String> = if s.tr == Trait::FromMeta {
        text = digen::arb_item(&mut d, &names, 0);
        let m: syn::Meta = match syn::parse_str(&text) {
            Ok(m) => m,
            Err(_) => {
                ctx.class("input-not-a-meta");
                return Ok(());
            }
        };
        calls += 1;
        catch(|| {
            let r = (entry.call)(&In::Meta(&m));
            if matches!(r, Some(Err(_))) {
                rejected = true;
            }
            let _ = (entry.from_none)();
        })
    } else {
        // the attribute names the receiver (and its inner receivers) read
        let mut attr_names = s.container.attributes.clone();
        for dsp in enums::deps_closure(reg, s) {
            for a in dsp.container.attributes {
                if !attr_names.contains(&a) {
                    attr_names.push(a);
                }
            }
        }
        if attr_names.is_empty() {
            attr_names.push("ata".into());
        }
        let (t, st) = digen::arb_element(&mut d, &attr_names, &names);
        text = t;
        let di: syn::DeriveInput = match syn::parse_str(&text) {
            Ok(x) => x,
            Err(_) => {
                ctx.class("input-not-an-item");
                return Ok(());
            }
        };
        ctx.class(&format!("shape:{}", st.shape));
        let mut n = 0u64;
        let r = catch(|| {
            let mut note = |r: Option<darling::Result<Val>>| {
                n += 1;
                if matches!(r, Some(Err(_))) {
                    rejected = true;
                }
            };
            match s.tr {
                Trait::FromDeriveInput => note((entry.call)(&In::DeriveInput(&di))),
                Trait::FromAttributes => note((entry.call)(&In::Attrs(&di.attrs))),
                Trait::FromField => {
                    let all: Vec<&syn::Field> = match &di.data {
                        syn::Data::Struct(x) => x.fields.iter().collect(),
                        syn::Data::Enum(e) => e.variants.iter().flat_map(|v| v.fields.iter()).collect(),
                        syn::Data::Union(u) => u.fields.named.iter().collect(),
                    };
                    for f in all {
                        note((entry.call)(&In::Field(f)));
                    }
                }
                Trait::FromVariant => {
                    if let syn::Data::Enum(e) = &di.data {
                        for v in &e.variants {
                            note((entry.call)(&In::Variant(v)));
                        }
                    }
                }
                Trait::FromTypeParam => {
                    for tp in di.generics.type_params() {
                        note((entry.call)(&In::TypeParam(tp)));
                    }
                }
                Trait::FromMeta => unreachable!(),
            }
        });
        calls += n;
        r
    };
    ctx.eval_n(calls.saturating_sub(1));
    ctx.set_render(json!({"receiver": s.name(), "declaration": emit_short(s), "input": text, "specs": enums::deps_closure(reg, s)}));
    if rejected || text.contains("union") || text.contains("999999") || text.contains("a b") {
        ctx.nontrivial(&(s.id, &text));
    }
    ctx.class(if rejected { "outcome:rejected" } else { "outcome:accepted" });
    ctx.class(&format!("trait:{}", s.tr.name()));
    ctx.sample(|| json!({"receiver": emit_short(s), "input": text}));
    if let Err(p) = result {
        fail!(format!("c07:panic:{}", vmodel::util::panic_sig(&p)), "{} panicked on `{}`: {}", emit_short(s), text, p);
    }
    Ok(())
}

pub fn run(args: &Args, reg: &Reg) -> bool {
    let step = args.extra.get("stepname").cloned().unwrap_or_else(|| "receivers".into());
    let ctx = Ctx::new("C07", &step, vmodel::ev::mix_seed(args.seed, "C07", &step, args.shard), args);
    ctx.set_rule("part b: every receiver of the generated crates (C01 option space, magic fields present/absent, supports(..), forward_attrs in all three forms incl. the empty list) x arbitrary parseable inputs: items of every data shape incl. unions and empty enums whose attributes (on the item, fields, variants, type parameters) range from well-formed lists over the receiver's own names with arbitrary values (numbers beyond every width, huge exponents, every literal kind, nesting to depth 64) to bare / name-value forms and token soup; FromMeta receivers get arbitrary meta items and from_none (evaluations = entry-point calls); oracle: the call returns (a panic hook records the message). Non-trivial: the input is rejected, or contains a union / oversized number / non-meta attribute body");
    let targets: Vec<&Spec> = reg.specs.iter().collect();
    ctx.class_n("receivers", targets.len() as u64);
    if let Some(path) = &args.replay {
        let (_, case) = vmodel::ev::load_replay_case(path);
        let id = case["receiver"].as_u64().expect("receiver id") as usize;
        let bytes: Vec<u8> = serde_json::from_value(case["bytes"].clone()).expect("bytes");
        let s = reg.specs.iter().find(|s| s.id == id).expect("receiver in crate");
        let ok = run_list(&ctx, vec![bytes], |c, b| check_total(c, reg, s, b));
        ctx.finish();
        return ok;
    }
    let per = ((args.cases as usize) / targets.len().max(1)).max(1) as u32;
    let mut ok = true;
    for s in targets {
        let strat = prop::collection::vec(any::<u8>(), 0..512).prop_map(|b| Case { receiver: s.id, bytes: b });
        ok &= run_prop(&ctx, per, strat, |c, case| check_total(c, reg, s, &case.bytes));
        if !ok && ctx.n_violations() >= 4 {
            break;
        }
    }
    ctx.finish();
    ok
}
