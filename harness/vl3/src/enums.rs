//! C09: derived enum receivers select exactly one declared, non-skipped variant. For every enum of
//! the batch the (form, name) space over a closed name alphabet is enumerated completely.

use crate::*;
use vmodel::input::{Syn, LK};

const RULES: &[&str] = &["lowercase", "PascalCase", "camelCase", "snake_case", "SCREAMING_SNAKE_CASE", "kebab-case"];

/// Every name that could plausibly be confused with a variant of this enum.
pub fn alphabet(s: &Spec) -> Vec<(String, &'static str)> {
    let vs = match &s.body {
        Body::Enum(v) => v,
        _ => unreachable!(),
    };
    let mut out: Vec<(String, &'static str)> = vec![];
    let mut push = |n: String, class: &'static str, out: &mut Vec<(String, &'static str)>| {
        if expressible(&n) && !out.iter().any(|(x, _)| *x == n) {
            out.push((n, class));
        }
    };
    for v in vs {
        let eff = model::variant_name(s, v);
        push(eff.clone(), if v.skip { "skipped-variant" } else { "effective" }, &mut out);
    }
    for v in vs {
        push(v.rust_name.clone(), "rust-name", &mut out);
        for r in RULES {
            push(effective_name(&v.rust_name, &None, &Some(r.to_string()), true), "other-case-rule", &mut out);
        }
        let eff = model::variant_name(s, v);
        // a longer path that merely ends (or starts) with the name is another name
        push(format!("x::{}", eff), "path-around-name", &mut out);
        push(format!("{}::x", eff), "path-around-name", &mut out);
        push(format!("{}x", eff), "neighbour", &mut out);
        if eff.len() > 1 {
            push(eff[..eff.len() - 1].to_string(), "neighbour", &mut out);
        }
    }
    push("nope".into(), "unrelated", &mut out);
    out
}

pub struct ECase {
    pub syn: Syn,
    pub class: String,
    pub nontrivial: bool,
}

pub fn enumerate(w: &World, s: &Spec, d: &mut D) -> Vec<ECase> {
    let vs = match &s.body {
        Body::Enum(v) => v,
        _ => unreachable!(),
    };
    let mut out = vec![];
    let mut add = |syn: Syn, class: &str, nt: bool, out: &mut Vec<ECase>| out.push(ECase { syn, class: class.to_string(), nontrivial: nt });
    add(Syn::Word, "form:word", false, &mut out);
    add(Syn::List(vec![]), "form:list-0", true, &mut out);
    add(Syn::Lit("5".into(), LK::Int(5)), "form:name-value-int", false, &mut out);
    add(Syn::Lit("true".into(), LK::Bool(true)), "form:name-value-bool", false, &mut out);
    add(Syn::Lit("'c'".into(), LK::Char('c')), "form:name-value-char", false, &mut out);
    add(Syn::Lit("1.5".into(), LK::Float), "form:name-value-float", false, &mut out);
    add(Syn::Expr("a + b".into(), "binary".into()), "form:name-value-expr", false, &mut out);
    add(Syn::List(vec![Node::Lit("\"lit\"".into(), LK::Str("lit".into()))]), "form:list-literal", false, &mut out);
    let names = alphabet(s);
    for (n, class) in &names {
        let hard = *class == "skipped-variant" || *class == "other-case-rule" || *class == "rust-name" || *class == "path-around-name";
        add(Syn::Lit(format!("{:?}", n), LK::Str(n.clone())), &format!("string:{}", class), hard, &mut out);
        add(Syn::Expr(n.clone(), "path".into()), &format!("path-expr:{}", class), false, &mut out);
        add(Syn::List(vec![Node::Item(n.clone(), Syn::Word)]), &format!("list-word:{}", class), hard, &mut out);
        // the name as a lone string literal inside the list: a literal is not an item, whatever it spells
        add(Syn::List(vec![Node::Lit(format!("{:?}", n), LK::Str(n.clone()))]), &format!("list-string-literal:{}", class), true, &mut out);
        add(Syn::List(vec![Node::Item(n.clone(), Syn::Lit("7".into(), LK::Int(7)))]), &format!("list-nv:{}", class), hard, &mut out);
        add(Syn::List(vec![Node::Item(n.clone(), Syn::List(vec![]))]), &format!("list-list:{}", class), true, &mut out);
        add(Syn::List(vec![Node::Item(n.clone(), Syn::Word), Node::Item(n.clone(), Syn::Word)]), &format!("list-2:{}", class), true, &mut out);
        add(
            Syn::List(vec![Node::Item(n.clone(), Syn::Word), Node::Item("nope".into(), Syn::Word), Node::Lit("1".into(), LK::Int(1))]),
            &format!("list-3:{}", class),
            true,
            &mut out,
        );
    }
    // values generated for the variant's own shape (good and with mistakes inside)
    for v in vs.iter() {
        let name = model::variant_name(s, v);
        if !expressible(&name) {
            continue;
        }
        if let VShape::Struct(_) = &v.shape {
            // a struct variant is a struct receiver: whatever its field list, it rejects names it does not
            // declare, literal items, and non-list forms
            let cls = if v.skip { "struct-variant:skipped" } else { "struct-variant:foreign-items" };
            add(Syn::List(vec![Node::Item(name.clone(), Syn::List(vec![Node::Item("zzunk".into(), Syn::Lit("3".into(), LK::Int(3)))]))]), cls, true, &mut out);
            add(Syn::List(vec![Node::Item(name.clone(), Syn::List(vec![Node::Lit("\"stray\"".into(), LK::Str("stray".into()))]))]), cls, true, &mut out);
            add(
                Syn::List(vec![Node::Item(
                    name.clone(),
                    Syn::List(vec![Node::Item("zza".into(), Syn::Word), Node::Item("zzb".into(), Syn::List(vec![Node::Item("d".into(), Syn::Word)]))]),
                )]),
                cls,
                true,
                &mut out,
            );
        }
        for k in 0..4 {
            let mut st = InputStats::default();
            match &v.shape {
                VShape::Unit => {}
                VShape::Newtype(t) => {
                    let val = if k % 2 == 0 { gen::good_value(w, t, d, 1, &mut st) } else { gen::bad_value(t, d).unwrap_or(Syn::Word) };
                    add(Syn::List(vec![Node::Item(name.clone(), val)]), if v.skip { "newtype:skipped" } else { "newtype:value" }, true, &mut out);
                }
                VShape::Struct(fs) => {
                    let pseudo = Container { rename_all: s.container.rename_all.clone(), allow_unknown: s.container.allow_unknown, ..Default::default() };
                    let mode = if k % 2 == 0 { Mode::Clean } else { Mode::Mistakes(3) };
                    let items = gen::gen_field_items(w, fs, &pseudo, d, mode, 2, &mut st);
                    add(Syn::List(vec![Node::Item(name.clone(), Syn::List(items))]), if v.skip { "struct-variant:skipped" } else { "struct-variant:fields" }, true, &mut out);
                    // a struct variant is parsed as a struct receiver: names it does not know are ignored where the enum
                    // allows unknown fields (whatever the variant's own options), and reported where it does not
                    if k == 0 {
                        let mut items = gen::gen_field_items(w, fs, &pseudo, d, Mode::Clean, 2, &mut st);
                        let at = d.below(items.len() + 1);
                        let extra = match d.below(3) {
                            0 => Syn::Word,
                            1 => Syn::List(vec![Node::Item("deeper".into(), Syn::Word)]),
                            _ => Syn::List(vec![]),
                        };
                        items.insert(at, Node::Item("zz_unheard_of".into(), extra));
                        add(Syn::List(vec![Node::Item(name.clone(), Syn::List(items))]), if s.container.allow_unknown { "struct-variant:unknown-name-allowed" } else { "struct-variant:unknown-name" }, true, &mut out);
                    }
                }
            }
        }
    }
    out
}

pub fn check_enum_case(ctx: &Ctx, reg: &Reg, s: &Spec, c: &ECase, spans_only: bool) -> Result<(), Fail> {
    fresh_spans();
    let w = reg.world();
    // the enum is the root: `r`, `r = ..` or `r(..)`
    let node = Node::Item("r".into(), c.syn.clone());
    let mut text = String::new();
    let mut side = Side::default();
    vmodel::input::render_node(&node, &mut vec![], &mut text, &mut side);
    ctx.set_render(json!({"receiver": s.name(), "input": text, "spec": s}));
    let vr = |p: &[usize]| {
        let n = side.get(p).cloned().unwrap_or_default();
        (n.item, n.name, n.value)
    };
    let want = model::conv(&w, &Ty::Recv(s.id), &c.syn, &[], &vr);
    let entry = reg.entries.get(&s.id).expect("entry");
    let got = call_entry(entry, s, &text)?;
    ctx.class(&c.class);
    if c.nontrivial {
        ctx.nontrivial(&(s.id, &text));
    }
    ctx.sample(|| json!({"enum": emit_short(s), "input": text, "model": format!("{:?}", want).chars().take(200).collect::<String>()}));
    let root = (0, text.len());
    match (&want, &got) {
        (Ok(w), Ok(g)) => {
            if !spans_only {
                ensure!(w == g, "c09:wrong-variant", "{} on `{}` produced {:?}, model {:?}", emit_short(s), text, g, w);
            }
        }
        (Err(l), Ok(g)) => {
            if !spans_only {
                // which rule was bypassed
                let vs = match &s.body {
                    Body::Enum(v) => v,
                    _ => unreachable!(),
                };
                let produced = match g {
                    Val::Variant(_, v, _) => v.clone(),
                    _ => String::new(),
                };
                let skipped = vs.iter().any(|v| v.rust_name == produced && v.skip);
                let both = vs.iter().any(|v| v.rust_name == produced && v.skip && v.word);
                let sig = if both && c.syn == Syn::Word {
                    "c09:skip+word-variant-produced-by-bare-word".to_string()
                } else if skipped {
                    "c09:skipped-variant-produced".to_string()
                } else {
                    format!("c09:silently-chosen:{:?}", l[0].kind)
                };
                fail!(sig, "{} on `{}` produced {:?} although the model expects {:?}", emit_short(s), text, g, l);
            }
        }
        (Ok(w), Err(e)) => {
            if !spans_only {
                fail!(format!("c09:rejected:{:?}", observed_leaves(e).first().map(|l| l.kind).unwrap_or(K::Custom)), "{} on `{}` failed with `{}`, model {:?}", emit_short(s), text, e, w);
            }
        }
        (Err(l), Err(e)) => {
            let got = observed_leaves(e);
            match leaves_match(l, &got) {
                Ok(()) => {
                    if spans_only {
                        let o = Outcome { text: text.clone(), side: side.clone(), want: Err(l.clone()), got: Err(e.clone()), root };
                        check_spans(&o, l, &got)?;
                        check_rendering(e)?;
                    }
                }
                Err(why) => {
                    if !spans_only {
                        fail!(
                            format!("c09:error:{}", mismatch_sig(l, &got)),
                            "{} on `{}`: {}\n  reported: {:?}\n  model: {:?}",
                            emit_short(s),
                            text,
                            why,
                            got.iter().map(|g| g.display.clone()).collect::<Vec<_>>(),
                            l
                        );
                    }
                }
            }
        }
    }
    Ok(())
}

pub fn run(args: &Args, reg: &Reg) -> bool {
    let spans_only = args.sub == "c03-enums";
    let (prop, step) = if spans_only { ("C03", "enums") } else { ("C09", "enums") };
    let ctx = Ctx::new(prop, step, vmodel::ev::mix_seed(args.seed, prop, step, args.shard), args);
    if spans_only {
        ctx.set_rule("the failing inputs of the C09 enumeration whose leaves match the model: unknown-variant leaves inside the nested item, string/value mistakes inside the value, item-count and format mistakes inside the enum item");
    } else {
        ctx.set_rule("every FromMeta enum of the generated batch (unit / newtype / struct variants with rename, rename_all x 6 rules, skip, word, from_word, from_none, allow_unknown_fields) x the complete (form, name) space over a closed alphabet: effective names, Rust names, the names under all six case rules, skipped variants' names, one-edit neighbours, an unrelated name; forms: bare word, string, other literal kinds, path expression, list of 0/1/2/3 items with word / name-value / list payloads, literal item, plus generated good and faulty payloads for every newtype and struct variant; from_none; oracle = enum part of the reference model. Non-trivial: names a skipped variant, a Rust name or a name under another case rule, item count != 1, or a payload");
    }
    let w = reg.world();
    let enums: Vec<&Spec> = reg.specs.iter().filter(|s| matches!(s.body, Body::Enum(_)) && s.tr == Trait::FromMeta).collect();
    ctx.class_n("enums", enums.len() as u64);
    let mut ok = true;
    let only: Option<usize> = args.replay.as_ref().map(|p| vmodel::ev::load_replay_case(p).1["receiver"].as_u64().unwrap_or(0) as usize);
    for s in enums {
        if let Some(id) = only {
            if s.id != id {
                continue;
            }
        }
        let bytes = vmodel::ev::seed_bytes(vmodel::ev::hash64(&(ctx.seed, s.id)));
        let mut long = vec![];
        for k in 0..64u64 {
            long.extend_from_slice(&vmodel::ev::seed_bytes(vmodel::ev::hash64(&(ctx.seed, s.id, k))));
        }
        let _ = bytes;
        let mut d = D::new(&long);
        let cases = enumerate(&w, s, &mut d);
        for c in &cases {
            ctx.eval();
            if let Err(f) = ctx.filter(check_enum_case(&ctx, reg, s, c, spans_only)) {
                if ok || ctx.n_violations() < 3 {
                    let mut text = String::new();
                    vmodel::input::render_node(&Node::Item("r".into(), c.syn.clone()), &mut vec![], &mut text, &mut Side::default());
                    ctx.violation(&f, json!({"receiver": s.id, "input": text, "specs": deps_closure(reg, s)}));
                }
                ok = false;
            }
        }
        if !spans_only {
            // the absent form
            ctx.eval();
            let entry = reg.entries.get(&s.id).unwrap();
            let got = (entry.from_none)();
            let want = if s.container.from_none != Call::None { Some(model::marker_recv(&w, s.id, 5000)) } else { None };
            if got != want {
                ctx.violation(&Fail::new("c09:from_none", format!("{}::from_none() = {:?}, model {:?}", emit_short(s), got, want)), json!({"receiver": s.id, "input": "<absent>", "specs": deps_closure(reg, s)}));
                ok = false;
            }
        }
    }
    ctx.set_exhaustive(true);
    ctx.finish();
    ok
}

/// The receiver and everything it depends on (what a replay needs to rebuild a one-receiver crate).
pub fn deps_closure(reg: &Reg, s: &Spec) -> Vec<Spec> {
    let mut ids = vec![s.id];
    let mut i = 0;
    while i < ids.len() {
        let sp = reg.specs.iter().find(|x| x.id == ids[i]).unwrap();
        for d in sp.deps() {
            if !ids.contains(&d) {
                ids.push(d);
            }
        }
        i += 1;
    }
    ids.sort();
    ids.iter().map(|id| reg.specs.iter().find(|x| x.id == *id).unwrap().clone()).collect()
}
