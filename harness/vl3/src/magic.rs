//! C16 (magic fields and body conversion), the forwarding half of C08 and C18 part b: element-level
//! receivers from the "magic" batch run on generated input elements.

use crate::*;
use vmodel::elem::{self, BodyIn, ElemIn, GParam};
use vmodel::gen_elem;

pub struct ElemOutcome {
    pub text: String,
    pub want: Result<Val, Vec<Leaf>>,
    pub got: Result<Val, darling::Error>,
    pub side: Side,
}

pub fn run_elem(reg: &Reg, s: &Spec, e: &ElemIn) -> Result<ElemOutcome, Fail> {
    let w = reg.world();
    let r = elem::render_elem(e);
    let side = r.side.clone();
    let vr = |p: &[usize]| {
        let n = side.get(p).cloned().unwrap_or_default();
        (n.item, n.name, n.value)
    };
    let want = match s.tr {
        Trait::FromDeriveInput | Trait::FromAttributes => elem::eval_derive_input(&w, s, e, &vr),
        Trait::FromField => match &e.body {
            BodyIn::Struct(_, fs) => elem::eval_field_recv(&w, s, &fs[0], elem::P_FIELD, &vr),
            _ => unreachable!(),
        },
        Trait::FromVariant => match &e.body {
            BodyIn::Enum(vs) => elem::eval_variant_recv(&w, s, &vs[0], 0, &vr),
            _ => unreachable!(),
        },
        Trait::FromTypeParam => {
            let (i, tp) = e
                .generics
                .iter()
                .enumerate()
                .find_map(|(i, g)| if let GParam::Type(t) = g { Some((i, t)) } else { None })
                .expect("type param");
            elem::eval_tparam_recv(&w, s, tp, Some(elem::P_TPARAM + i), &vr)
        }
        Trait::FromMeta => unreachable!(),
    };
    let entry = reg.entries.get(&s.id).expect("entry");
    let got = call_entry(entry, s, &r.text)?;
    Ok(ElemOutcome { text: r.text, want, got, side: r.side })
}

pub fn check_elem_case(ctx: &Ctx, reg: &Reg, s: &Spec, bytes: &[u8], prop: &str) -> Result<(), Fail> {
    fresh_spans();
    let w = reg.world();
    let mut d = D::new(bytes);
    let mut st = InputStats::default();
    let (mode, body_mode) = match prop {
        "c16" => (if d.ratio(1, 5) { Mode::Mistakes(2) } else { Mode::Clean }, if d.ratio(1, 2) { Mode::Mistakes(3) } else { Mode::Clean }),
        _ => (Mode::Clean, Mode::Clean),
    };
    let e = gen_elem::gen_elem(&w, s, &mut d, mode, body_mode, &mut st);
    let o = run_elem(reg, s, &e)?;
    ctx.set_render(json!({"receiver": s.name(), "declaration": emit_short(s), "input": o.text, "specs": enums::deps_closure(reg, s)}));
    let entries = match &e.body {
        BodyIn::Struct(_, fs) => fs.len(),
        BodyIn::Enum(vs) => vs.len(),
        BodyIn::Union(_) => 0,
    };
    ctx.class(&format!("trait:{}", s.tr.name()));
    ctx.class(match &e.body {
        BodyIn::Struct(st, _) => match st {
            elem::StyleIn::Named => "body:struct-named",
            elem::StyleIn::Tuple => "body:struct-tuple",
            elem::StyleIn::Unit => "body:struct-unit",
        },
        BodyIn::Enum(_) => "body:enum",
        BodyIn::Union(_) => "body:union",
    });
    if !e.generics.is_empty() {
        ctx.class("generics:non-empty");
    }
    if e.where_clause.is_some() {
        ctx.class("generics:where-clause");
        if e.generics.is_empty() {
            ctx.class("generics:where-clause-without-params");
        }
    }
    if o.want.is_err() {
        ctx.class("model:fails");
    }
    if entries >= 2 || o.want.is_err() || e.where_clause.is_some() {
        ctx.nontrivial(&(s.id, &o.text));
    }
    ctx.sample(|| json!({"receiver": emit_short(s), "input": o.text, "model": format!("{:?}", o.want).chars().take(400).collect::<String>()}));
    // "unchanged" is structural: the plain magic fields equal the input's parts under syn's own equality, also when
    // the element's types and expressions sit in invisible groups (token printing cannot tell those apart)
    if prop == "c16" && o.got.is_ok() {
        let entry = reg.entries.get(&s.id).expect("entry");
        let bad = exact_entry(entry, s, &o.text)?;
        if let Some((name, grouped)) = bad.first() {
            fail!(
                format!("c16:not-identical:{}", name),
                "{} on `{}`{}: magic field `{}` is not structurally identical to the input's part",
                emit_short(s),
                o.text,
                if *grouped { " (types / expressions wrapped in invisible groups)" } else { "" },
                name
            );
        }
        ctx.class("exact:structural-comparison");
    }
    match (&o.want, &o.got) {
        (Ok(w), Ok(g)) => {
            let (w2, g2) = (erase_spans(w), erase_spans(g));
            if w2 != g2 {
                let which = diff_field(&w2, &g2);
                fail!(
                    format!("c16:value-differs:{}", which.0.trim_end_matches(char::is_numeric)),
                    "{} on `{}`: `{}` differs\n  derived: {:?}\n  model:   {:?}",
                    emit_short(s),
                    o.text,
                    which.0,
                    g2,
                    w2
                );
            }
        }
        (Ok(w), Err(e)) => fail!(
            format!("c16:rejected:{:?}", observed_leaves(e).first().map(|l| l.kind).unwrap_or(K::Custom)),
            "{} rejects `{}` with `{}`; model {:?}",
            emit_short(s),
            o.text,
            e,
            w
        ),
        (Err(l), Ok(g)) => fail!(format!("c16:accepted:{:?}", l[0].kind), "{} accepts `{}` although the model expects {:?}; value {:?}", emit_short(s), o.text, l, g),
        (Err(l), Err(e)) => {
            let got = observed_leaves(e);
            if let Err(why) = leaves_match(l, &got) {
                fail!(
                    format!("c16:leaves:{}", mismatch_sig(l, &got)),
                    "{} on `{}`: {}\n  reported: {:?}\n  model: {:?}",
                    emit_short(s),
                    o.text,
                    why,
                    got.iter().map(|g| g.display.clone()).collect::<Vec<_>>(),
                    l.iter().map(|x| format!("{:?} `{}` at {}", x.kind, x.subject, x.path.join("/"))).collect::<Vec<_>>()
                );
            }
            ensure!(e.len() == l.len(), "c16:len", "len() {} for {} leaves", e.len(), l.len());
            if prop == "c03-body" {
                let oo = Outcome { text: o.text.clone(), side: o.side.clone(), want: Err(l.clone()), got: Err(e.clone()), root: (0, o.text.len()) };
                check_spans(&oo, l, &got)?;
                check_rendering(e)?;
            }
        }
    }
    Ok(())
}

pub fn run(args: &Args, reg: &Reg) -> bool {
    let (prop, step, rule) = match args.sub.as_str() {
        "c16" => ("C16", "magic", "element-level receivers declaring every subset of their trait's magic fields (FromDeriveInput 32, FromField 16, FromVariant 16, FromTypeParam 16, FromAttributes 2 subsets; generics plain / ast::Generics<GenericParam<inner receiver>> / Result / SpannedValue / WithOriginal; attrs plain or `with`; data / fields over (), syn types and inner FromVariant / FromField receivers; supports(..); 0..2 ordinary fields) on generated input elements: every struct style with 0..4 fields, enums with 0..4 variants of mixed style and discriminants, unions, generics with lifetimes / types / consts / where-clauses / attributed type params, every visibility form, foreign attributes; body attributes with injected mistakes; oracle: magic fields token-equal to the input parts, data/fields of the same kind and style with one entry per field/variant in order, failure iff an entry fails or union, one leaf per failing entry located by field name. Non-trivial: >=2 body entries, a failing case, or generics with a where-clause"),
        "c02-body" => ("C02", "body", "receivers of the magic batch whose `data` / `fields` members are converted by inner FromVariant / FromField receivers (and whose generics by inner FromTypeParam receivers): mistakes injected into the attributes of body fields and variants (missing attribute, unknown / repeated names, bad values) while the element's own attribute layer is clean or not; oracle: the attribute layer is reported alone when it has mistakes, otherwise one leaf per mistake in the body layer, named fields located by their name, a variant's own attributes before its fields; len() == leaf count"),
        "c18-body" => ("C18", "body", "receivers of the magic batch reading the body through `ast::Data<inner FromVariant receiver, inner FromField receiver>` where the inner receivers declare their own `supports(..)`: elements whose body has 0..4 variants / fields of mixed style, several of them non-conforming at once; oracle: failure iff an entry does not conform (or carries another mistake), exactly one leaf per non-conforming variant, located, in source order; len() == leaf count. Non-trivial: >=2 body entries or a failing case"),
        "c08-forward" => ("C08", "forward", "receivers of the magic batch that declare an `attrs` field (forward_attrs bare or a list of names incl. multi-segment ones, plain or through a `with` converter, on every element-level trait, also as inner body receivers) on generated elements with 0..3 foreign attributes before and after the receiver's own attribute: the forwarded vector equals, token for token and in order, the input attributes selected by the declaration (all non-consumed ones when bare); everything else about the value is unaffected"),
        _ => ("C03", "body", "failing cases of the C16 generator: leaves inside body attributes spanned inside their item; body fields lacking the attribute and whole-element verdicts may be unspanned"),
    };
    let ctx = Ctx::new(prop, step, vmodel::ev::mix_seed(args.seed, prop, step, args.shard), args);
    ctx.set_rule(rule);
    let sub = if args.sub == "c03-body" { "c03-body" } else { "c16" };
    let fwd_only = args.sub == "c08-forward";
    let targets: Vec<&Spec> = reg
        .specs
        .iter()
        .filter(|s| s.purpose.starts_with("c16"))
        .filter(|s| !fwd_only || s.magic.iter().any(|m| m.name == "attrs"))
        .filter(|s| {
            (args.sub != "c02-body" && args.sub != "c18-body")
                || s.magic.iter().any(|m| {
                    let inner = |r: Option<usize>| r.map(|x| x != usize::MAX).unwrap_or(false);
                    inner(m.field_recv) || inner(m.variant_recv)
                })
        })
        .collect();
    ctx.class_n("receivers", targets.len() as u64);
    if let Some(path) = &args.replay {
        let (_, case) = vmodel::ev::load_replay_case(path);
        let id = case["receiver"].as_u64().expect("receiver id") as usize;
        let bytes: Vec<u8> = serde_json::from_value(case["bytes"].clone()).expect("bytes");
        let s = reg.specs.iter().find(|s| s.id == id).expect("receiver in crate");
        let ok = run_list(&ctx, vec![bytes], |c, b| check_elem_case(c, reg, s, b, sub));
        ctx.finish();
        return ok;
    }
    let per = ((args.cases as usize) / targets.len().max(1)).max(1) as u32;
    let mut ok = true;
    for s in targets {
        let strat = prop::collection::vec(any::<u8>(), 0..512).prop_map(|b| Case { receiver: s.id, bytes: b });
        ok &= run_prop(&ctx, per, strat, |c, case| check_elem_case(c, reg, s, &case.bytes, sub));
        if !ok && ctx.n_violations() >= 3 {
            break;
        }
    }
    ctx.finish();
    ok
}
