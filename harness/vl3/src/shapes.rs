//! C18 part b: derived receivers declaring `supports(..)` on every body shape.

use crate::*;
use darling::util::{Shape, ShapeSet};
use vmodel::elem::{self, AttrSet, BodyIn, ElemIn, FieldIn, StyleIn, VariantIn};

fn fields(n: usize, named: bool) -> Vec<FieldIn> {
    (0..n).map(|j| FieldIn { attrs: AttrSet::default(), vis: String::new(), name: if named { Some(format!("f{}", j)) } else { None }, ty: "u8".into() }).collect()
}

/// (style, field count) of the four variant styles
const VSTYLES: [(StyleIn, usize); 4] = [(StyleIn::Unit, 0), (StyleIn::Tuple, 1), (StyleIn::Tuple, 2), (StyleIn::Named, 1)];

pub fn all_bodies() -> Vec<BodyIn> {
    let mut out = vec![];
    out.push(BodyIn::Struct(StyleIn::Unit, vec![]));
    for n in 0..3 {
        out.push(BodyIn::Struct(StyleIn::Named, fields(n, true)));
    }
    for n in 0..4 {
        out.push(BodyIn::Struct(StyleIn::Tuple, fields(n, false)));
    }
    // all enums of 0..4 variants over the four variant styles: 1 + 4 + 16 + 64 + 256
    for len in 0..=4usize {
        for code in 0..4usize.pow(len as u32) {
            let mut vs = vec![];
            let mut c = code;
            for i in 0..len {
                let (st, n) = VSTYLES[c % 4];
                c /= 4;
                vs.push(VariantIn { attrs: AttrSet::default(), name: format!("V{}", i), style: st, fields: fields(n, st == StyleIn::Named), disc: None });
            }
            out.push(BodyIn::Enum(vs));
        }
    }
    // the other spelling of positional bodies (the renderer writes a trailing comma when the byte sum of the field types is
    // even): `S(u16,)`, `S(u16, u8)`, `S(u16, u8, u8,)` and the same as variants
    for n in 1..4 {
        let mut fs = fields(n, false);
        fs[0].ty = "u16".into();
        out.push(BodyIn::Struct(StyleIn::Tuple, fs.clone()));
        out.push(BodyIn::Enum(vec![
            VariantIn { attrs: AttrSet::default(), name: "V0".into(), style: StyleIn::Tuple, fields: fs, disc: None },
            VariantIn { attrs: AttrSet::default(), name: "V1".into(), style: StyleIn::Unit, fields: vec![], disc: None },
        ]));
    }
    out.push(BodyIn::Enum(vec![VariantIn { attrs: AttrSet::default(), name: "V0".into(), style: StyleIn::Tuple, fields: fields(0, false), disc: None }]));
    out.push(BodyIn::Enum(vec![VariantIn { attrs: AttrSet::default(), name: "V0".into(), style: StyleIn::Named, fields: fields(0, true), disc: Some("7".into()) }]));
    out.push(BodyIn::Union(fields(2, true)));
    out
}

fn shapeset(words: &[String], prefix: &str) -> ShapeSet {
    let mut s = ShapeSet::default();
    for w in words {
        if let Some(x) = w.strip_prefix(prefix) {
            match x {
                "any" => s.insert_all(),
                "named" => s.insert(Shape::Named),
                "newtype" => s.insert(Shape::Newtype),
                "tuple" => s.insert(Shape::Tuple),
                "unit" => s.insert(Shape::Unit),
                _ => {}
            }
        }
    }
    s
}

pub fn check_shape(ctx: &Ctx, reg: &Reg, s: &Spec, body: &BodyIn) -> Result<(), Fail> {
    fresh_spans();
    let e = ElemIn { attrs: AttrSet::default(), vis: String::new(), ident: "Foo".into(), generics: vec![], where_clause: None, body: body.clone() };
    let text = elem::render_elem(&e).text;
    ctx.set_render(json!({"declaration": emit_short(s), "input": text, "specs": [s]}));
    let di: syn::DeriveInput = syn::parse_str(&text).map_err(|e| Fail::new("l3:harness-render", format!("{}: {}", text, e)))?;
    let words: Vec<String> = s.container.supports.clone().unwrap_or_else(|| vec!["any".into()]);
    let entry = reg.entries.get(&s.id).unwrap();
    // expected number of shape errors per the documented table; and the run-time ShapeSet verdict
    let (want, api): (usize, usize) = match s.tr {
        Trait::FromDeriveInput => {
            let want = elem::shape_errors(&words, body);
            let api = if words.iter().any(|w| w == "any") {
                0
            } else {
                match &di.data {
                    syn::Data::Struct(st) => {
                        let set = shapeset(&words, "struct_");
                        if set.is_empty() || set.check(&st.fields).is_err() { 1 } else { 0 }
                    }
                    syn::Data::Enum(en) => {
                        let set = shapeset(&words, "enum_");
                        if set.is_empty() { 1 } else { en.variants.iter().filter(|v| set.check(*v).is_err()).count() }
                    }
                    syn::Data::Union(_) => 1,
                }
            };
            (want, api)
        }
        Trait::FromVariant => match body {
            BodyIn::Enum(vs) if !vs.is_empty() => {
                let v = &vs[0];
                let ok = elem::variant_shape_ok(&words, v.style, v.fields.len());
                let set = shapeset(&words, "");
                let api_ok = match &di.data {
                    syn::Data::Enum(en) => set.check(&en.variants[0]).is_ok(),
                    _ => unreachable!(),
                };
                (if ok { 0 } else { 1 }, if api_ok { 0 } else { 1 })
            }
            _ => return Ok(()),
        },
        _ => unreachable!(),
    };
    ctx.eval();
    ctx.nontrivial(&(s.id, &text));
    ctx.class(match body {
        BodyIn::Struct(..) => "body:struct",
        BodyIn::Enum(_) => "body:enum",
        BodyIn::Union(_) => "body:union",
    });
    let got = call_entry(entry, s, &text)?;
    let n_got = match &got {
        Ok(_) => 0,
        Err(e) => {
            let leaves = observed_leaves(e);
            for l in &leaves {
                ensure!(l.kind == K::Shape, "c18b:wrong-error-kind", "{} on `{}` reports `{}`", emit_short(s), text, l.display);
            }
            leaves.len()
        }
    };
    ensure!(
        n_got == want,
        if want == 0 { "c18b:rejects-conforming".to_string() } else if n_got == 0 { "c18b:accepts-non-conforming".to_string() } else { "c18b:error-count".to_string() },
        "{} on `{}`: {} shape errors, the documented table gives {} ({:?})",
        emit_short(s),
        text,
        n_got,
        want,
        got.as_ref().err().map(|e| e.to_string())
    );
    ensure!(api == want, "c18b:api-vs-table", "ShapeSet gives {} errors for {:?} on `{}`, table {}", api, words, text, want);
    if ctx.frozen() == false {
        ctx.sample(|| json!({"declaration": emit_short(s), "input": text, "shape_errors": want}));
    }
    Ok(())
}

pub fn run(args: &Args, reg: &Reg) -> bool {
    let ctx = Ctx::new("C18", "derived", vmodel::ev::mix_seed(args.seed, "C18", "derived", args.shard), args);
    ctx.set_rule("part b: receivers declaring only supports(..): a covering family of FromDeriveInput word subsets (the empty set, all 11 singletons, all 55 pairs, random larger ones; ALL 2^11 in the thorough tier), all 32 FromVariant subsets and a receiver without supports, x ALL bodies: unit / named{0,1,2} / tuple{0,1,2,3} structs, all 341 enums of 0..4 variants over the four variant styles, odd variants, a union (exhaustive product); oracle: number of shape errors from the documented table (any accepts everything; struct_*/enum_* additive; tuple admits newtype; struct under enum-only words and vice versa one error; one error per non-conforming variant; union one error), and the run-time ShapeSet gives the same verdict");
    let targets: Vec<&Spec> = reg.specs.iter().filter(|s| s.purpose == "c18").collect();
    ctx.class_n("receivers", targets.len() as u64);
    let bodies = all_bodies();
    let mut ok = true;
    let only: Option<(usize, String)> = args.replay.as_ref().map(|p| {
        let c = vmodel::ev::load_replay_case(p).1;
        (c["receiver"].as_u64().unwrap_or(0) as usize, c["input"].as_str().unwrap_or("").to_string())
    });
    for s in targets {
        for b in &bodies {
            if let Some((id, input)) = &only {
                let e = ElemIn { attrs: AttrSet::default(), vis: String::new(), ident: "Foo".into(), generics: vec![], where_clause: None, body: b.clone() };
                if s.id != *id || elem::render_elem(&e).text != *input {
                    continue;
                }
            }
            if let Err(f) = ctx.filter(check_shape(&ctx, reg, s, b)) {
                if ctx.n_violations() < 4 {
                    let e = ElemIn { attrs: AttrSet::default(), vis: String::new(), ident: "Foo".into(), generics: vec![], where_clause: None, body: b.clone() };
                    ctx.violation(&f, json!({"receiver": s.id, "input": elem::render_elem(&e).text, "specs": [s]}));
                }
                ok = false;
            }
        }
    }
    ctx.set_exhaustive(true);
    ctx.finish();
    ok
}
