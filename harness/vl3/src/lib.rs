//! The L3 check logic linked into every generated crate: runs the derived receivers of the
//! registry on generated inputs and compares them with the reference model.

use proptest::prelude::*;
use serde_json::json;
use std::collections::HashMap;
use vmodel::dec::D;
use vmodel::ev::{run_list, run_prop, Args, Ctx, Fail};
use vmodel::gen::{self, InputStats, Mode};
use vmodel::input::{Node, Side};
use vmodel::model::{self, At, Leaf, World, K};
use vmodel::spec::*;
use vmodel::util::{catch, fresh_spans, inside, range};
use vmodel::val::Val;
use vmodel::{ensure, fail};

pub mod enums;
pub mod magic;
pub mod partition;
pub mod shapes;
pub mod sugg;
pub mod total;
pub mod render;
pub use render::*;

pub enum In<'a> {
    Meta(&'a syn::Meta),
    DeriveInput(&'a syn::DeriveInput),
    Field(&'a syn::Field),
    Variant(&'a syn::Variant),
    TypeParam(&'a syn::TypeParam),
    Attrs(&'a [syn::Attribute]),
}

pub struct Entry {
    pub id: usize,
    pub call: fn(&In) -> Option<darling::Result<Val>>,
    pub from_none: fn() -> Option<Val>,
    /// names of the plain magic fields that are not *structurally* identical (syn's PartialEq) to the input's
    /// part; None when the receiver has no such field, the input kind does not match or the conversion failed
    pub exact: fn(&In) -> Option<Vec<&'static str>>,
    /// the same input through a newtype wrapper `struct NW(pub R)` deriving the same trait (FromMeta,
    /// FromDeriveInput, FromAttributes) with a container-level transform; None for the other traits
    pub newtype: fn(&In) -> Option<darling::Result<Val>>,
    /// 0 = no wrapper, 1 = `map`, 2 = `and_then` that accepts, 3 = `and_then` that refuses
    pub newtype_mode: u8,
    /// calls the wrapper's `from_none` (declared through the `from_none` option; counts a hit, returns None)
    pub newtype_none: fn() -> bool,
}

thread_local! {
    static NW_HITS: std::cell::Cell<usize> = std::cell::Cell::new(0);
}
/// called by the callables the newtype wrappers declare
pub fn nw_hit() {
    NW_HITS.with(|h| h.set(h.get() + 1));
}
pub fn nw_take() -> usize {
    NW_HITS.with(|h| h.replace(0))
}

pub struct Reg {
    pub specs: Vec<Spec>,
    pub entries: HashMap<usize, Entry>,
}

impl Reg {
    pub fn world(&self) -> World<'_> {
        World { specs: &self.specs }
    }
}

/// One observed leaf.
#[derive(Clone, Debug)]
pub struct OLeaf {
    pub display: String,
    pub kind: K,
    pub subject: String,
    pub path: Vec<String>,
    pub suggestion: Option<String>,
    pub span: Option<(usize, usize)>,
}

pub fn observed_leaves(e: &darling::Error) -> Vec<OLeaf> {
    e.clone()
        .flatten()
        .into_iter()
        .map(|l| {
            let d = l.to_string();
            let (kind, subject, path, suggestion) = model::parse_leaf(&d);
            OLeaf {
                display: d,
                kind,
                subject,
                path,
                suggestion,
                span: l.explicit_span().map(range),
            }
        })
        .collect()
}

fn key(k: K, subject: &str, path: &[String]) -> (K, String, Vec<String>) {
    // custom messages come from std / user functions: any text
    (k, if k == K::Custom { String::new() } else { subject.to_string() }, path.to_vec())
}

/// Compare model leaves with observed ones as multisets of (kind, subject, path).
pub fn leaves_match(want: &[Leaf], got: &[OLeaf]) -> Result<(), String> {
    let mut w: Vec<_> = want.iter().map(|l| key(l.kind, &l.subject, &l.path)).collect();
    let mut g: Vec<_> = got.iter().map(|l| key(l.kind, &l.subject, &l.path)).collect();
    w.sort();
    g.sort();
    if w == g {
        return Ok(());
    }
    let missing: Vec<_> = w.iter().filter(|x| w.iter().filter(|y| y == x).count() > g.iter().filter(|y| y == x).count()).collect();
    let extra: Vec<_> = g.iter().filter(|x| g.iter().filter(|y| y == x).count() > w.iter().filter(|y| y == x).count()).collect();
    Err(format!("not reported: {:?}; not expected: {:?}", missing, extra))
}

/// Which kind of disagreement (for signatures).
pub fn mismatch_sig(want: &[Leaf], got: &[OLeaf]) -> String {
    let w: Vec<_> = want.iter().map(|l| key(l.kind, &l.subject, &l.path)).collect();
    let g: Vec<_> = got.iter().map(|l| key(l.kind, &l.subject, &l.path)).collect();
    if g.len() < w.len() {
        let lost = w.iter().find(|x| w.iter().filter(|y| y == x).count() > g.iter().filter(|y| y == x).count());
        return format!("lost:{:?}", lost.map(|l| l.0).unwrap_or(K::Custom));
    }
    if g.len() > w.len() {
        let extra = g.iter().find(|x| g.iter().filter(|y| y == x).count() > w.iter().filter(|y| y == x).count());
        return format!("extra:{:?}", extra.map(|l| l.0).unwrap_or(K::Custom));
    }
    // same count: a path or subject differs
    let wk: Vec<_> = w.iter().map(|x| (x.0, x.1.clone())).collect();
    let gk: Vec<_> = g.iter().map(|x| (x.0, x.1.clone())).collect();
    let mut a = wk.clone();
    let mut b = gk.clone();
    a.sort();
    b.sort();
    if a == b {
        "path".to_string()
    } else {
        "kind-or-subject".to_string()
    }
}

pub fn erase_spans(v: &Val) -> Val {
    match v {
        Val::Spanned(x, _) => Val::Spanned(Box::new(erase_spans(x)), (0, 0)),
        Val::Some(x) => Val::Some(Box::new(erase_spans(x))),
        Val::Explicit(x) => Val::Explicit(Box::new(erase_spans(x))),
        Val::List(xs) => Val::List(xs.iter().map(erase_spans).collect()),
        Val::Map(xs) => Val::Map(xs.iter().map(|(k, v)| (k.clone(), erase_spans(v))).collect()),
        Val::Struct(n, xs) => Val::Struct(n.clone(), xs.iter().map(|(k, v)| (k.clone(), erase_spans(v))).collect()),
        Val::Variant(a, b, xs) => Val::Variant(a.clone(), b.clone(), xs.iter().map(|(k, v)| (k.clone(), erase_spans(v))).collect()),
        other => other.clone(),
    }
}

/// Run one receiver on one abstract input; returns (model outcome, observed outcome, rendered input).
pub struct Outcome {
    pub text: String,
    pub side: Side,
    pub want: Result<Val, Vec<Leaf>>,
    pub got: Result<Val, darling::Error>,
    pub root: (usize, usize),
}

pub fn run_case(reg: &Reg, s: &Spec, nodes: &[Node], lay: &Layout) -> Result<Outcome, Fail> {
    let w = reg.world();
    let r = render_input(s, nodes, lay);
    let side = r.side.clone();
    let vr = |p: &[usize]| {
        let n = side.get(p).cloned().unwrap_or_default();
        (n.item, n.name, n.value)
    };
    let flat: Vec<(Vec<usize>, &Node)> = nodes.iter().enumerate().map(|(i, n)| (vec![i], n)).collect();
    let (enclosing, from_ident) = if s.tr == Trait::FromMeta { (At::Item(vec![]), None) } else { (At::Root, Some(r.ident_len)) };
    let want = model::eval_struct(&w, s, &flat, enclosing, from_ident, &vr);
    let entry = reg.entries.get(&s.id).expect("entry");
    let got = call_entry(entry, s, &r.text)?;
    Ok(Outcome { text: r.text, side: r.side, want, got, root: r.root })
}

/// The values of name-value items put inside invisible groups, at every nesting level of the attribute lists (what an
/// attribute written by `macro_rules!` with `$e:expr` fragments looks like). For an element only the contents of its
/// `#[..]` attributes are touched. Values starting with `-` stay as they are (a negative literal is a literal only when
/// written directly).
pub fn group_values(ts: proc_macro2::TokenStream, in_list: bool) -> proc_macro2::TokenStream {
    use proc_macro2::{Delimiter, Group, TokenStream, TokenTree};
    let toks: Vec<TokenTree> = ts.into_iter().collect();
    if !in_list {
        // item level: look for `#` `[ .. ]`
        let mut out = TokenStream::new();
        let mut prev_hash = false;
        for t in toks {
            match t {
                TokenTree::Group(g) if prev_hash && g.delimiter() == Delimiter::Bracket => {
                    let mut ng = Group::new(Delimiter::Bracket, group_values(g.stream(), true));
                    ng.set_span(g.span());
                    out.extend([TokenTree::Group(ng)]);
                    prev_hash = false;
                }
                TokenTree::Group(g) => {
                    let mut ng = Group::new(g.delimiter(), group_values(g.stream(), false));
                    ng.set_span(g.span());
                    out.extend([TokenTree::Group(ng)]);
                    prev_hash = false;
                }
                other => {
                    prev_hash = matches!(&other, TokenTree::Punct(p) if p.as_char() == '#');
                    out.extend([other]);
                }
            }
        }
        return out;
    }
    // list level: segments separated by top-level commas
    let mut out = TokenStream::new();
    let mut seg: Vec<TokenTree> = vec![];
    let mut flush = |seg: &mut Vec<TokenTree>, out: &mut TokenStream| {
        // path tokens, then `=` value | group | nothing
        let eq = seg.iter().position(|t| matches!(t, TokenTree::Punct(p) if p.as_char() == '=' && p.spacing() == proc_macro2::Spacing::Alone));
        let head_is_path = |n: usize| seg[..n].iter().all(|t| matches!(t, TokenTree::Ident(_)) || matches!(t, TokenTree::Punct(p) if p.as_char() == ':'));
        match eq {
            Some(k) if k > 0 && k + 1 < seg.len() && head_is_path(k) && !matches!(&seg[k + 1], TokenTree::Punct(p) if p.as_char() == '-') => {
                let value: TokenStream = seg[k + 1..].iter().cloned().collect();
                out.extend(seg[..=k].iter().cloned());
                out.extend([TokenTree::Group(Group::new(Delimiter::None, value))]);
            }
            _ => {
                let n = seg.len();
                for (i, t) in seg.iter().enumerate() {
                    match t {
                        TokenTree::Group(g) if i + 1 == n && i > 0 && head_is_path(i) && g.delimiter() != Delimiter::None => {
                            let mut ng = Group::new(g.delimiter(), group_values(g.stream(), true));
                            ng.set_span(g.span());
                            out.extend([TokenTree::Group(ng)]);
                        }
                        other => out.extend([other.clone()]),
                    }
                }
            }
        }
        seg.clear();
    };
    for t in toks {
        if matches!(&t, TokenTree::Punct(p) if p.as_char() == ',') {
            flush(&mut seg, &mut out);
            out.extend([t]);
        } else {
            seg.push(t);
        }
    }
    flush(&mut seg, &mut out);
    out
}

/// Parse the rendered text once and hand the right part to the receiver.
pub fn call_entry(entry: &Entry, s: &Spec, text: &str) -> Result<darling::Result<Val>, Fail> {
    call_entry_opt(entry, s, text, false)
}

/// FromAttributes only: the same attribute slice with the attributes selected by `mask` turned into inner-style
/// attributes (`#![..]`, what `syn::ItemMod::attrs` / `syn::File::attrs` hold). Style is no part of selection.
pub fn call_attrs_styled(entry: &Entry, s: &Spec, text: &str, mask: u64) -> Result<darling::Result<Val>, Fail> {
    let mut di: syn::DeriveInput = syn::parse_str(text).map_err(|e| Fail::new("l3:harness-render", format!("`{}` is no item: {}", text, e)))?;
    for (i, a) in di.attrs.iter_mut().enumerate() {
        if mask >> (i % 64) & 1 == 1 {
            a.style = syn::AttrStyle::Inner(Default::default());
        }
    }
    let call = entry.call;
    match catch(|| call(&In::Attrs(&di.attrs))) {
        Ok(Some(r)) => Ok(r),
        Ok(None) => Err(Fail::new("l3:harness-entry", "entry point does not match the receiver's trait")),
        Err(p) => Err(Fail::new(format!("l3:panic:{}", vmodel::util::panic_sig(&p)), format!("receiver R{} panicked on `{}` (inner-style mask {:#x}): {}", s.id, text, mask, p))),
    }
}

pub fn call_entry_opt(entry: &Entry, s: &Spec, text: &str, grouped_values: bool) -> Result<darling::Result<Val>, Fail> {
    call_fn(entry.call, s, text, grouped_values)
}

pub fn call_fn(call: fn(&In) -> Option<darling::Result<Val>>, s: &Spec, text: &str, grouped_values: bool) -> Result<darling::Result<Val>, Fail> {
    let parse_meta = |text: &str| -> Result<syn::Meta, Fail> {
        if grouped_values {
            let ts: proc_macro2::TokenStream = text.parse().map_err(|e| Fail::new("l3:harness-render", format!("`{}` does not lex: {}", text, e)))?;
            // the receiver's own name and parentheses first: `r( items )`
            let mut toks: Vec<proc_macro2::TokenTree> = ts.into_iter().collect();
            if let Some(proc_macro2::TokenTree::Group(g)) = toks.last().cloned() {
                if toks.len() >= 2 && g.delimiter() != proc_macro2::Delimiter::None {
                    let mut ng = proc_macro2::Group::new(g.delimiter(), group_values(g.stream(), true));
                    ng.set_span(g.span());
                    let n = toks.len();
                    toks[n - 1] = proc_macro2::TokenTree::Group(ng);
                }
            }
            syn::parse2(toks.into_iter().collect()).map_err(|e| Fail::new("l3:harness-render", format!("`{}` with grouped values is no meta item: {}", text, e)))
        } else {
            syn::parse_str(text).map_err(|e| Fail::new("l3:harness-render", format!("`{}` is no meta item: {}", text, e)))
        }
    };
    let parse_item = |text: &str| -> Result<syn::DeriveInput, Fail> {
        if grouped_values {
            let ts: proc_macro2::TokenStream = text.parse().map_err(|e| Fail::new("l3:harness-render", format!("`{}` does not lex: {}", text, e)))?;
            syn::parse2(group_values(ts, false)).map_err(|e| Fail::new("l3:harness-render", format!("`{}` with grouped values is no item: {}", text, e)))
        } else {
            syn::parse_str(text).map_err(|e| Fail::new("l3:harness-render", format!("`{}` is no item: {}", text, e)))
        }
    };
    let res = match s.tr {
        Trait::FromMeta => {
            let m: syn::Meta = parse_meta(text)?;
            catch(|| call(&In::Meta(&m)))
        }
        _ => {
            let di: syn::DeriveInput = parse_item(text)?;
            catch(|| match s.tr {
                Trait::FromDeriveInput => call(&In::DeriveInput(&di)),
                Trait::FromAttributes => call(&In::Attrs(&di.attrs)),
                Trait::FromField => match &di.data {
                    syn::Data::Struct(st) => call(&In::Field(st.fields.iter().next().expect("field"))),
                    _ => None,
                },
                Trait::FromVariant => match &di.data {
                    syn::Data::Enum(e) => call(&In::Variant(e.variants.iter().next().expect("variant"))),
                    _ => None,
                },
                Trait::FromTypeParam => call(&In::TypeParam(di.generics.type_params().next().expect("type param"))),
                Trait::FromMeta => unreachable!(),
            })
        }
    };
    match res {
        Ok(Some(r)) => Ok(r),
        Ok(None) => Err(Fail::new("l3:harness-entry", "entry point does not match the receiver's trait")),
        Err(p) => Err(Fail::new(format!("l3:panic:{}", vmodel::util::panic_sig(&p)), format!("receiver R{} panicked on `{}`: {}", s.id, text, p))),
    }
}

/// Wrap every field type, discriminant and type-parameter default of the item in an invisible group (what an
/// item produced by `macro_rules!` with `$t:ty` / `$e:expr` fragments looks like).
pub fn add_invisible_groups(di: &mut syn::DeriveInput) {
    fn ty(t: &mut syn::Type) {
        let inner = t.clone();
        *t = syn::Type::Group(syn::TypeGroup { group_token: Default::default(), elem: Box::new(inner) });
    }
    fn ex(e: &mut syn::Expr) {
        let inner = e.clone();
        *e = syn::Expr::Group(syn::ExprGroup { attrs: vec![], group_token: Default::default(), expr: Box::new(inner) });
    }
    fn fields(fs: &mut syn::Fields) {
        for f in fs.iter_mut() {
            ty(&mut f.ty);
        }
    }
    for p in di.generics.params.iter_mut() {
        if let syn::GenericParam::Type(tp) = p {
            if let Some(d) = tp.default.as_mut() {
                ty(d);
            }
        }
    }
    match &mut di.data {
        syn::Data::Struct(s) => fields(&mut s.fields),
        syn::Data::Enum(e) => {
            for v in e.variants.iter_mut() {
                fields(&mut v.fields);
                if let Some((_, d)) = v.discriminant.as_mut() {
                    ex(d);
                }
            }
        }
        syn::Data::Union(u) => {
            for f in u.fields.named.iter_mut() {
                ty(&mut f.ty);
            }
        }
    }
}

/// `exact` on the element as parsed and on the same element with invisible groups added.
pub fn exact_entry(entry: &Entry, s: &Spec, text: &str) -> Result<Vec<(&'static str, bool)>, Fail> {
    let mut di: syn::DeriveInput = syn::parse_str(text).map_err(|e| Fail::new("l3:harness-render", format!("`{}` is no item: {}", text, e)))?;
    let mut out = vec![];
    for grouped in [false, true] {
        if grouped {
            add_invisible_groups(&mut di);
        }
        let r = catch(|| match s.tr {
            Trait::FromDeriveInput => (entry.exact)(&In::DeriveInput(&di)),
            Trait::FromField => match &di.data {
                syn::Data::Struct(st) => st.fields.iter().next().and_then(|f| (entry.exact)(&In::Field(f))),
                _ => None,
            },
            Trait::FromVariant => match &di.data {
                syn::Data::Enum(e) => e.variants.iter().next().and_then(|v| (entry.exact)(&In::Variant(v))),
                _ => None,
            },
            Trait::FromTypeParam => di.generics.type_params().next().and_then(|t| (entry.exact)(&In::TypeParam(t))),
            _ => None,
        });
        match r {
            Ok(Some(bad)) => out.extend(bad.into_iter().map(|b| (b, grouped))),
            Ok(None) => {}
            Err(p) => return Err(Fail::new(format!("l3:panic:{}", vmodel::util::panic_sig(&p)), format!("receiver R{} panicked on `{}` (invisible groups: {}): {}", s.id, text, grouped, p))),
        }
    }
    Ok(out)
}

fn span_expect(at: &At, side: &Side, root: (usize, usize)) -> Option<((usize, usize), bool)> {
    // (range the span must lie in, may be absent)
    match at {
        At::Item(p) if p.is_empty() => Some((root, false)),
        At::Item(p) => side.get(p).map(|n| (n.item, false)),
        At::Value(p) => side.get(p).map(|n| (n.value, false)),
        At::Root => None,
    }
}

/// C03 part b on a failing case whose leaves already match the model.
pub fn check_spans(o: &Outcome, want: &[Leaf], got: &[OLeaf]) -> Result<(), Fail> {
    let mut used = vec![false; got.len()];
    for l in want {
        let k = key(l.kind, &l.subject, &l.path);
        let exp = span_expect(&l.at, &o.side, o.root);
        // candidates with the same key; prefer one whose span fits
        let mut chosen: Option<usize> = None;
        for (i, g) in got.iter().enumerate() {
            if used[i] || key(g.kind, &g.subject, &g.path) != k {
                continue;
            }
            let fits = match (&exp, g.span) {
                (Some((r, _)), Some(s)) => inside(s, *r),
                (Some(_), None) => false,
                (None, _) => true,
            };
            if fits {
                chosen = Some(i);
                break;
            }
            if chosen.is_none() {
                chosen = Some(i);
            }
        }
        let i = match chosen {
            Some(i) => i,
            None => continue,
        };
        used[i] = true;
        let g = &got[i];
        match (&exp, g.span) {
            (Some((r, _)), Some(s)) => {
                let what = match &l.at {
                    At::Value(_) => "value",
                    At::Item(p) if p.is_empty() => "root-item",
                    _ => "item",
                };
                ensure!(
                    inside(s, *r),
                    format!("c03b:span-outside-{}:{:?}", what, l.kind),
                    "leaf `{}` spans {:?} (`{}`), expected inside {:?} (`{}`) of `{}`",
                    g.display,
                    s,
                    o.text.get(s.0..s.1).unwrap_or("?"),
                    r,
                    o.text.get(r.0..r.1).unwrap_or("?"),
                    o.text
                );
            }
            (Some((r, _)), None) => fail!(
                format!("c03b:unspanned:{:?}", l.kind),
                "leaf `{}` carries no span, expected one inside {:?} (`{}`) of `{}`",
                g.display,
                r,
                o.text.get(r.0..r.1).unwrap_or("?"),
                o.text
            ),
            (None, Some(s)) => {
                ensure!(s.1 <= o.text.len() + 1, "c03b:span-outside-input", "leaf `{}` spans {:?}", g.display, s);
            }
            (None, None) => {}
        }
    }
    Ok(())
}

/// Diagnostics rendering of a failing case: spanned leaves show the bare message, unspanned ones the path.
pub fn check_rendering(e: &darling::Error) -> Result<(), Fail> {
    let leaves: Vec<darling::Error> = e.clone().flatten().into_iter().collect();
    let syn_errs: Vec<syn::Error> = syn::Error::from(e.clone()).into_iter().collect();
    ensure!(syn_errs.len() == leaves.len(), "c03b:diagnostic-count", "{} diagnostics for {} leaves", syn_errs.len(), leaves.len());
    for (l, s) in leaves.iter().zip(syn_errs.iter()) {
        let (msg, path) = vmodel::util::split_at(&l.to_string());
        match l.explicit_span() {
            Some(sp) => {
                ensure!(range(s.span()) == range(sp), "c03b:diagnostic-span", "diagnostic `{}` at {:?}, leaf span {:?}", s, range(s.span()), range(sp));
                ensure!(path.is_empty() || s.to_string() == msg, "c03b:spanned-diagnostic-has-path", "spanned diagnostic reads `{}`", s);
            }
            None => {
                ensure!(s.to_string() == l.to_string(), "c03b:unspanned-diagnostic-lacks-path", "unspanned diagnostic reads `{}`, leaf `{}`", s, l);
            }
        }
    }
    Ok(())
}

fn classify_stats(ctx: &Ctx, s: &Spec, st: &InputStats, nodes: &[Node]) {
    if st.omitted_defaulted {
        ctx.class("input:omits-defaulted-field");
    }
    if st.repeated_multiple {
        ctx.class("input:repeats-multiple-field");
    }
    if st.flatten_handoff > 0 {
        ctx.class("input:flatten-hand-off");
    }
    if st.ignored_unknown > 0 {
        ctx.class("input:ignored-unknown");
    }
    if vmodel::input::depth(nodes) >= 2 {
        ctx.class("input:depth>=2");
    }
    ctx.class(&format!("trait:{}", s.tr.name()));
}

pub fn spec_classes(ctx: &Ctx, s: &Spec) {
    let fs = s.fields();
    let c = &s.container;
    let cd = c.default != Dflt::None;
    if fs.iter().any(|f| f.skip) && cd {
        ctx.class("spec:skip+container-default");
    }
    if fs.iter().any(|f| f.multiple && (f.default != Dflt::None || cd)) {
        ctx.class("spec:multiple+default");
    }
    if fs.iter().any(|f| f.flatten) && c.rename_all.is_some() {
        ctx.class("spec:flatten+rename_all");
    }
    if fs.iter().any(|f| f.transform == Tr::AndThen && (f.default != Dflt::None || cd)) {
        ctx.class("spec:and_then-on-defaulted-field");
    }
    if fs.iter().any(|f| f.with != Call::None && f.transform == Tr::Map) {
        ctx.class("spec:with+map");
    }
    if c.from_ident {
        ctx.class("spec:from_ident");
    }
    if c.transform != Tr::None {
        ctx.class("spec:container-transform");
    }
}

fn nontrivial_c01(st: &InputStats, nodes: &[Node]) -> bool {
    st.omitted_defaulted || st.repeated_multiple || st.flatten_handoff > 0 || vmodel::input::depth(nodes) >= 2 || nodes.len() >= 2
}

/// C01 / C02 / C03b on one (receiver, bytes) case.
/// The newtype wrapper of a receiver (`struct NW(pub R)` deriving the same trait, with a container-level
/// `map` / `and_then`) delegates to the receiver and then applies its own transform: same value, the callable
/// called exactly once on success and never on failure, the same mistakes on failure.
pub fn check_newtype(ctx: &Ctx, reg: &Reg, s: &Spec, text: &str, got: &darling::Result<Val>, prop: &str) -> Result<(), Fail> {
    let entry = reg.entries.get(&s.id).expect("entry");
    if entry.newtype_mode == 0 {
        return Ok(());
    }
    ctx.eval();
    nw_take();
    let wrapped = call_fn(entry.newtype, s, text, false)?;
    let hits = nw_take();
    let mode = ["", "map", "and_then", "and_then(refusing)"][entry.newtype_mode as usize];
    ctx.class(&format!("newtype-wrapper:{}", mode));
    match (got, &wrapped) {
        (Ok(v), Ok(wv)) => {
            ensure!(entry.newtype_mode != 3, format!("{}:newtype:refusal-lost", prop), "newtype wrapper of {} declares an and_then that refuses everything, yet `{}` converts", emit_short(s), text);
            ensure!(erase_spans(v) == erase_spans(wv), format!("{}:newtype:wrong-value", prop), "newtype wrapper of {} on `{}` holds {:?}, the receiver itself gives {:?}", emit_short(s), text, wv, v);
            ensure!(hits == 1, format!("{}:newtype:transform-calls", prop), "newtype wrapper of {} ({} at container level) on `{}`: the callable ran {} times, expected once", emit_short(s), mode, text, hits);
        }
        (Ok(_), Err(e)) => {
            let shown = e.to_string();
            ensure!(entry.newtype_mode == 3 && shown.contains("nw refuses") && e.len() == 1 && hits == 1, format!("{}:newtype:rejected", prop), "newtype wrapper of {} ({}) rejects `{}` ({}; callable ran {} times) although the receiver accepts it", emit_short(s), mode, text, shown, hits);
        }
        (Err(e), Ok(_)) => fail!(format!("{}:newtype:accepted", prop), "newtype wrapper of {} accepts `{}` although the receiver reports {}", emit_short(s), text, e),
        (Err(e), Err(we)) => {
            let mut a: Vec<String> = observed_leaves(e).iter().map(|l| format!("{:?} {} {:?}", l.kind, l.display, l.path)).collect();
            let mut b: Vec<String> = observed_leaves(we).iter().map(|l| format!("{:?} {} {:?}", l.kind, l.display, l.path)).collect();
            a.sort();
            b.sort();
            ensure!(a == b, format!("{}:newtype:other-mistakes", prop), "newtype wrapper of {} on `{}` reports {:?}, the receiver itself {:?}", emit_short(s), text, b, a);
            ensure!(hits == 0, format!("{}:newtype:transform-on-failure", prop), "newtype wrapper of {} on `{}`: the container-level callable ran {} times although conversion failed", emit_short(s), text, hits);
        }
    }
    if s.tr == Trait::FromMeta {
        nw_take();
        let none = catch(|| (entry.newtype_none)()).map_err(|p| Fail::new(format!("l3:panic:{}", vmodel::util::panic_sig(&p)), format!("from_none of the newtype wrapper of R{} panicked: {}", s.id, p)))?;
        let hits = nw_take();
        ensure!(none && hits == 1, format!("{}:newtype:from_none-option-ignored", prop), "newtype wrapper of {} declares `from_none = ..`; FromMeta::from_none ran the callable {} times (expected once)", emit_short(s), hits);
    }
    Ok(())
}

pub fn check_struct_case(ctx: &Ctx, reg: &Reg, s: &Spec, bytes: &[u8], prop: &str) -> Result<(), Fail> {
    fresh_spans();
    let w = reg.world();
    let mut d = D::new(bytes);
    let mut st = InputStats::default();
    let mode = if prop == "c01" { Mode::Clean } else { Mode::Mistakes(d.range(0, 8)) };
    let nodes = gen::gen_items(&w, s, &mut d, mode, 0, &mut st);
    let lay = gen_layout(s, nodes.len(), &mut d);
    let o = run_case(reg, s, &nodes, &lay)?;
    let _ = &lay;
    check_newtype(ctx, reg, s, &o.text, &o.got, prop)?;
    ctx.set_render(json!({"receiver": s.name(), "trait": s.tr.name(), "input": o.text, "declaration": emit_short(s), "specs": enums::deps_closure(reg, s)}));
    classify_stats(ctx, s, &st, &nodes);
    ctx.sample(|| json!({"receiver": emit_short(s), "input": o.text, "model": format!("{:?}", o.want).chars().take(300).collect::<String>()}));
    match prop {
        "c01" => {
            if nontrivial_c01(&st, &nodes) {
                ctx.nontrivial(&(s.id, &o.text));
            }
            let want = match &o.want {
                Ok(v) => v,
                Err(l) => fail!("c01:harness-mistake-free-input-has-mistakes", "model sees mistakes {:?} in `{}` for {}", l, o.text, emit_short(s)),
            };
            match &o.got {
                Ok(v) => {
                    if v != want {
                        let which = diff_field(want, v);
                        fail!(
                            format!("c01:wrong-value:{}", which.1),
                            "{} on `{}`: field `{}` differs\n  derived: {:?}\n  model:   {:?}",
                            emit_short(s),
                            o.text,
                            which.0,
                            v,
                            want
                        );
                    }
                }
                Err(e) => fail!(
                    format!("c01:rejected:{:?}", observed_leaves(e).first().map(|l| l.kind).unwrap_or(K::Custom)),
                    "{} rejects the mistake-free input `{}`: {}",
                    emit_short(s),
                    o.text,
                    e
                ),
            }
            // "nothing else in the input influences any field": the same items in another layout
            // (other split over attributes, other foreign attributes), and - when all item names are
            // distinct - in another order, must give the same value
            let base = erase_spans(want);
            let mut variants: Vec<(&str, Vec<Node>, Layout)> = vec![];
            if s.tr != Trait::FromMeta {
                variants.push(("other-layout", nodes.clone(), gen_layout(s, nodes.len(), &mut d)));
            }
            let names: Vec<&str> = nodes.iter().filter_map(|n| n.name()).collect();
            let mut uniq = names.clone();
            uniq.sort();
            uniq.dedup();
            if nodes.len() >= 2 && uniq.len() == names.len() && st.flatten_handoff == 0 {
                let mut rot = nodes.clone();
                let k = d.range(1, rot.len() - 1);
                rot.rotate_left(k);
                variants.push(("reordered", rot, lay.clone()));
            }
            // invisible groups are transparent: the same text with every name-value value (at every depth of the
            // attribute lists) inside a None-delimited group gives the same value
            {
                ctx.eval();
                let entry = reg.entries.get(&s.id).expect("entry");
                match call_entry_opt(entry, s, &o.text, true)? {
                    Ok(v) => {
                        if erase_spans(&v) != base {
                            let which = diff_field(&base, &erase_spans(&v));
                            fail!(
                                format!("c01:metamorphic:values-in-invisible-groups:{}", which.1),
                                "{}: `{}` gives a different value when every name-value value is wrapped in an invisible group (field `{}`):\n  plain:   {:?}\n  grouped: {:?}",
                                emit_short(s),
                                o.text,
                                which.0,
                                base,
                                v
                            );
                        }
                    }
                    Err(e) => fail!(
                        "c01:metamorphic:values-in-invisible-groups:rejected",
                        "{}: `{}` is rejected ({}) when every name-value value is wrapped in an invisible group",
                        emit_short(s),
                        o.text,
                        e
                    ),
                }
                ctx.class("metamorphic:values-in-invisible-groups");
            }
            for (what, ns, l) in variants {
                ctx.eval();
                let o2 = run_case(reg, s, &ns, &l)?;
                match &o2.got {
                    Ok(v) => {
                        if erase_spans(v) != base {
                            fail!(
                                format!("c01:metamorphic:{}", what),
                                "{}: the same items give a different value when {}:\n  `{}` -> {:?}\n  `{}` -> {:?}",
                                emit_short(s),
                                what,
                                o.text,
                                base,
                                o2.text,
                                v
                            );
                        }
                    }
                    Err(e) => fail!(format!("c01:metamorphic:{}", what), "{}: `{}` is rejected ({}) although `{}` is accepted", emit_short(s), o2.text, e, o.text),
                }
                ctx.class(&format!("metamorphic:{}", what));
            }
        }
        "c02" | "c03b" => {
            let n_mist = o.want.as_ref().err().map(|l| l.len()).unwrap_or(0);
            let kinds: std::collections::BTreeSet<K> = o.want.as_ref().err().map(|l| l.iter().map(|x| x.kind).collect()).unwrap_or_default();
            let deep = o.want.as_ref().err().map(|l| l.iter().any(|x| x.path.len() >= 2)).unwrap_or(false);
            if (n_mist >= 2 && kinds.len() >= 2) || deep || n_mist >= 4 {
                ctx.nontrivial(&(s.id, &o.text));
            }
            ctx.class(&format!("mistakes:{}", n_mist.min(8)));
            for k in &kinds {
                ctx.class(&format!("kind:{:?}", k));
            }
            match (&o.want, &o.got) {
                (Ok(w), Ok(g)) => {
                    if prop == "c02" {
                        ensure!(w == g, "c02:value-differs-on-clean-input", "{} on `{}`: {:?} vs model {:?}", emit_short(s), o.text, g, w);
                    }
                }
                (Ok(_), Err(e)) => {
                    if prop == "c02" {
                        fail!(
                            format!("c02:invented:{:?}", observed_leaves(e).first().map(|l| l.kind).unwrap_or(K::Custom)),
                            "{} fails on the mistake-free input `{}`: {} ({} leaves)",
                            emit_short(s),
                            o.text,
                            e,
                            e.len()
                        );
                    }
                }
                (Err(l), Ok(g)) => {
                    if prop == "c02" {
                        fail!(
                            format!("c02:accepted:{:?}", l[0].kind),
                            "{} accepts `{}` although it contains {:?}; value {:?}",
                            emit_short(s),
                            o.text,
                            l,
                            g
                        );
                    }
                }
                (Err(l), Err(e)) => {
                    let got = observed_leaves(e);
                    match leaves_match(l, &got) {
                        Ok(()) => {
                            if prop == "c02" {
                                ensure!(e.len() == l.len(), "c02:len", "len() = {} for {} leaves", e.len(), l.len());
                            } else {
                                check_spans(&o, l, &got)?;
                                check_rendering(e)?;
                            }
                        }
                        Err(why) => {
                            if prop == "c02" {
                                fail!(
                                    format!("c02:leaves:{}", mismatch_sig(l, &got)),
                                    "{} on `{}`: {}\n  reported: {:?}\n  model:    {:?}",
                                    emit_short(s),
                                    o.text,
                                    why,
                                    got.iter().map(|g| g.display.clone()).collect::<Vec<_>>(),
                                    l.iter().map(|x| format!("{:?} `{}` at {}", x.kind, x.subject, x.path.join("/"))).collect::<Vec<_>>()
                                );
                            }
                        }
                    }
                }
            }
        }
        _ => unreachable!(),
    }
    Ok(())
}

/// The first differing field between two struct values, with a coarse reason.
pub fn diff_field(want: &Val, got: &Val) -> (String, String) {
    if let (Val::Struct(_, a), Val::Struct(_, b)) = (want, got) {
        for ((n, x), (_, y)) in a.iter().zip(b.iter()) {
            if x != y {
                let why = if erase_spans(x) == erase_spans(y) { "span" } else { "value" };
                return (n.clone(), why.to_string());
            }
        }
    }
    ("?".into(), "value".into())
}

pub fn emit_short(s: &Spec) -> String {
    let src = vmodel::emit::emit_spec(s, "", "", "");
    // the derive item only (up to the first helper impl)
    let end = src.find("\nimpl ").or_else(|| src.find("\n#[allow")).unwrap_or(src.len());
    src[..end].split_whitespace().collect::<Vec<_>>().join(" ")
}

pub fn main(specs_json: &str, registry: Vec<Entry>) {
    let args = vmodel::ev::parse_args();
    vmodel::util::install_quiet_panic_hook();
    let specs: Vec<Spec> = serde_json::from_str(specs_json).expect("embedded specs");
    let reg = Reg { specs, entries: registry.into_iter().map(|e| (e.id, e)).collect() };
    let ok = match args.sub.as_str() {
        "c01" | "c02" | "c03b" => run_struct_prop(&args, &reg),
        "c09" | "c03-enums" => enums::run(&args, &reg),
        "c16" | "c03-body" | "c08-forward" | "c02-body" | "c18-body" => magic::run(&args, &reg),
        "c08" => partition::run(&args, &reg),
        "c17" => sugg::run(&args, &reg),
        "c18b" => shapes::run(&args, &reg),
        "c07b" => total::run(&args, &reg),
        other => {
            eprintln!("unknown subcommand {}", other);
            std::process::exit(2);
        }
    };
    std::process::exit(if ok { 0 } else { 1 });
}

fn run_struct_prop(args: &Args, reg: &Reg) -> bool {
    let (prop, step, rule) = match args.sub.as_str() {
        "c01" => ("C01", "l3", "generated receiver specs (struct receivers for all six traits, nested to depth 3, options: rename / rename_all x 6 rules / default {none, Default, fn} at field and container level / skip / multiple / flatten / with {path, closure} / map | and_then at both levels / allow_unknown_fields / from_ident / from_word / from_none) compiled against the working tree; per receiver, mistake-free inputs generated from its own spec (any subset of optional fields, 0..3 occurrences of multiple fields, shuffled order, every accepted literal form, unknown names only where handed to flatten or ignored, any split over attributes with foreign attributes interspersed); oracle: Observe(parsed) == reference model. Non-trivial: omits a defaulted field, repeats a multiple field, hands items to flatten, depth>=2 or >=2 items; distinct by (receiver, input text)"),
        "c02" => ("C02", "l3", "same receivers; inputs with 0..8 injected mistakes (unknown name, repeated name, bare literal, required item removed, value the type rejects incl. and_then rejection, wrong item count / unknown variant for enums) at any depth; oracle: Err iff the model sees >=1 mistake, flattened leaves == model leaves as multiset of (kind, subject, path), len() == number of leaves. Non-trivial: >=2 mistakes of >=2 kinds, or a mistake at depth>=2, or >=4 mistakes"),
        _ => ("C03", "l3", "failing cases of the C02 generator whose leaves match the model: every leaf about an item/value present carries a span inside that item (value-level mistakes inside the value), a missing-field leaf inside a nested item carries that item's range, only root-level absences may be unspanned; syn/compile_error rendering keeps the span, spanned diagnostics show the bare message, unspanned ones the location path"),
    };
    let ctx = Ctx::new(prop, step, vmodel::ev::mix_seed(args.seed, prop, step, args.shard), args);
    ctx.set_rule(rule);
    let sub = args.sub.clone();
    let targets: Vec<&Spec> = reg.specs.iter().filter(|s| matches!(s.body, Body::Struct(_)) && s.purpose == "c01").collect();
    for s in &targets {
        spec_classes(&ctx, s);
    }
    ctx.class_n("receivers", targets.len() as u64);
    if let Some(path) = &args.replay {
        let (_, case) = vmodel::ev::load_replay_case(path);
        let id = case["receiver"].as_u64().expect("receiver id") as usize;
        let bytes: Vec<u8> = serde_json::from_value(case["bytes"].clone()).expect("bytes");
        let s = reg.specs.iter().find(|s| s.id == id).expect("receiver in crate");
        let ok = run_list(&ctx, vec![bytes], |c, b| check_struct_case(c, reg, s, b, &sub));
        ctx.finish();
        return ok;
    }
    let per = ((args.cases as usize) / targets.len().max(1)).max(1) as u32;
    let mut ok = true;
    for s in targets {
        let strat = prop::collection::vec(any::<u8>(), 0..384).prop_map(|b| Case { receiver: s.id, bytes: b });
        ok &= run_prop(&ctx, per, strat, |c, case| check_struct_case(c, reg, s, &case.bytes, &sub));
        if !ok && ctx.n_violations() >= 3 {
            break;
        }
    }
    ctx.finish();
    ok
}

#[derive(Clone, Debug, serde::Serialize, serde::Deserialize)]
pub struct Case {
    pub receiver: usize,
    pub bytes: Vec<u8>,
}
