//! Rendering an abstract input as the source text a receiver of a given trait is called with:
//! one text, one parse, and a side table from node paths to byte ranges.

use vmodel::dec::D;
use vmodel::input::{render_node, Node, Side};
use vmodel::spec::*;

/// How the top-level items are spread over attributes (element-level receivers).
#[derive(Clone, Debug, Default, serde::Serialize, serde::Deserialize)]
pub struct Layout {
    /// consecutive groups: (number of items, attribute name, bare form for an empty group)
    pub groups: Vec<(usize, String, bool)>,
    /// foreign attributes: (before group index, text)
    pub foreign: Vec<(usize, String)>,
}

pub const FOREIGN: &[&str] = &[
    "#[doc = \"text\"]",
    "/// a doc comment",
    "#[cfg(test)]",
    "#[derive(Debug, Clone)]",
    "#[foo(a b ; c)]",
    "#[serde(rename = \"x\", default)]",
    "#[unrelated = 5]",
    "#[other::path(x = 1)]",
    "#[allow(dead_code)]",
    "#[foo]",
    "#[bar(= = =)]",
];

pub fn gen_layout(s: &Spec, n_items: usize, d: &mut D) -> Layout {
    let mut lay = Layout::default();
    if s.tr == Trait::FromMeta {
        return lay;
    }
    let names = &s.container.attributes;
    let mut left = n_items;
    while left > 0 {
        let take = if d.ratio(2, 3) { left } else { d.range(1, left) };
        lay.groups.push((take, d.pick(names).clone(), false));
        left -= take;
        if d.ratio(1, 8) {
            // an empty or bare attribute in between
            lay.groups.push((0, d.pick(names).clone(), d.bool()));
        }
    }
    if n_items == 0 && d.bool() {
        lay.groups.push((0, d.pick(names).clone(), d.bool()));
    }
    let nf = d.weighted(&[5, 3, 2, 1]);
    for _ in 0..nf {
        let pos = d.below(lay.groups.len() + 1);
        // (doc comments are no foreign attributes for a receiver that claims `doc`)
        let pool = if names.iter().any(|n| n == "doc") { &FOREIGN[2..] } else { FOREIGN };
        lay.foreign.push((pos, d.pick(pool).to_string()));
    }
    lay
}

pub fn single_attr_layout(s: &Spec, n_items: usize) -> Layout {
    if s.tr == Trait::FromMeta || n_items == 0 {
        return Layout::default();
    }
    Layout { groups: vec![(n_items, s.container.attributes[0].clone(), false)], foreign: vec![] }
}

pub struct Rendered {
    pub text: String,
    pub side: Side,
    pub root: (usize, usize),
    pub ident_len: usize,
    /// the attributes as rendered, in order: (text, is_foreign)
    pub attrs: Vec<(String, bool)>,
}

/// Render the attributes of a layout. Top-level node `i` has path `[i]`.
pub fn render_attrs(nodes: &[Node], lay: &Layout, out: &mut String, side: &mut Side, attrs: &mut Vec<(String, bool)>) {
    let mut idx = 0;
    for (g, (n, name, bare)) in lay.groups.iter().enumerate() {
        for (pos, f) in &lay.foreign {
            if *pos == g {
                out.push_str(f);
                out.push('\n');
                attrs.push((f.clone(), true));
            }
        }
        let start = out.len();
        if *n == 0 && *bare {
            out.push_str(&format!("#[{}]", name));
        } else {
            out.push_str(&format!("#[{}(", name));
            for k in 0..*n {
                if k > 0 {
                    out.push_str(", ");
                }
                let mut path = vec![idx];
                render_node(&nodes[idx], &mut path, out, side);
                idx += 1;
            }
            out.push_str(")]");
        }
        attrs.push((out[start..].to_string(), false));
        out.push('\n');
    }
    for (pos, f) in &lay.foreign {
        if *pos >= lay.groups.len() {
            out.push_str(f);
            out.push('\n');
            attrs.push((f.clone(), true));
        }
    }
}

pub fn render_input(s: &Spec, nodes: &[Node], lay: &Layout) -> Rendered {
    let mut out = String::new();
    let mut side = Side::default();
    let mut attrs = vec![];
    let ident_len;
    match s.tr {
        Trait::FromMeta => {
            out.push_str("r(");
            for (i, n) in nodes.iter().enumerate() {
                if i > 0 {
                    out.push_str(", ");
                }
                let mut path = vec![i];
                render_node(n, &mut path, &mut out, &mut side);
            }
            out.push(')');
            ident_len = 0;
        }
        Trait::FromDeriveInput | Trait::FromAttributes => {
            render_attrs(nodes, lay, &mut out, &mut side, &mut attrs);
            out.push_str("pub struct Foo { a: u8 }");
            ident_len = 3;
        }
        Trait::FromField => {
            out.push_str("struct S {\n");
            render_attrs(nodes, lay, &mut out, &mut side, &mut attrs);
            out.push_str("pub fld: Vec<u8>,\n}");
            ident_len = 3;
        }
        Trait::FromVariant => {
            out.push_str("enum E {\n");
            render_attrs(nodes, lay, &mut out, &mut side, &mut attrs);
            out.push_str("Var { x: u8 },\n}");
            ident_len = 3;
        }
        Trait::FromTypeParam => {
            out.push_str("struct S<\n");
            render_attrs(nodes, lay, &mut out, &mut side, &mut attrs);
            out.push_str("T: Clone = u8>(T);");
            ident_len = 1;
        }
    }
    let root = (0, out.len());
    Rendered { text: out, side, root, ident_len, attrs }
}
