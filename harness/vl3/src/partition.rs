//! C08, merging half: any split of the same items, in the same order, over one or more attributes
//! (with empty or bare ones interspersed and foreign attributes at every position) gives the
//! identical value or identical errors. Metamorphic: compared with the single-attribute rendering.

use crate::*;

fn summary(r: &darling::Result<Val>) -> Result<Val, Vec<String>> {
    match r {
        Ok(v) => Ok(erase_spans(v)),
        Err(e) => Err(e.clone().flatten().into_iter().map(|l| l.to_string()).collect()),
    }
}

/// All compositions of n items into consecutive non-empty groups (2^(n-1)).
fn compositions(n: usize) -> Vec<Vec<usize>> {
    if n == 0 {
        return vec![vec![]];
    }
    let mut out = vec![];
    for mask in 0..(1u32 << (n - 1)) {
        let mut groups = vec![];
        let mut cur = 1;
        for i in 0..n - 1 {
            if mask & (1 << i) != 0 {
                groups.push(cur);
                cur = 1;
            } else {
                cur += 1;
            }
        }
        groups.push(cur);
        out.push(groups);
    }
    out
}

pub fn check_partitions(ctx: &Ctx, reg: &Reg, s: &Spec, bytes: &[u8]) -> Result<(), Fail> {
    fresh_spans();
    let w = reg.world();
    let mut d = D::new(bytes);
    let mut st = InputStats::default();
    let mode = if d.bool() { Mode::Clean } else { Mode::Mistakes(d.range(1, 4)) };
    let nodes = gen::gen_items(&w, s, &mut d, mode, 0, &mut st);
    let n = nodes.len();
    let entry = reg.entries.get(&s.id).expect("entry");
    let base_lay = single_attr_layout(s, n);
    let base = render_input(s, &nodes, &base_lay);
    ctx.set_render(json!({"receiver": s.name(), "declaration": emit_short(s), "input": base.text, "specs": enums::deps_closure(reg, s)}));
    let r0 = summary(&call_entry(entry, s, &base.text)?);
    let names = &s.container.attributes;
    let comps: Vec<Vec<usize>> = if n <= 6 {
        compositions(n)
    } else {
        // random compositions beyond 6 items
        (0..24)
            .map(|_| {
                let mut groups = vec![];
                let mut left = n;
                while left > 0 {
                    let t = d.range(1, left);
                    groups.push(t);
                    left -= t;
                }
                groups
            })
            .collect()
    };
    if n <= 6 {
        ctx.class("partitions:exhaustive");
    } else {
        ctx.class("partitions:sampled");
    }
    let mut any_unparseable_foreign = false;
    for (ci, comp) in comps.iter().enumerate() {
        ctx.eval();
        let mut lay = Layout::default();
        for g in comp {
            lay.groups.push((*g, d.pick(names).clone(), false));
            if d.ratio(1, 6) {
                lay.groups.push((0, d.pick(names).clone(), d.bool()));
            }
        }
        if d.ratio(1, 5) {
            lay.groups.insert(0, (0, d.pick(names).clone(), d.bool()));
        }
        let nf = d.weighted(&[3, 3, 2, 2]);
        for _ in 0..nf {
            let pos = d.below(lay.groups.len() + 1);
            let pool = if names.iter().any(|n| n == "doc") { &FOREIGN[2..] } else { FOREIGN };
            let f = d.pick(pool).to_string();
            if f.contains("a b ;") || f.contains("= = =") {
                any_unparseable_foreign = true;
            }
            lay.foreign.push((pos, f));
        }
        let r = render_input(s, &nodes, &lay);
        let ri = summary(&call_entry(entry, s, &r.text)?);
        if ri != r0 {
            let kind = match (&r0, &ri) {
                (Ok(_), Ok(_)) => "value",
                (Err(a), Err(b)) if a.len() != b.len() => "error-count",
                (Err(_), Err(_)) => "errors",
                _ => "ok-vs-err",
            };
            fail!(
                format!("c08:partition-changes-result:{}", kind),
                "{}: splitting changes the result.\n one attribute: `{}` -> {:?}\n split {:?}: `{}` -> {:?}",
                emit_short(s),
                base.text,
                r0,
                comp,
                r.text,
                ri
            );
        }
        if s.tr == Trait::FromAttributes {
            // the style of an attribute (outer `#[..]` / inner `#![..]`) is no part of selection, merging or forwarding
            let mask = d.u64() | 1 << d.below(8);
            let rs = summary(&call_attrs_styled(entry, s, &r.text, mask)?);
            let norm = |x: &Result<Val, Vec<String>>| format!("{:?}", x).replace("# !", "#").replace("#!", "#");
            if norm(&rs) != norm(&ri) {
                fail!(
                    "c08:inner-style-changes-result",
                    "{}: the same attributes read differently when some are inner-style (mask {:#x}).\n outer: `{}` -> {:?}\n styled -> {:?}",
                    emit_short(s),
                    mask,
                    r.text,
                    ri,
                    rs
                );
            }
            ctx.class("attrs:inner-style");
        }
        if comp.len() >= 2 && lay.foreign.iter().any(|(_, f)| f.contains("a b ;") || f.contains("= = =")) {
            ctx.nontrivial(&(s.id, &r.text));
        }
        if ci == 0 {
            ctx.sample(|| json!({"receiver": emit_short(s), "single": base.text, "split": r.text}));
        }
    }
    if any_unparseable_foreign {
        ctx.class("foreign:unparseable-body");
    }
    ctx.class(if r0.is_ok() { "baseline:ok" } else { "baseline:errors" });
    Ok(())
}

pub fn run(args: &Args, reg: &Reg) -> bool {
    let ctx = Ctx::new("C08", "partitions", vmodel::ev::mix_seed(args.seed, "C08", "partitions", args.shard), args);
    ctx.set_rule("element-level receivers of the generated batch (1..3 attribute names) x item sequences (mistake-free or with 1..4 mistakes) x ALL 2^(n-1) partitions into consecutive groups for n<=6 items (24 random ones beyond), each group under any declared name, empty `#[name()]` and bare `#[name]` attributes interspersed, 0..3 foreign attributes (doc comments, cfg, derive, name-value, unparseable token bodies) at any position (evaluations = partitions tried); oracle (metamorphic): same Val or same ordered list of leaf messages+paths as the single-attribute rendering. Non-trivial: >=2 groups and a foreign attribute with an unparseable body");
    let targets: Vec<&Spec> = reg.specs.iter().filter(|s| s.tr != Trait::FromMeta && matches!(s.body, Body::Struct(_)) && s.purpose == "c01").collect();
    ctx.class_n("receivers", targets.len() as u64);
    if let Some(path) = &args.replay {
        let (_, case) = vmodel::ev::load_replay_case(path);
        let id = case["receiver"].as_u64().expect("receiver id") as usize;
        let bytes: Vec<u8> = serde_json::from_value(case["bytes"].clone()).expect("bytes");
        let s = reg.specs.iter().find(|s| s.id == id).expect("receiver in crate");
        let ok = run_list(&ctx, vec![bytes], |c, b| check_partitions(c, reg, s, b));
        ctx.finish();
        return ok;
    }
    let per = ((args.cases as usize) / targets.len().max(1)).max(1) as u32;
    let mut ok = true;
    for s in targets {
        let strat = prop::collection::vec(any::<u8>(), 0..512).prop_map(|b| Case { receiver: s.id, bytes: b });
        ok &= run_prop(&ctx, per, strat, |c, case| check_partitions(c, reg, s, &case.bytes));
        if !ok && ctx.n_violations() >= 3 {
            break;
        }
    }
    ctx.finish();
    ok
}
