//! C17: did-you-mean suggestions are sound, best-match and scoped to the level.

use crate::*;
use vmodel::input::{Syn, LK};

/// Addressable names of a struct receiver together with those of its flatten descendants.
fn names_closure(w: &World, s: &Spec, out: &mut Vec<String>) {
    for f in s.fields() {
        if f.flatten {
            if let Some(k) = inner_recv(&f.ty) {
                names_closure(w, w.spec(k), out);
            }
        } else if !f.skip {
            out.push(model::field_name(f, &s.container));
        }
    }
}

fn inner_recv(t: &Ty) -> Option<usize> {
    match t {
        Ty::Recv(k) => Some(*k),
        Ty::Opt(x) | Ty::Boxed(x) => inner_recv(x),
        _ => None,
    }
}

/// Every name (valid, skipped, flatten member) of the receiver's family, as edit bases.
fn universe(w: &World, s: &Spec, out: &mut Vec<String>, depth: usize) {
    if depth > 6 {
        return;
    }
    match &s.body {
        Body::Struct(fs) => {
            for f in fs {
                out.push(model::field_name(f, &s.container));
                if let Some(k) = inner_recv(&f.ty) {
                    universe(w, w.spec(k), out, depth + 1);
                }
            }
        }
        Body::Enum(vs) => {
            for v in vs {
                out.push(model::variant_name(s, v));
                if let VShape::Struct(fs) = &v.shape {
                    for f in fs {
                        out.push(f.rust_name.clone());
                    }
                }
            }
        }
    }
}

enum Pos<'a> {
    Struct(&'a Spec),
    Enum(&'a Spec),
    VariantFields(&'a Spec, &'a [Field]),
}

/// The names that would have been accepted at the position a leaf path points to.
fn valid_at(w: &World, root: &Spec, path: &[String]) -> Option<Vec<String>> {
    let mut pos = Pos::Struct(root);
    for seg in path {
        let seg = seg.trim_end_matches("[]");
        pos = match pos {
            Pos::Struct(s) => {
                let f = find_field(w, s, seg)?;
                let k = inner_recv(&f.ty)?;
                let t = w.spec(k);
                match t.body {
                    Body::Struct(_) => Pos::Struct(t),
                    Body::Enum(_) => Pos::Enum(t),
                }
            }
            Pos::Enum(e) => {
                let vs = match &e.body {
                    Body::Enum(v) => v,
                    _ => unreachable!(),
                };
                let v = vs.iter().find(|v| !v.skip && model::variant_name(e, v) == seg)?;
                match &v.shape {
                    VShape::Struct(fs) => Pos::VariantFields(e, fs),
                    VShape::Newtype(t) => {
                        let k = inner_recv(t)?;
                        Pos::Struct(w.spec(k))
                    }
                    VShape::Unit => return None,
                }
            }
            Pos::VariantFields(e, fs) => {
                let pseudo = Container { rename_all: e.container.rename_all.clone(), ..Default::default() };
                let f = fs.iter().find(|f| !f.skip && model::field_name(f, &pseudo) == seg)?;
                let k = inner_recv(&f.ty)?;
                Pos::Struct(w.spec(k))
            }
        };
    }
    Some(match pos {
        Pos::Struct(s) => {
            let mut v = vec![];
            names_closure(w, s, &mut v);
            v
        }
        Pos::Enum(e) => match &e.body {
            Body::Enum(vs) => vs.iter().filter(|v| !v.skip).map(|v| model::variant_name(e, v)).collect(),
            _ => unreachable!(),
        },
        Pos::VariantFields(e, fs) => {
            let pseudo = Container { rename_all: e.container.rename_all.clone(), ..Default::default() };
            fs.iter().filter(|f| !f.skip && !f.flatten).map(|f| model::field_name(f, &pseudo)).collect()
        }
    })
}

fn find_field<'a>(w: &World<'a>, s: &'a Spec, name: &str) -> Option<&'a Field> {
    for f in s.fields() {
        if f.flatten {
            if let Some(k) = inner_recv(&f.ty) {
                if let Some(x) = find_field(w, w.spec(k), name) {
                    return Some(x);
                }
            }
        } else if !f.skip && model::field_name(f, &s.container) == name {
            return Some(f);
        }
    }
    None
}

fn edit(d: &mut D, base: &str) -> String {
    let mut s: Vec<char> = base.chars().collect();
    let n = d.below(4);
    for _ in 0..n {
        if s.is_empty() {
            s.push('a');
            continue;
        }
        let i = d.below(s.len());
        match d.below(4) {
            0 => {
                s.remove(i);
            }
            1 => s.insert(i, *d.pick(&['a', 'e', 'm', 'r', 'x', '_', '1'])),
            2 => s[i] = *d.pick(&['a', 'e', 'o', 'n', 'z', '2']),
            _ => {
                if i + 1 < s.len() {
                    s.swap(i, i + 1)
                }
            }
        }
    }
    let out: String = s.into_iter().collect();
    if expressible(&out) {
        out
    } else {
        format!("u{}", d.below(99))
    }
}

/// Insert unknown items at the root and inside nested lists.
fn inject(d: &mut D, nodes: &mut Vec<Node>, uni: &[String], depth: usize) -> usize {
    let mut n = 0;
    let k = if depth == 0 { d.range(1, 3) } else { d.below(2) };
    for _ in 0..k {
        let base = d.pick(uni).clone();
        let name = edit(d, &base);
        let val = d.pick(&[Syn::Word, Syn::Lit("1".into(), LK::Int(1)), Syn::Lit("\"s\"".into(), LK::Str("s".into()))]).clone();
        let at = d.below(nodes.len() + 1);
        nodes.insert(at, Node::Item(name, val));
        n += 1;
    }
    for node in nodes.iter_mut() {
        if let Node::Item(_, Syn::List(kids)) = node {
            if depth < 3 && d.ratio(2, 3) {
                n += inject(d, kids, uni, depth + 1);
                // inside an enum list exactly one item is allowed: keep only one
            }
        }
    }
    n
}

/// Type-aware pass: replace some enum-typed values by a list naming a (possibly misspelt, possibly
/// skipped) variant.
fn inject_enum_names(w: &World, s: &Spec, d: &mut D, nodes: &mut Vec<Node>, depth: usize) {
    if depth > 4 {
        return;
    }
    for n in nodes.iter_mut() {
        if let Node::Item(name, syn) = n {
            let key = name.trim_start_matches("::").to_string();
            if let Some(f) = find_field(w, s, &key) {
                if let Some(k) = inner_recv(&f.ty) {
                    let t = w.spec(k);
                    match &t.body {
                        Body::Enum(vs) => {
                            if d.ratio(2, 3) {
                                let v = d.pick(vs);
                                let base = model::variant_name(t, v);
                                let nm = edit(d, &base);
                                *syn = if d.bool() { Syn::List(vec![Node::Item(nm, Syn::Word)]) } else { Syn::List(vec![Node::Item(nm, Syn::List(vec![]))]) };
                            }
                        }
                        Body::Struct(_) => {
                            if let Syn::List(kids) = syn {
                                inject_enum_names(w, t, d, kids, depth + 1);
                            }
                        }
                    }
                }
            }
        }
    }
}

fn rename_at(nodes: &mut Vec<Node>, path: &[String], from: &str, to: &str) -> bool {
    if path.is_empty() {
        for n in nodes.iter_mut() {
            if let Node::Item(name, _) = n {
                if name.trim_start_matches("::") == from {
                    *name = to.to_string();
                    return true;
                }
            }
        }
        // the name may have been claimed through a flatten hand-off at this level: nothing else to do
        return false;
    }
    let seg = path[0].trim_end_matches("[]");
    for n in nodes.iter_mut() {
        if let Node::Item(name, Syn::List(kids)) = n {
            if name.trim_start_matches("::") == seg && rename_at(kids, &path[1..], from, to) {
                return true;
            }
        }
    }
    false
}

pub fn check_sugg_case(ctx: &Ctx, reg: &Reg, s: &Spec, bytes: &[u8], feature_on: bool) -> Result<(), Fail> {
    fresh_spans();
    let w = reg.world();
    let mut d = D::new(bytes);
    let mut st = InputStats::default();
    let mut nodes = gen::gen_items(&w, s, &mut d, Mode::Clean, 0, &mut st);
    let mut uni = vec![];
    universe(&w, s, &mut uni, 0);
    uni.retain(|n| expressible(n));
    if uni.is_empty() {
        return Ok(());
    }
    inject(&mut d, &mut nodes, &uni, 0);
    inject_enum_names(&w, s, &mut d, &mut nodes, 0);
    let lay = single_attr_layout(s, nodes.len());
    let o = run_case(reg, s, &nodes, &lay)?;
    ctx.set_render(json!({"receiver": s.name(), "declaration": emit_short(s), "input": o.text, "specs": enums::deps_closure(reg, s), "suggestions_feature": feature_on}));
    let (want, err) = match (&o.want, &o.got) {
        (Err(l), Err(e)) => (l, e),
        (Ok(_), Ok(_)) => {
            ctx.class("no-unknown-name-after-all");
            return Ok(());
        }
        (Ok(w), Err(e)) => fail!("c17:harness-model-disagrees", "model Ok({:?}) but `{}` fails with {}", w, o.text, e),
        (Err(l), Ok(g)) => fail!("c17:harness-model-disagrees", "model {:?} but `{}` gives {:?}", l, o.text, g),
    };
    let got = observed_leaves(err);
    if let Err(why) = leaves_match(want, &got) {
        fail!(format!("c17:leaves-differ:{}", if feature_on { "on" } else { "off" }), "{} on `{}`: {} (reported {:?})", emit_short(s), o.text, why, got.iter().map(|g| g.display.clone()).collect::<Vec<_>>());
    }
    let mut saw_sugg = false;
    for g in &got {
        if g.kind != K::Unknown {
            ensure!(!g.display.contains("Did you mean"), "c17:suggestion-on-other-kind", "leaf `{}` carries a suggestion", g.display);
            continue;
        }
        if !feature_on {
            ensure!(g.suggestion.is_none(), "c17:suggestion-with-feature-off", "leaf `{}` carries a suggestion although the feature is off", g.display);
            continue;
        }
        let valid = match valid_at(&w, s, &g.path) {
            Some(v) => v,
            None => continue,
        };
        let scores: Vec<(f64, &String)> = valid.iter().map(|c| (strsim::jaro_winkler(&g.subject, c), c)).collect();
        let best = scores.iter().map(|x| x.0).fold(0.0f64, f64::max);
        ctx.class(if best > 0.8 { "unknown:candidate>0.8" } else { "unknown:no-candidate" });
        if g.path.len() >= 1 {
            ctx.class("unknown:nested");
        }
        match &g.suggestion {
            None => {
                ensure!(
                    !(best > 0.8),
                    "c17:missing-suggestion",
                    "{} on `{}`: `{}` has no suggestion although {:?} scores {:.4} (> 0.8); valid here: {:?}",
                    emit_short(s),
                    o.text,
                    g.display,
                    scores.iter().find(|x| x.0 == best).map(|x| x.1),
                    best,
                    valid
                );
            }
            Some(sg) => {
                saw_sugg = true;
                ensure!(sg != &g.subject, "c17:suggests-rejected-name", "{} on `{}`: `{}` suggests the rejected name itself (valid here: {:?})", emit_short(s), o.text, g.display, valid);
                ensure!(
                    valid.contains(sg),
                    "c17:suggests-invalid-name",
                    "{} on `{}`: `{}` suggests `{}`, which is not accepted at that position (valid: {:?})",
                    emit_short(s),
                    o.text,
                    g.display,
                    sg,
                    valid
                );
                let sc = strsim::jaro_winkler(&g.subject, sg);
                ensure!(sc > 0.8, "c17:suggestion-below-threshold", "`{}`: suggestion scores {:.4} <= 0.8", g.display, sc);
                ensure!(
                    sc >= best - 1e-12,
                    "c17:not-best-match",
                    "{} on `{}`: `{}` suggests `{}` ({:.4}) but {:?} scores {:.4}",
                    emit_short(s),
                    o.text,
                    g.display,
                    sg,
                    sc,
                    scores.iter().find(|x| x.0 == best).map(|x| x.1),
                    best
                );
                // following the suggestion removes this unknown-name leaf
                let mut fixed = nodes.clone();
                if rename_at(&mut fixed, &g.path, &g.subject, sg) {
                    let o2 = run_case(reg, s, &fixed, &lay)?;
                    if let Err(e2) = &o2.got {
                        let again = observed_leaves(e2);
                        let before = got.iter().filter(|x| x.kind == K::Unknown && x.subject == g.subject && x.path == g.path).count();
                        let after = again.iter().filter(|x| x.kind == K::Unknown && x.subject == g.subject && x.path == g.path).count();
                        ensure!(
                            after < before && !again.iter().any(|x| x.kind == K::Unknown && x.subject == *sg && x.path == g.path),
                            "c17:suggestion-not-accepted",
                            "{}: after renaming `{}` to the suggested `{}` in `{}` the name is still unknown: `{}` -> {:?}",
                            emit_short(s),
                            g.subject,
                            sg,
                            o.text,
                            o2.text,
                            again.iter().map(|x| x.display.clone()).collect::<Vec<_>>()
                        );
                    }
                }
            }
        }
    }
    if saw_sugg || got.iter().filter(|g| g.kind == K::Unknown).count() >= 2 {
        ctx.nontrivial(&(s.id, &o.text));
    }
    ctx.sample(|| json!({"receiver": emit_short(s), "input": o.text, "leaves": got.iter().map(|g| g.display.clone()).collect::<Vec<_>>()}));
    Ok(())
}

pub fn run(args: &Args, reg: &Reg) -> bool {
    let feature_on = args.extra.get("feature").map(|s| s != "off").unwrap_or(true);
    let step = if feature_on { "suggestions-on" } else { "suggestions-off" };
    let ctx = Ctx::new("C17", step, vmodel::ev::mix_seed(args.seed, "C17", "sugg", args.shard), args);
    ctx.set_rule("receivers with deliberately close names (shared stems, one-edit neighbours), skip, rename, rename_all, flatten chains of depth 3, a nested non-flatten receiver and enums with skipped variants; mistake-free inputs with 1..3 unknown names per level, derived by 0..3 edits from any valid, skipped, flatten-member or parent name, at the root and inside nested items; the same generated crate is built with and without the `suggestions` feature. Oracle: leaves == reference model; a suggestion only on unknown-name leaves, != the rejected name, a member of the names valid at that position (receiver + flatten descendants; enclosing receivers only for names handed down directly), maximal strsim::jaro_winkler over that set and > 0.8, absent iff no candidate > 0.8; renaming to the suggestion removes the leaf; feature off: same leaves, no suggestion. Non-trivial: a suggestion was made or >=2 unknown names");
    let targets: Vec<&Spec> = reg.specs.iter().filter(|s| s.purpose == "c17" && matches!(s.body, Body::Struct(_))).collect();
    ctx.class_n("receivers", targets.len() as u64);
    if let Some(path) = &args.replay {
        let (_, case) = vmodel::ev::load_replay_case(path);
        let id = case["receiver"].as_u64().expect("receiver id") as usize;
        let bytes: Vec<u8> = serde_json::from_value(case["bytes"].clone()).expect("bytes");
        let s = reg.specs.iter().find(|s| s.id == id).expect("receiver in crate");
        let ok = run_list(&ctx, vec![bytes], |c, b| check_sugg_case(c, reg, s, b, feature_on));
        ctx.finish();
        return ok;
    }
    let per = ((args.cases as usize) / targets.len().max(1)).max(1) as u32;
    let mut ok = true;
    for s in targets {
        let strat = prop::collection::vec(any::<u8>(), 0..512).prop_map(|b| Case { receiver: s.id, bytes: b });
        ok &= run_prop(&ctx, per, strat, |c, case| check_sugg_case(c, reg, s, &case.bytes, feature_on));
        if !ok && ctx.n_violations() >= 3 {
            break;
        }
    }
    ctx.finish();
    ok
}
