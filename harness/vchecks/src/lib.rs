//! L1/L2 checks as a library (the `vchecks` binary drives them with proptest; the fuzz target
//! `oracle` drives the same oracles with libFuzzer).
pub mod c03s;
pub mod c04;
pub mod c05;
pub mod c06;
pub mod c07;
pub mod c10;
pub mod c11;
pub mod c12;
pub mod c13;
pub mod c14;
pub mod c15;
pub mod c16t;
pub mod c17a;
pub mod c18;
pub mod c19;
pub mod fuzz;
pub mod probes;
