//! C05: the error accumulator against a list model, over generated operation histories.

use darling_core::error::Accumulator;
use darling_core::Error;
use proptest::prelude::*;
use serde::{Deserialize, Serialize};
use serde_json::json;
use vmodel::ev::{run_list, run_prop, Args, Ctx, Fail};
use vmodel::util::catch;
use vmodel::{ensure, fail};

#[derive(Clone, Debug, Serialize, Deserialize, Hash, PartialEq, Eq)]
pub enum Op {
    Push,
    /// push a bundle of k>=2 labelled errors as one recorded error
    PushBundle(u8),
    HandleOk(u16),
    HandleErr,
    HandleInOk(u16),
    HandleInErr,
    Extend(u8),
    Checkpoint,
    /// record a long run of single errors, alternately by push / handle / handle_in (no ceiling on what an accumulator holds)
    PushMany(u16),
}

#[derive(Clone, Debug, Serialize, Deserialize, Hash, PartialEq, Eq)]
pub enum End {
    Finish,
    FinishWith(u16),
    IntoInner,
    Drop,
    DropDuringUnwind,
}

#[derive(Clone, Debug, Serialize, Deserialize, Hash, PartialEq, Eq)]
pub struct History {
    pub ops: Vec<Op>,
    pub end: End,
    /// labels repeat (e0 e0 e1 e1 e0 ..): equal errors recorded next to each other are still separate errors
    #[serde(default)]
    pub repeat_labels: bool,
    /// the accumulator comes from `Accumulator::default()` instead of `Error::accumulator()`: the same armed, empty state
    #[serde(default)]
    pub from_default: bool,
    /// `extend` is handed an iterator that cannot tell its length in advance (`filter`, size_hint (0, Some(n)))
    #[serde(default)]
    pub lazy_extend: bool,
}

fn op() -> impl Strategy<Value = Op> {
    prop_oneof![
        24 => Just(Op::Push),
        8 => (2u8..4).prop_map(Op::PushBundle),
        24 => any::<u16>().prop_map(Op::HandleOk),
        16 => Just(Op::HandleErr),
        16 => any::<u16>().prop_map(Op::HandleInOk),
        16 => Just(Op::HandleInErr),
        16 => (0u8..4).prop_map(Op::Extend),
        24 => Just(Op::Checkpoint),
        1 => (1000u16..1100).prop_map(Op::PushMany),
    ]
}

fn end() -> impl Strategy<Value = End> {
    prop_oneof![
        3 => Just(End::Finish),
        3 => any::<u16>().prop_map(End::FinishWith),
        2 => Just(End::IntoInner),
        2 => Just(End::Drop),
    ]
}

pub fn history() -> impl Strategy<Value = History> {
    // Two regimes: error-heavy histories and Ok-heavy histories (so that checkpoints on an empty
    // accumulator followed by more work are common, not lucky).
    let heavy = prop::collection::vec(op(), 0..24);
    let okish = prop::collection::vec(
        prop_oneof![
            6 => any::<u16>().prop_map(Op::HandleOk),
            4 => any::<u16>().prop_map(Op::HandleInOk),
            3 => Just(Op::Extend(0)),
            4 => Just(Op::Checkpoint),
            1 => Just(Op::Push),
            1 => Just(Op::HandleErr),
        ],
        0..24,
    );
    (prop_oneof![heavy, okish], end(), prop::bool::weighted(0.3), prop::bool::weighted(0.25), any::<bool>()).prop_map(|(ops, end, repeat_labels, from_default, lazy_extend)| History { ops, end, repeat_labels, from_default, lazy_extend })
}

/// The same histories decoded from bytes (for the coverage-guided driver).
pub fn history_from(d: &mut vmodel::dec::D) -> History {
    let n = d.below(24);
    let okish = d.bool();
    let ops = (0..n)
        .map(|_| {
            if !okish && d.ratio(1, 150) {
                return Op::PushMany(1000 + d.below(100) as u16);
            }
            let w: [usize; 8] = if okish { [1, 0, 6, 1, 4, 0, 3, 4] } else { [3, 1, 3, 2, 2, 2, 2, 3] };
            match d.weighted(&w) {
                0 => Op::Push,
                1 => Op::PushBundle(2 + d.below(2) as u8),
                2 => Op::HandleOk(d.below(65536) as u16),
                3 => Op::HandleErr,
                4 => Op::HandleInOk(d.below(65536) as u16),
                5 => Op::HandleInErr,
                6 => Op::Extend(if okish { 0 } else { d.below(4) as u8 }),
                _ => Op::Checkpoint,
            }
        })
        .collect();
    let end = match d.weighted(&[3, 3, 2, 2]) {
        0 => End::Finish,
        1 => End::FinishWith(d.below(65536) as u16),
        2 => End::IntoInner,
        _ => End::Drop,
    };
    History { ops, end, repeat_labels: d.ratio(1, 3), from_default: d.ratio(1, 4), lazy_extend: d.bool() }
}

fn lbl(n: usize) -> String {
    format!("e{}", n)
}

/// "A bundle of one is that one": when exactly one single error was recorded, what comes back is that error itself -
/// locating it again composes one path (`e0 at outer/p`), it is not a wrapper around it (`e0 at p at outer`).
fn check_singleton(e: &Error, rec: &[Vec<String>], what: &str) -> Result<(), Fail> {
    if rec.len() == 1 && rec[0].len() == 1 {
        let base = rec[0][0].trim_end_matches(" at p").to_string();
        let got = e.clone().at("outer").to_string();
        ensure!(got == format!("{} at outer/p", base), "c05:bundle-of-one-is-not-that-one", "{}: the only recorded error `{}` comes back as `{}` after .at(\"outer\")", what, rec[0][0], got);
    }
    Ok(())
}

type R = Option<(usize, usize)>;

thread_local! {
    static POOL: std::cell::RefCell<Vec<proc_macro2::Span>> = std::cell::RefCell::new(vec![]);
}

/// Eight distinct source spans per case (one source text is parsed per case; the previous case's is forgotten).
fn pool_reset() {
    vmodel::util::fresh_spans();
    let ts: proc_macro2::TokenStream = "s0 s1 s2 s3 s4 s5 s6 s7".parse().expect("span pool");
    POOL.with(|p| *p.borrow_mut() = ts.into_iter().map(|t| t.span()).collect());
}

fn pool(i: usize) -> proc_macro2::Span {
    POOL.with(|p| p.borrow()[i % 8])
}

/// Which span the error labelled `n` is built with: every third label has none.
fn span_rule(n: usize) -> Option<usize> {
    if n % 3 == 1 {
        None
    } else {
        Some(n % 7)
    }
}

fn spans_of(e: &Error) -> Vec<R> {
    e.clone().flatten().into_iter().map(|x| x.explicit_span().map(vmodel::util::range)).collect()
}

/// What was recorded comes back with the spans it was recorded with: every leaf its own span, else the span of the bundle
/// it was recorded in, else none - and the bundle the accumulator makes carries no span of its own.
fn check_spans(e: &Error, rec: &[Vec<String>], rec_spans: &[Vec<R>], what: &str) -> Result<(), Fail> {
    let want: Vec<R> = rec_spans.iter().flatten().cloned().collect();
    let got = spans_of(e);
    ensure!(got == want, "c05:spans-differ", "{}: the recorded errors {:?} come back with spans {:?}, they were recorded with {:?}", what, rec, got, want);
    if rec.len() >= 2 {
        ensure!(e.explicit_span().is_none(), "c05:bundle-has-a-span-nobody-attached", "{}: the bundle of {} recorded errors carries the span {:?}", what, rec.len(), e.explicit_span().map(vmodel::util::range));
    }
    Ok(())
}

fn labels_of(e: Error) -> Vec<String> {
    e.flatten().into_iter().map(|x| x.to_string()).collect()
}

/// Holds the accumulator under test and defuses it when an oracle returns early, so that a detected
/// violation is reported as such instead of tripping the accumulator's own drop bomb.
struct Defuse(Option<Accumulator>);
impl Drop for Defuse {
    fn drop(&mut self) {
        if let Some(a) = self.0.take() {
            // (leaked on purpose: neither the drop bomb nor an `into_inner` that panics may fire while a reported
            // failure - or a panic of the operation under test - unwinds through here)
            std::mem::forget(a);
        }
    }
}

/// Interpret the history against the real accumulator and the model at once.
/// Returns Err on the first divergence.
pub fn check(ctx: &Ctx, h: &History) -> Result<(), Fail> {
    // an operation that panics where the contract says it returns (say, on an accumulator that is not armed) is a
    // violation of the contract, not a failure of the harness
    match catch(|| check_inner(ctx, h)) {
        Ok(r) => r,
        Err(p) => Err(Fail::new("c05:operation-panicked", format!("an accumulator operation panicked: {}", p))),
    }
}

fn check_inner(ctx: &Ctx, h: &History) -> Result<(), Fail> {
    let mut guard = Defuse(Some(if h.from_default { darling_core::error::Accumulator::default() } else { Error::accumulator() }));
    macro_rules! acc {
        () => {
            guard.0.as_mut().expect("live accumulator")
        };
    }
    // model: recorded errors, each a list of labels (a bundle records as one error with several leaves)
    let mut rec: Vec<Vec<String>> = vec![];
    let mut rec_spans: Vec<Vec<R>> = vec![];
    pool_reset();
    let mut next = 0usize;
    let mut recording_ops = 0usize;
    let mut checkpoints = 0usize;
    let repeat = h.repeat_labels;
    let leaf = |n: usize| -> (Error, String, R) {
        let l = lbl(n);
        let e = Error::custom(&l).at("p");
        match span_rule(n) {
            Some(i) => (e.with_span(&pool(i)), l, Some(vmodel::util::range(pool(i)))),
            None => (e, l, None),
        }
    };
    let mut fresh = |k: usize, next: &mut usize| -> (Error, Vec<String>, Vec<R>) {
        if k <= 1 {
            let (e, l, r) = leaf(if repeat { *next / 2 % 2 } else { *next });
            *next += 1;
            (e, vec![format!("{} at p", l)], vec![r])
        } else {
            let first = *next;
            let parts: Vec<(Error, String, R)> = (0..k)
                .map(|_| {
                    let x = leaf(if repeat { *next / 2 % 2 } else { *next });
                    *next += 1;
                    x
                })
                .collect();
            // two bundles in three carry a location of their own, which flattening puts in front of their members' locations
            let located = first % 3 != 1;
            let labels: Vec<String> = parts.iter().map(|p| if located { format!("{} at q/p", p.1) } else { format!("{} at p", p.1) }).collect();
            let mut spans: Vec<R> = parts.iter().map(|p| p.2).collect();
            let mut b = Error::multiple(parts.into_iter().map(|p| p.0).collect());
            if located {
                b = b.at("q");
            }
            // every other bundle has a span of its own, which its span-less members inherit when the tree is flattened
            if first % 2 == 0 {
                b = b.with_span(&pool(7));
                let br = Some(vmodel::util::range(pool(7)));
                for s in spans.iter_mut() {
                    if s.is_none() {
                        *s = br;
                    }
                }
            }
            (b, labels, spans)
        }
    };
    for (i, op) in h.ops.iter().enumerate() {
        match op {
            Op::Push => {
                let (e, l, sp) = fresh(1, &mut next);
                acc!().push(e);
                rec.push(l);
                rec_spans.push(sp);
                recording_ops += 1;
            }
            Op::PushBundle(k) => {
                let (e, l, sp) = fresh(*k as usize, &mut next);
                acc!().push(e);
                rec.push(l);
                rec_spans.push(sp);
                recording_ops += 1;
            }
            Op::HandleOk(v) => {
                let r = acc!().handle(Ok::<u16, Error>(*v));
                ensure!(
                    r == Some(*v),
                    "c05:handle-ok",
                    "op {}: handle(Ok({})) returned {:?}",
                    i,
                    v,
                    r
                );
            }
            Op::HandleErr => {
                // (the error handed to `handle` may itself be a bundle, with or without a span: one recorded error)
                let (e, l, sp) = fresh(if i % 3 == 1 { 2 } else { 1 }, &mut next);
                rec_spans.push(sp);
                let r = acc!().handle(Err::<u16, Error>(e));
                ensure!(
                    r.is_none(),
                    "c05:handle-err",
                    "op {}: handle(Err) returned {:?}",
                    i,
                    r
                );
                rec.push(l);
                recording_ops += 1;
            }
            Op::HandleInOk(v) => {
                let r = acc!().handle_in(|| Ok::<u16, Error>(*v));
                ensure!(
                    r == Some(*v),
                    "c05:handle-in-ok",
                    "op {}: handle_in(Ok({})) returned {:?}",
                    i,
                    v,
                    r
                );
            }
            Op::HandleInErr => {
                let (e, l, sp) = fresh(if i % 3 == 2 { 3 } else { 1 }, &mut next);
                rec_spans.push(sp);
                let r = acc!().handle_in(|| Err::<u16, Error>(e));
                ensure!(
                    r.is_none(),
                    "c05:handle-in-err",
                    "op {}: handle_in(Err) returned {:?}",
                    i,
                    r
                );
                rec.push(l);
                recording_ops += 1;
            }
            Op::Extend(k) => {
                let mut es = vec![];
                for j in 0..*k {
                    // (an item handed to `extend` may itself be a bundle: it is recorded as one error)
                    let (e, l, sp) = fresh(if j == 1 && i % 3 == 0 { 2 } else { 1 }, &mut next);
                    es.push(e);
                    rec.push(l);
                    rec_spans.push(sp);
                }
                if h.lazy_extend {
                    // the same errors through adapters that cannot promise a length: `filter` (lower bound 0), or - for
                    // one error - the error itself, whose IntoIter keeps the default size_hint
                    if es.len() == 1 && i % 2 == 0 {
                        let only = es.pop().unwrap();
                        acc!().extend(only);
                    } else {
                        acc!().extend(es.into_iter().filter(|_| true));
                    }
                } else {
                    acc!().extend(es);
                }
                if *k > 0 {
                    recording_ops += 1;
                }
            }
            Op::PushMany(k) => {
                for j in 0..*k {
                    let (e, l, sp) = fresh(1, &mut next);
                    match j % 3 {
                        0 => acc!().push(e),
                        1 => {
                            let r = acc!().handle(Err::<u16, Error>(e));
                            ensure!(r.is_none(), "c05:handle-err", "op {}: handle(Err) returned {:?}", i, r);
                        }
                        _ => {
                            let r = acc!().handle_in(|| Err::<u16, Error>(e));
                            ensure!(r.is_none(), "c05:handle-in-err", "op {}: handle_in(Err) returned {:?}", i, r);
                        }
                    }
                    rec.push(l);
                    rec_spans.push(sp);
                }
                recording_ops += 1;
            }
            Op::Checkpoint => {
                checkpoints += 1;
                match guard.0.take().expect("live accumulator").checkpoint() {
                    Ok(a) => {
                        guard.0 = Some(a);
                        ensure!(
                            rec.is_empty(),
                            "c05:checkpoint-ok-nonempty",
                            "op {}: checkpoint() succeeded with {} recorded errors",
                            i,
                            rec.len()
                        );
                        // whether the fresh accumulator is armed is observed by histories that
                        // end in Drop after this point
                    }
                    Err(e) => {
                        ensure!(
                            !rec.is_empty(),
                            "c05:checkpoint-err-empty",
                            "op {}: checkpoint() failed with nothing recorded: {}",
                            i,
                            e
                        );
                        let want: Vec<String> = rec.iter().flatten().cloned().collect();
                        check_singleton(&e, &rec, "checkpoint()")?;
                        check_spans(&e, &rec, &rec_spans, "checkpoint()")?;
                        let n_direct = e.clone().into_iter().count();
                        let got = labels_of(e);
                        ensure!(
                            got == want,
                            "c05:checkpoint-content",
                            "op {}: checkpoint() error holds {:?}, recorded {:?}",
                            i,
                            got,
                            want
                        );
                        if rec.len() >= 2 {
                            ensure!(
                                n_direct == rec.len(),
                                "c05:checkpoint-arity",
                                "op {}: checkpoint() bundles {} errors, {} were recorded",
                                i,
                                n_direct,
                                rec.len()
                            );
                        }
                        classify(ctx, h, recording_ops, checkpoints, "ends-at-checkpoint");
                        return Ok(());
                    }
                }
            }
        }
    }
    let want: Vec<String> = rec.iter().flatten().cloned().collect();
    match &h.end {
        End::Finish | End::FinishWith(_) => {
            let (res, val): (Result<u16, Error>, u16) = match &h.end {
                End::Finish => (guard.0.take().expect("live").finish().map(|()| 0), 0),
                End::FinishWith(v) => (guard.0.take().expect("live").finish_with(*v), *v),
                _ => unreachable!(),
            };
            match res {
                Ok(v) => {
                    ensure!(
                        rec.is_empty(),
                        "c05:finish-ok-nonempty",
                        "finish returned Ok with {} recorded errors {:?}",
                        rec.len(),
                        want
                    );
                    ensure!(v == val, "c05:finish-value", "finish_with({}) gave Ok({})", val, v);
                }
                Err(e) => {
                    ensure!(
                        !rec.is_empty(),
                        "c05:finish-err-empty",
                        "finish failed with nothing recorded: {}",
                        e
                    );
                    ensure!(
                        e.len() == want.len(),
                        "c05:finish-len",
                        "finish error len() {} but {} leaves recorded",
                        e.len(),
                        want.len()
                    );
                    check_singleton(&e, &rec, "finish")?;
                    check_spans(&e, &rec, &rec_spans, "finish")?;
                    let n_direct = e.clone().into_iter().count();
                    let got = labels_of(e);
                    ensure!(
                        got == want,
                        "c05:finish-content",
                        "finish error holds {:?}, recorded {:?}",
                        got,
                        want
                    );
                    if rec.len() >= 2 {
                        ensure!(
                            n_direct == rec.len(),
                            "c05:finish-arity",
                            "finish bundles {} errors, {} were recorded",
                            n_direct,
                            rec.len()
                        );
                    }
                }
            }
        }
        End::IntoInner => {
            let v = guard.0.take().expect("live").into_inner();
            ensure!(
                v.len() == rec.len(),
                "c05:into-inner-len",
                "into_inner() has {} errors, {} recorded",
                v.len(),
                rec.len()
            );
            let got_spans: Vec<R> = v.iter().flat_map(spans_of).collect();
            let want_spans: Vec<R> = rec_spans.iter().flatten().cloned().collect();
            ensure!(got_spans == want_spans, "c05:spans-differ", "into_inner(): spans {:?}, recorded with {:?}", got_spans, want_spans);
            let got: Vec<String> = v.into_iter().flat_map(labels_of).collect();
            ensure!(
                got == want,
                "c05:into-inner-content",
                "into_inner() holds {:?}, recorded {:?}",
                got,
                want
            );
        }
        End::Drop => {
            let a = guard.0.take().expect("live");
            let r = catch(move || drop(a));
            match r {
                Ok(()) => fail!(
                    "c05:drop-no-panic",
                    "dropping an unfinished accumulator with {} errors did not panic",
                    rec.len()
                ),
                Err(msg) => {
                    if !rec.is_empty() {
                        let n = rec.len().to_string();
                        let has_n = msg
                            .split(|c: char| !c.is_ascii_digit())
                            .any(|tok| tok == n);
                        // the message text before the " @ file:line" suffix
                        let text = msg.rsplit_once(" @ ").map(|x| x.0).unwrap_or(&msg);
                        let has_n = has_n
                            && text
                                .split(|c: char| !c.is_ascii_digit())
                                .any(|tok| tok == n);
                        ensure!(
                            has_n,
                            "c05:drop-count",
                            "drop panic {:?} does not state that {} errors were lost",
                            msg,
                            n
                        );
                    }
                }
            }
        }
        End::DropDuringUnwind => {
            // handled by the child-process driver; in-process nothing to do here
            let _ = guard.0.take().expect("live").finish();
        }
    }
    classify(ctx, h, recording_ops, checkpoints, "ran-to-end");
    Ok(())
}

fn classify(ctx: &Ctx, h: &History, recording_ops: usize, checkpoints: usize, how: &str) {
    ctx.class(how);
    if recording_ops >= 3 && checkpoints >= 1 {
        ctx.nontrivial(h);
        ctx.class("recording>=3,checkpoint>=1");
    }
    if checkpoints >= 1 && how == "ran-to-end" {
        ctx.class("continued-after-checkpoint");
    }
    ctx.class(&format!("end:{:?}", h.end).split('(').next().unwrap().to_string());
    ctx.sample(|| json!(format!("{:?}", h)));
}

/// Child side of the drop-during-unwind probe: build the accumulator state, then panic with the
/// accumulator alive. If `Drop` panics too the process aborts (SIGABRT); otherwise the outer
/// catch_unwind sees the first panic and we exit 0.
pub fn child(encoded: &str) -> ! {
    // "<n>" or "<n>:<mode>": n recorded errors, built in one of several ways
    let (n, mode) = match encoded.split_once(':') {
        Some((a, b)) => (a.parse().unwrap_or(0), b.parse().unwrap_or(0)),
        None => (encoded.parse().unwrap_or(0), 0usize),
    };
    let n: usize = n;
    std::panic::set_hook(Box::new(|_| {}));
    let r = std::panic::catch_unwind(move || {
        let mut acc = Error::accumulator();
        match mode {
            // an accumulator handed back by a successful checkpoint, then n pushes
            2 => {
                let _ = acc.handle(Ok::<u8, Error>(1));
                acc = acc.checkpoint().expect("nothing recorded yet");
                for i in 0..n {
                    acc.push(Error::custom(lbl(i)));
                }
            }
            // everything recorded by one extend
            3 => acc.extend((0..n).map(|i| Error::custom(lbl(i)))),
            // recorded through handle / handle_in
            4 => {
                for i in 0..n {
                    if i % 2 == 0 {
                        let _ = acc.handle(Err::<u8, Error>(Error::custom(lbl(i))));
                    } else {
                        let _ = acc.handle_in(|| Err::<u8, Error>(Error::custom(lbl(i))));
                    }
                }
            }
            _ => {
                for i in 0..n {
                    acc.push(Error::custom(lbl(i)));
                }
                if mode == 1 || n % 2 == 1 {
                    let _ = acc.handle(Ok::<u8, Error>(1));
                }
            }
        }
        panic!("outer panic with live accumulator");
        #[allow(unreachable_code)]
        {
            let _ = acc.finish();
        }
    });
    if r.is_err() {
        println!("UNWOUND");
        std::process::exit(0);
    }
    std::process::exit(3);
}

fn unwind_probes(ctx: &Ctx, count: usize) -> bool {
    let exe = std::env::current_exe().expect("current_exe");
    let mut ok = true;
    for n in 0..count {
        ctx.eval();
        let recorded = n % 9;
        let mode = (n / 9) % 5;
        let out = std::process::Command::new(&exe)
            .arg("c05-child")
            .arg(format!("{}:{}", recorded, mode))
            .output()
            .expect("spawn child");
        let h = History {
            ops: vec![Op::Push; recorded],
            end: End::DropDuringUnwind,
            repeat_labels: false,
            from_default: false,
            lazy_extend: false,
        };
        ctx.nontrivial(&(recorded, mode, "unwind"));
        ctx.class("end:DropDuringUnwind");
        if recorded == 0 {
            ctx.class("unwind:empty-accumulator");
        }
        let good = out.status.code() == Some(0)
            && String::from_utf8_lossy(&out.stdout).contains("UNWOUND");
        if !good && ok {
            ok = false;
            ctx.violation(
                &Fail::new(
                    "c05:drop-during-unwind",
                    format!(
                        "accumulator with {} errors (built in mode {}) dropped while unwinding: child status {:?} (a second panic aborts the process)",
                        recorded, mode, out.status
                    ),
                ),
                serde_json::to_value(&h).unwrap(),
            );
        }
    }
    ok
}

fn regress_cases() -> Vec<History> {
    vec![
        History { ops: vec![], end: End::Finish, repeat_labels: false, from_default: false, lazy_extend: false },
        History { ops: vec![], end: End::Drop, repeat_labels: false, from_default: false, lazy_extend: false },
        History { ops: vec![Op::Push], end: End::Drop, repeat_labels: false, from_default: false, lazy_extend: false },
        History { ops: vec![Op::Push, Op::HandleErr, Op::Extend(2)], end: End::Drop, repeat_labels: false, from_default: false, lazy_extend: false },
        History { ops: vec![Op::Push], end: End::Finish, repeat_labels: false, from_default: false, lazy_extend: false },
        History { ops: vec![Op::Checkpoint, Op::Push, Op::Checkpoint], end: End::Finish, repeat_labels: false, from_default: false, lazy_extend: false },
        History { ops: vec![Op::Checkpoint, Op::Checkpoint], end: End::Drop, repeat_labels: false, from_default: false, lazy_extend: false },
        History { ops: vec![Op::Extend(3), Op::HandleInErr, Op::PushBundle(2)], end: End::FinishWith(7), repeat_labels: false, from_default: false, lazy_extend: false },
        History { ops: vec![Op::HandleOk(1), Op::HandleInOk(2), Op::Extend(0)], end: End::FinishWith(9), repeat_labels: false, from_default: false, lazy_extend: false },
        History { ops: vec![Op::Push, Op::Extend(1)], end: End::IntoInner, repeat_labels: false, from_default: false, lazy_extend: false },
    ]
}

pub fn run(args: &Args) -> bool {
    let ctx = Ctx::new("C05", "histories", vmodel::ev::mix_seed(args.seed, "C05", "histories", args.shard), args);
    ctx.set_rule("vec(op,0..24) over {push, push-bundle, handle Ok/Err, handle_in Ok/Err, extend(0..3), checkpoint, a run of 1000-1100 single errors} + terminal {finish, finish_with, into_inner, drop}, interpreted against (recorded list) model with uniquely labelled errors, two in three of them built with a source span, bundles (pushed, or handed to extend as one item) with a span of their own every other time: what comes back has the recorded labels in order, the recorded spans (own, else the enclosing recorded bundle's), and the accumulator's own bundle carries no span; drop-during-unwind probed in child processes. Non-trivial: >=3 recording ops and >=1 checkpoint, or an unwind probe; distinct by structural hash");
    if let Some(path) = &args.replay {
        let (_, case) = vmodel::ev::load_replay_case(path);
        let h: History = serde_json::from_value(case).expect("bad replay case");
        let ok = if h.end == End::DropDuringUnwind {
            unwind_probes(&ctx, 45)
        } else {
            run_list(&ctx, vec![h], check)
        };
        ctx.finish();
        return ok;
    }
    let mut ok = run_list(&ctx, regress_cases(), check);
    ok &= run_prop(&ctx, args.cases as u32, history(), check);
    let probes = if args.tier == "thorough" { 256 } else { 64 };
    ok &= unwind_probes(&ctx, probes);
    ctx.finish();
    ok
}
