//! C13: syntax-typed values reproduce the user's tokens; quoted and bare spellings agree.
//! Differential against syn parsing the same fragment directly as the target type.

use darling_core::util::parse_expr;
use darling_core::FromMeta;
use proptest::prelude::*;
use quote::ToTokens;
use serde_json::json;
use vmodel::dec::D;
use vmodel::ev::{run_list, run_prop, Args, Ctx, Fail};
use vmodel::util::{canon_tokens, catch, fresh_spans, inside, range};
use vmodel::{ensure, fail};

type Conv = fn(&syn::Meta) -> Result<String, darling_core::Error>;
type Direct = fn(&str) -> Option<String>;
type BareOk = fn(&syn::Expr) -> bool;

fn conv<T: FromMeta + ToTokens>(m: &syn::Meta) -> Result<String, darling_core::Error> {
    T::from_meta(m).map(|v| canon_tokens(v.to_token_stream()))
}
fn direct<T: syn::parse::Parse + ToTokens>(s: &str) -> Option<String> {
    syn::parse_str::<T>(s).ok().map(|v| canon_tokens(v.to_token_stream()))
}
fn never(_: &syn::Expr) -> bool {
    false
}
fn any_expr(_: &syn::Expr) -> bool {
    true
}
fn is_path(e: &syn::Expr) -> bool {
    matches!(e, syn::Expr::Path(p) if p.qself.is_none())
}
fn is_any_path(e: &syn::Expr) -> bool {
    matches!(e, syn::Expr::Path(_))
}
fn is_ident(e: &syn::Expr) -> bool {
    matches!(e, syn::Expr::Path(p) if p.qself.is_none() && p.path.get_ident().is_some())
}
fn is_array(e: &syn::Expr) -> bool {
    matches!(e, syn::Expr::Array(_))
}
fn is_range(e: &syn::Expr) -> bool {
    matches!(e, syn::Expr::Range(_))
}

fn conv_preds(m: &syn::Meta) -> Result<String, darling_core::Error> {
    Vec::<syn::WherePredicate>::from_meta(m).map(|v| canon_tokens(quote::quote!(#(#v),*)))
}
fn direct_preds(s: &str) -> Option<String> {
    syn::parse_str::<syn::WhereClause>(&format!("where {}", s)).ok().map(|c| {
        let v: Vec<_> = c.predicates.into_iter().collect();
        canon_tokens(quote::quote!(#(#v),*))
    })
}
fn conv_punct_ident(m: &syn::Meta) -> Result<String, darling_core::Error> {
    syn::punctuated::Punctuated::<syn::Ident, syn::Token![,]>::from_meta(m).map(|v| canon_tokens(v.to_token_stream()))
}
fn direct_punct_ident(s: &str) -> Option<String> {
    use syn::parse::Parser;
    syn::punctuated::Punctuated::<syn::Ident, syn::Token![,]>::parse_terminated.parse_str(s).ok().map(|v| canon_tokens(v.to_token_stream()))
}
fn conv_punct_expr(m: &syn::Meta) -> Result<String, darling_core::Error> {
    syn::punctuated::Punctuated::<syn::Expr, syn::Token![;]>::from_meta(m).map(|v| canon_tokens(v.to_token_stream()))
}
fn direct_punct_expr(s: &str) -> Option<String> {
    use syn::parse::Parser;
    syn::punctuated::Punctuated::<syn::Expr, syn::Token![;]>::parse_terminated.parse_str(s).ok().map(|v| canon_tokens(v.to_token_stream()))
}
fn conv_identstring(m: &syn::Meta) -> Result<String, darling_core::Error> {
    darling_core::util::IdentString::from_meta(m).map(|v| {
        assert_eq!(v.as_str(), v.as_ident().to_string());
        canon_tokens(v.to_token_stream())
    })
}
fn conv_callable(m: &syn::Meta) -> Result<String, darling_core::Error> {
    darling_core::util::Callable::from_meta(m).and_then(|v| {
        // the three views of a callable - its tokens, the borrowed expression, the owned expression - are the same tokens
        let printed = canon_tokens(v.to_token_stream());
        let borrowed = canon_tokens(AsRef::<syn::Expr>::as_ref(&v).to_token_stream());
        let owned = canon_tokens(syn::Expr::from(v).to_token_stream());
        if printed != borrowed || printed != owned {
            return Err(darling_core::Error::custom(format!("VIEWS-DIFFER printed `{}` as_ref `{}` into `{}`", printed, borrowed, owned)));
        }
        Ok(printed)
    })
}
fn direct_none(_: &str) -> Option<String> {
    None
}
fn direct_expr(s: &str) -> Option<String> {
    direct::<syn::Expr>(s)
}
fn is_callable(e: &syn::Expr) -> bool {
    matches!(e, syn::Expr::Path(_) | syn::Expr::Closure(_))
}

macro_rules! quoted_only {
    ($($t:ty),*) => { vec![$( (stringify!($t), conv::<$t> as Conv, direct::<$t> as Direct, never as BareOk) ),*] };
}

pub fn targets() -> Vec<(&'static str, Conv, Direct, BareOk)> {
    let mut v: Vec<(&'static str, Conv, Direct, BareOk)> = vec![
        ("syn::Path", conv::<syn::Path>, direct::<syn::Path>, is_path),
        ("syn::Ident", conv::<syn::Ident>, direct::<syn::Ident>, is_ident),
        ("IdentString", conv_identstring, direct::<syn::Ident>, is_ident),
        ("syn::Expr", conv::<syn::Expr>, direct::<syn::Expr>, any_expr),
        ("syn::ExprArray", conv::<syn::ExprArray>, direct::<syn::ExprArray>, is_array),
        ("syn::ExprPath", conv::<syn::ExprPath>, direct::<syn::ExprPath>, is_any_path),
        ("syn::ExprRange", conv::<syn::ExprRange>, direct::<syn::ExprRange>, is_range),
        ("Vec<syn::WherePredicate>", conv_preds, direct_preds, never),
        ("Punctuated<Ident, Comma>", conv_punct_ident, direct_punct_ident, never),
        ("Punctuated<Expr, Semi>", conv_punct_expr, direct_punct_expr, never),
    ];
    v.extend(quoted_only!(
        syn::Type, syn::TypeArray, syn::TypeBareFn, syn::TypeImplTrait, syn::TypeInfer, syn::TypeMacro, syn::TypeNever,
        syn::TypeParam, syn::TypeParen, syn::TypePath, syn::TypePtr, syn::TypeReference, syn::TypeSlice,
        syn::TypeTraitObject, syn::TypeTuple, syn::Visibility, syn::WhereClause
    ));
    v
}

// ------------------------------------------------------------------------------------------
// fragment grammar

const IDS: &[&str] = &["a", "b", "foo", "Bar", "r#type", "x1", "T", "self", "crate", "super", "Self", "r#fn"];
const LITS: &[&str] = &["1", "2u8", "0xff", "1.5", "\"s\"", "'c'", "true", "b'x'", "b\"bs\"", "r\"raw\"", "1e3", "\"a b\""];

pub fn g_path(d: &mut D, expr_style: bool) -> String {
    let mut s = String::new();
    if d.ratio(1, 5) {
        s.push_str("::");
    }
    let n = d.range(1, 3);
    for i in 0..n {
        if i > 0 {
            s.push_str("::");
        }
        // keyword segments only up front
        let id = if i == 0 { *d.pick(IDS) } else { *d.pick(&IDS[..7]) };
        s.push_str(id);
    }
    if d.ratio(1, 5) {
        let args = *d.pick(&["<u8>", "<A, B>", "<Vec<T>, 'a>", "<{ 1 + 1 }>", "<Item = u8>"]);
        if expr_style || d.bool() {
            s.push_str("::");
        }
        s.push_str(args);
        if d.ratio(1, 3) {
            s.push_str("::tail");
        }
    }
    s
}

pub fn g_expr(d: &mut D, depth: usize) -> String {
    if depth == 0 || d.ratio(1, 3) {
        return match d.below(4) {
            0 => d.pick(LITS).to_string(),
            1 | 2 => g_path(d, true),
            _ => d.pick(&IDS[..7]).to_string(),
        };
    }
    let dd = depth - 1;
    match d.below(26) {
        0 => format!("{} + {}", g_expr(d, dd), g_expr(d, dd)),
        1 => format!("{} * ({} - {})", g_expr(d, dd), g_expr(d, dd), g_expr(d, dd)),
        2 => format!("{}({}, {})", g_path(d, true), g_expr(d, dd), g_expr(d, dd)),
        3 => format!("{}.m({})", g_expr(d, 0), g_expr(d, dd)),
        4 => format!("|x, y| {}", g_expr(d, dd)),
        5 => format!("move |x: u8| -> u8 {{ {} }}", g_expr(d, dd)),
        6 => format!("{{ let z = {}; z }}", g_expr(d, dd)),
        7 => format!("[{}, {}]", g_expr(d, dd), g_expr(d, dd)),
        8 => format!("[{}; 3]", g_expr(d, dd)),
        9 => format!("{}..{}", g_expr(d, 0), g_expr(d, 0)),
        10 => format!("..={}", g_expr(d, 0)),
        11 => format!("{}..", g_expr(d, 0)),
        12 => format!("({})", g_expr(d, dd)),
        13 => format!("({}, {})", g_expr(d, dd), g_expr(d, dd)),
        14 => format!("-{}", g_expr(d, 0)),
        15 => format!("!{}", g_expr(d, 0)),
        16 => format!("&{}", g_expr(d, dd)),
        17 => format!("{}[{}]", g_expr(d, 0), g_expr(d, dd)),
        18 => format!("{}.field", g_expr(d, 0)),
        19 => format!("{} as u8", g_expr(d, 0)),
        20 => format!("if {} {{ {} }} else {{ {} }}", g_expr(d, 0), g_expr(d, dd), g_expr(d, dd)),
        21 => format!("match {} {{ 1 => {}, _ => {} }}", g_expr(d, 0), g_expr(d, 0), g_expr(d, 0)),
        22 => format!("S {{ f: {}, g: {} }}", g_expr(d, dd), g_expr(d, dd)),
        23 => format!("m!({}; {})", g_expr(d, 0), g_expr(d, 0)),
        24 => format!("<{} as Tr>::Out", g_type(d, 0)),
        _ => format!("{}?", g_expr(d, 0)),
    }
}

pub fn g_type(d: &mut D, depth: usize) -> String {
    if depth == 0 || d.ratio(1, 3) {
        return match d.below(5) {
            0 => "u8".into(),
            1 => "_".into(),
            2 => "!".into(),
            3 => g_path(d, false),
            _ => "m!(x)".into(),
        };
    }
    let dd = depth - 1;
    match d.below(14) {
        0 => format!("[{}; 4]", g_type(d, dd)),
        1 => format!("fn({}) -> {}", g_type(d, dd), g_type(d, dd)),
        2 => format!("impl Tr<{}> + 'a", g_type(d, dd)),
        3 => format!("({})", g_type(d, dd)),
        4 => format!("*const {}", g_type(d, dd)),
        5 => format!("*mut {}", g_type(d, dd)),
        6 => format!("&'a mut {}", g_type(d, dd)),
        7 => format!("&{}", g_type(d, dd)),
        8 => format!("[{}]", g_type(d, dd)),
        9 => format!("dyn Tr<{}> + Send", g_type(d, dd)),
        10 => format!("({}, {})", g_type(d, dd), g_type(d, dd)),
        11 => "()".into(),
        12 => format!("Vec<{}>", g_type(d, dd)),
        _ => format!("for<'a> unsafe extern \"C\" fn(&'a {})", g_type(d, dd)),
    }
}

/// A separated list whose elements come from a small pool *with repetition* (equal neighbours are
/// common): predicates, identifiers or expressions; optional trailing separator.
fn g_repeated_list(d: &mut D) -> (String, &'static str) {
    const PREDS: &[&str] = &["T: Clone", "U: Copy", "'a: 'b", "for<'x> &'x T: Tr<U>", "Vec<T>: Into<U>", "T: ?Sized + 'a"];
    let (pool, sep, cat): (Vec<String>, &str, &'static str) = match d.below(4) {
        0 | 1 => (PREDS.iter().map(|s| s.to_string()).collect(), ", ", "predicates"),
        2 => (IDS[..6].iter().map(|s| s.to_string()).collect(), ", ", "misc"),
        _ => (vec!["x".to_string(), "y + 1".to_string(), "f(a, b)".to_string(), "\"s\"".to_string()], "; ", "misc"),
    };
    let n = d.range(1, 5);
    let k = d.range(1, 2.min(pool.len()));
    let base = d.below(pool.len());
    let mut xs = vec![];
    for _ in 0..n {
        xs.push(pool[(base + d.below(k + 1)) % pool.len()].clone());
    }
    let mut s = xs.join(sep);
    if d.ratio(1, 4) {
        s.push_str(sep.trim_end());
    }
    if cat == "predicates" && d.ratio(1, 3) {
        return (format!("where {}", s), "where");
    }
    (s, cat)
}

pub fn g_fragment(d: &mut D) -> (String, &'static str) {
    if d.ratio(1, 10) {
        return g_repeated_list(d);
    }
    match d.below(12) {
        0 | 1 => {
            let es = d.bool();
            (g_path(d, es), "path")
        }
        2 => (d.pick(IDS).to_string(), "ident"),
        3 | 4 | 5 => (g_expr(d, 3), "expr"),
        6 | 7 => (g_type(d, 3), "type"),
        8 => (d.pick(&["", "pub", "pub(crate)", "pub(super)", "pub(in a::b)", "pub(self)", "crate"]).to_string(), "vis"),
        9 => (d.pick(&["where T: Clone", "where T: Clone, 'a: 'b,", "where for<'a> &'a T: Tr<U>", "where", "where T: ?Sized + 'a, Vec<T>: Into<U>"]).to_string(), "where"),
        10 => (d.pick(&["T: Clone", "T: Clone, U: Copy", "'a: 'b, T: 'a,", "", "T: Tr<A, B>, [T; 2]: Default", "T: Clone + ", "T"]).to_string(), "predicates"),
        _ => (d.pick(&["T: Clone + 'a", "T = u8", "T", "a, b, c", "a, b,", "x; y + 1; z", "type", "1 +", ")", "a b", "'a", "fn(u8", "[u8; 4]]", "(", "Vec<u8", "{ a", "a ] b", "#"]).to_string(), "misc"),
    }
}

fn item_range(m: &syn::Meta) -> (usize, usize) {
    use syn::spanned::Spanned;
    range(m.span())
}

fn check_err(e: &darling_core::Error, m: &syn::Meta, what: &str) -> Result<(), Fail> {
    match e.explicit_span() {
        None => fail!("c13:error-unspanned", "{}: error `{}` carries no span", what, e),
        Some(s) => {
            let r = range(s);
            ensure!(inside(r, item_range(m)), "c13:error-span-outside-item", "{}: error `{}` spans {:?}, item {:?}", what, e, r, item_range(m));
            // a span of no width points at nothing the user wrote (a secondary lexer's position, the call site)
            ensure!(r.1 > r.0, "c13:error-span-empty", "{}: error `{}` has the empty span {:?}, item {:?}", what, e, r, item_range(m));
        }
    }
    Ok(())
}

/// strip invisible groups and parentheses-less wrappers syn adds for grouped values
fn ungroup(e: &syn::Expr) -> &syn::Expr {
    match e {
        syn::Expr::Group(g) => ungroup(&g.expr),
        _ => e,
    }
}

pub fn check_fragment(ctx: &Ctx, frag: &str, cat: &str) -> Result<(), Fail> {
    fresh_spans();
    ctx.set_render(json!({"fragment": frag, "category": cat}));
    let ntoks = frag.parse::<proc_macro2::TokenStream>().map(|t| canon_tokens(t).split(' ').count()).unwrap_or(0);
    if ntoks >= 5 || frag.contains('(') || frag.contains('[') {
        ctx.nontrivial(frag);
    }
    ctx.class(&format!("cat:{}", cat));
    ctx.sample(|| json!({"fragment": frag, "category": cat}));
    // spellings: quoted, bare (when the fragment is an expression), bare inside an invisible group
    let quoted_src = format!("v = {:?}", frag);
    let quoted: syn::Meta = match syn::parse_str(&quoted_src) {
        Ok(m) => m,
        Err(e) => fail!("c13:harness-render", "`{}`: {}", quoted_src, e),
    };
    let bare: Option<syn::Meta> = if syn::parse_str::<syn::Expr>(frag).is_ok() { syn::parse_str(&format!("v = {}", frag)).ok() } else { None };
    let grouped: Option<syn::Meta> = bare.as_ref().and_then(|b| {
        if let syn::Meta::NameValue(nv) = b {
            use syn::spanned::Spanned;
            let v = &nv.value;
            let mut g = proc_macro2::Group::new(proc_macro2::Delimiter::None, quote::quote!(#v));
            g.set_span(v.span());
            let (p, eq) = (&nv.path, &nv.eq_token);
            syn::parse2(quote::quote!(#p #eq #g)).ok()
        } else {
            None
        }
    });
    if bare.is_some() {
        ctx.class("has-bare-spelling");
    }
    // invisible groups built as syntax-tree nodes (what `macro_rules!` forwarding of `$e:expr` / `$l:literal`
    // delivers in any position; syn's parser itself only keeps the group in some positions), one and two
    // levels deep, around the bare and around the quoted spelling
    let wrap = |m: &syn::Meta, levels: usize| -> syn::Meta {
        use syn::spanned::Spanned;
        match m {
            syn::Meta::NameValue(nv) => {
                let mut v = nv.value.clone();
                for _ in 0..levels {
                    let sp = v.span();
                    v = syn::Expr::Group(syn::ExprGroup { attrs: vec![], group_token: syn::token::Group { span: sp }, expr: Box::new(v) });
                }
                syn::Meta::NameValue(syn::MetaNameValue { path: nv.path.clone(), eq_token: nv.eq_token, value: v })
            }
            _ => unreachable!(),
        }
    };
    let g1 = bare.as_ref().map(|b| wrap(b, 1));
    let g2 = bare.as_ref().map(|b| wrap(b, 2));
    let gq1 = Some(wrap(&quoted, 1));
    let gq2 = Some(wrap(&quoted, 2));
    for (name, conv, direct, bare_ok) in targets() {
        ctx.eval();
        let want_q = direct(frag);
        let got_q = match catch(|| conv(&quoted)) {
            Ok(r) => r,
            Err(p) => fail!("c13:panic", "{}::from_meta(`{}`) panicked: {}", name, quoted_src, p),
        };
        let whatq = format!("{}::from_meta(`{}`)", name, quoted_src);
        match (&got_q, &want_q) {
            (Ok(g), Some(w)) => ensure!(g == w, format!("c13:quoted-tokens-differ:{}", name), "{} prints `{}`, syn parses the contents as `{}`", whatq, g, w),
            (Ok(g), None) => fail!(format!("c13:quoted-accepted:{}", name), "{} = `{}` although the contents do not parse as {}", whatq, g, name),
            (Err(e), Some(w)) => fail!(format!("c13:quoted-rejected:{}", name), "{} failed with `{}` although the contents parse as `{}`", whatq, e, w),
            (Err(e), None) => check_err(e, &quoted, &whatq)?,
        }
        for (label, m) in [("bare", &bare), ("grouped", &grouped), ("grouped", &g1), ("grouped", &g2), ("grouped", &gq1), ("grouped", &gq2)] {
            let m = match m {
                Some(m) => m,
                None => continue,
            };
            let value = match m {
                syn::Meta::NameValue(nv) => ungroup(&nv.value).clone(),
                _ => unreachable!(),
            };
            let what = format!("{}::from_meta(`v = {}`{})", name, frag, if label == "grouped" { " in an invisible group" } else { "" });
            let got = match catch(|| conv(m)) {
                Ok(r) => r,
                Err(p) => fail!("c13:panic", "{} panicked: {}", what, p),
            };
            // a bare string literal is the quoted spelling of its contents
            if let syn::Expr::Lit(syn::ExprLit { lit: syn::Lit::Str(s), .. }) = &value {
                let w = direct(&s.value());
                match (&got, &w) {
                    (Ok(g), Some(w)) => ensure!(g == w, format!("c13:quoted-tokens-differ:{}", name), "{} prints `{}`, expected `{}`", what, g, w),
                    (Ok(g), None) => fail!(format!("c13:quoted-accepted:{}", name), "{} = `{}` although the contents do not parse", what, g),
                    (Err(e), Some(_)) => fail!(format!("c13:quoted-rejected:{}", name), "{} failed with `{}`", what, e),
                    (Err(e), None) => check_err(e, m, &what)?,
                }
                continue;
            }
            let user = canon_tokens(value.to_token_stream());
            let must_accept = bare_ok(&value) && want_q.is_some();
            match &got {
                Ok(g) => {
                    // whatever is accepted bare prints like what the user wrote ...
                    ensure!(
                        *g == user,
                        format!("c13:bare-tokens-differ:{}", name),
                        "{} prints `{}`, the user wrote `{}`",
                        what, g, user
                    );
                    // ... and agrees with the quoted spelling where that is accepted too
                    if let Ok(q) = &got_q {
                        ensure!(q == g, format!("c13:bare-vs-quoted:{}", name), "{}: bare `{}` vs quoted `{}`", what, g, q);
                    }
                    ctx.class(&format!("{}-accepted", label));
                }
                Err(e) => {
                    ensure!(!must_accept, format!("c13:bare-rejected:{}", name), "{} failed with `{}` although `{}` is a valid {}", what, e, frag, name);
                    check_err(e, m, &what)?;
                }
            }
        }
    }
    // Callable: paths and closures, bare only
    for (label, m) in [("bare", &bare), ("grouped", &grouped), ("quoted", &Some(quoted.clone()))] {
        let m = match m {
            Some(m) => m,
            None => continue,
        };
        ctx.eval();
        let value = match m {
            syn::Meta::NameValue(nv) => nv.value.clone(),
            _ => unreachable!(),
        };
        let got = match catch(|| conv_callable(m)) {
            Ok(r) => r,
            Err(p) => fail!("c13:panic", "Callable::from_meta(`v = {}`) panicked: {}", frag, p),
        };
        let what = format!("Callable::from_meta(`v = {}` {})", frag, label);
        match &got {
            Ok(g) => {
                ensure!(is_callable(ungroup(&value)) || is_callable(&value), "c13:callable-accepted", "{} accepted a non-callable", what);
                ensure!(*g == canon_tokens(ungroup(&value).to_token_stream()) || *g == canon_tokens(value.to_token_stream()), "c13:callable-tokens", "{} prints `{}`", what, g);
            }
            Err(e) if e.to_string().starts_with("VIEWS-DIFFER") => fail!("c13:callable-views-differ", "{}: {}", what, e),
            Err(e) => {
                // an invisible group around a callable is allowed to be rejected or looked through; a plain one must be accepted
                ensure!(!(label == "bare" && is_callable(&value)), "c13:callable-rejected", "{} failed with `{}`", what, e);
                check_err(e, m, &what)?;
            }
        }
    }
    // the two expression helpers take name-value items only: a word or a list is refused with a spanned error
    for src in ["v".to_string(), format!("v({})", frag)] {
        if let Ok(m) = syn::parse_str::<syn::Meta>(&src) {
            for (hname, r) in [("preserve_str_literal", parse_expr::preserve_str_literal(&m)), ("parse_str_literal", parse_expr::parse_str_literal(&m))] {
                ctx.eval();
                match r {
                    Ok(e) => fail!("c13:helper-accepts-non-name-value", "{}(`{}`) = `{}`", hname, src, canon_tokens(e.to_token_stream())),
                    Err(e) => check_err(&e, &m, &format!("{}(`{}`)", hname, src))?,
                }
            }
        }
    }
    // the two expression helpers differ only on a string literal
    for m in [Some(&quoted), bare.as_ref(), g1.as_ref(), g2.as_ref(), gq1.as_ref(), gq2.as_ref()].into_iter().flatten() {
        ctx.eval();
        let keep = parse_expr::preserve_str_literal(m).map(|e| canon_tokens(e.to_token_stream()));
        let parse = parse_expr::parse_str_literal(m).map(|e| canon_tokens(e.to_token_stream()));
        // (invisible groups carry no meaning: what counts is the value inside)
        let value = match m {
            syn::Meta::NameValue(nv) => ungroup(&nv.value).clone(),
            _ => unreachable!(),
        };
        let user = canon_tokens(value.to_token_stream());
        match &keep {
            Ok(k) => ensure!(*k == user, "c13:preserve-changed-tokens", "preserve_str_literal(`{}`) prints `{}`", user, k),
            Err(e) => fail!("c13:preserve-failed", "preserve_str_literal(`{}`) failed: {}", user, e),
        }
        if let syn::Expr::Lit(syn::ExprLit { lit: syn::Lit::Str(s), .. }) = &value {
            let w = direct_expr(&s.value());
            match (&parse, &w) {
                (Ok(p), Some(w)) => ensure!(p == w, "c13:parse-str-literal-tokens", "parse_str_literal(`{}`) prints `{}`, expected `{}`", user, p, w),
                (Ok(p), None) => fail!("c13:parse-str-literal-accepted", "parse_str_literal(`{}`) = `{}` but the contents are no expression", user, p),
                (Err(e), Some(_)) => fail!("c13:parse-str-literal-rejected", "parse_str_literal(`{}`) failed: {}", user, e),
                (Err(_), None) => {}
            }
        } else {
            ensure!(parse.as_ref().ok() == Some(&user), "c13:helpers-differ-on-non-string", "parse_str_literal(`{}`) gives {:?}", user, parse.as_ref().map_err(|e| e.to_string()));
        }
    }
    Ok(())
}

pub fn check_fragment_bytes(ctx: &Ctx, bytes: &Vec<u8>) -> Result<(), Fail> {
    let mut d = D::new(bytes);
    let (f, cat) = g_fragment(&mut d);
    check_fragment(ctx, &f, cat)
}

// ------------------------------------------------------------------------------------------
// literal kinds, vectors of them, numeric arrays, path lists, whole meta items

const KLITS: &[(&str, &str)] = &[
    ("5", "int"), ("0xff_u8", "int"), ("1.5", "float"), ("2e3f32", "float"), ("\"s\"", "str"), ("r#\"q\"r\"#", "str"),
    ("b'x'", "byte"), ("b\"by\"", "bytestr"), ("'c'", "char"), ("true", "bool"), ("false", "bool"), ("\"[1, 2]\"", "str"), ("\"5\"", "str"),
];

fn lit_conv(kind: &str) -> (Conv, Conv) {
    fn vconv<T: ToTokens>(m: &syn::Meta) -> Result<String, darling_core::Error>
    where
        Vec<T>: FromMeta,
    {
        Vec::<T>::from_meta(m).map(|v| canon_tokens(quote::quote!(#(#v),*)))
    }
    match kind {
        "int" => (conv::<syn::LitInt>, vconv::<syn::LitInt>),
        "float" => (conv::<syn::LitFloat>, vconv::<syn::LitFloat>),
        "str" => (conv::<syn::LitStr>, vconv::<syn::LitStr>),
        "byte" => (conv::<syn::LitByte>, vconv::<syn::LitByte>),
        "bytestr" => (conv::<syn::LitByteStr>, vconv::<syn::LitByteStr>),
        "char" => (conv::<syn::LitChar>, vconv::<syn::LitChar>),
        "bool" => (conv::<syn::LitBool>, vconv::<syn::LitBool>),
        _ => unreachable!(),
    }
}
const KINDS: &[&str] = &["int", "float", "str", "byte", "bytestr", "char", "bool"];

pub fn check_lits(ctx: &Ctx, bytes: &Vec<u8>) -> Result<(), Fail> {
    fresh_spans();
    let mut d = D::new(bytes);
    let n = d.range(0, 5);
    // mostly homogeneous vectors
    let base = d.below(KLITS.len());
    let mut els: Vec<(&str, &str)> = vec![];
    for _ in 0..n {
        let k = if d.ratio(1, 5) {
            KLITS[d.below(KLITS.len())]
        } else {
            let same: Vec<&(&str, &str)> = KLITS.iter().filter(|x| x.1 == KLITS[base].1).collect();
            **d.pick(&same)
        };
        els.push(k);
    }
    let texts: Vec<&str> = els.iter().map(|e| e.0).collect();
    let spelling = d.below(4);
    let src = match spelling {
        0 => format!("v({})", texts.join(", ")),
        1 => format!("v = [{}]", texts.join(", ")),
        2 => format!("v = {:?}", format!("[{}]", texts.join(", "))),
        _ => format!("v = {}", texts.first().cloned().unwrap_or("5")),
    };
    ctx.set_render(json!(src));
    let m: syn::Meta = match syn::parse_str(&src) {
        Ok(m) => m,
        Err(e) => fail!("c13:harness-render", "`{}`: {}", src, e),
    };
    ctx.class(&format!("lits:spelling{}", spelling));
    if n >= 2 {
        ctx.nontrivial(&src);
    }
    ctx.sample(|| json!(src));
    let user = canon_tokens(texts.join(", ").parse::<proc_macro2::TokenStream>().unwrap());
    for kind in KINDS {
        ctx.eval();
        let (single, vecc) = lit_conv(kind);
        if spelling == 3 {
            let (t, k) = els.first().cloned().unwrap_or(("5", "int"));
            let got = single(&m);
            let what = format!("Lit{}::from_meta(`{}`)", kind, src);
            match &got {
                Ok(g) => {
                    ensure!(k == *kind, format!("c13:lit-kind-accepted:{}", kind), "{} accepted a {} literal", what, k);
                    ensure!(*g == canon_tokens(t.parse::<proc_macro2::TokenStream>().unwrap()), "c13:lit-tokens", "{} prints `{}`", what, g);
                }
                Err(e) => {
                    ensure!(k != *kind, format!("c13:lit-kind-rejected:{}", kind), "{} failed with `{}`", what, e);
                    check_err(e, &m, &what)?;
                }
            }
            // syn::Lit takes any literal unchanged
            let any = conv::<syn::Lit>(&m);
            ensure!(any.as_ref().ok() == Some(&canon_tokens(t.parse::<proc_macro2::TokenStream>().unwrap())), "c13:lit-any", "syn::Lit::from_meta(`{}`) gives {:?}", src, any.map_err(|e| e.to_string()));
            continue;
        }
        let got = match catch(|| vecc(&m)) {
            Ok(r) => r,
            Err(p) => fail!("c13:panic", "Vec<Lit{}>::from_meta(`{}`) panicked: {}", kind, src, p),
        };
        let all_kind = els.iter().all(|e| e.1 == *kind);
        let what = format!("Vec<Lit{}>::from_meta(`{}`)", kind, src);
        match &got {
            Ok(g) => {
                ensure!(all_kind, format!("c13:vec-lit-accepted:{}", kind), "{} accepted elements of other kinds: `{}`", what, g);
                ensure!(*g == user, "c13:vec-lit-order-or-content", "{} prints `{}`, the user wrote `{}`", what, g, user);
            }
            Err(e) => {
                ensure!(!all_kind, format!("c13:vec-lit-rejected:{}", kind), "{} failed with `{}` although every element is a {} literal", what, e, kind);
                check_err(e, &m, &what)?;
            }
        }
    }
    Ok(())
}

pub fn check_numeric(ctx: &Ctx, bytes: &Vec<u8>) -> Result<(), Fail> {
    fresh_spans();
    let mut d = D::new(bytes);
    let n = d.range(0, 6);
    let mut texts = vec![];
    let mut vals: Vec<Option<u128>> = vec![];
    for _ in 0..n {
        match d.below(10) {
            0 => {
                texts.push("\"7\"".to_string());
                vals.push(Some(7));
            }
            1 => {
                texts.push("x".to_string());
                vals.push(None);
            }
            2 => {
                texts.push("1.5".to_string());
                vals.push(None);
            }
            3 => {
                texts.push("70000".to_string());
                vals.push(Some(70000));
            }
            4 => {
                texts.push("0x10".to_string());
                vals.push(Some(16));
            }
            5 => {
                texts.push("-1".to_string());
                vals.push(None);
            }
            _ => {
                let v = d.range(0, 300) as u128;
                texts.push(v.to_string());
                vals.push(Some(v));
            }
        }
    }
    let quoted = d.bool();
    let body = format!("[{}]", texts.join(", "));
    let src = if quoted { format!("v = {:?}", body) } else { format!("v = {}", body) };
    ctx.set_render(json!(src));
    let m: syn::Meta = match syn::parse_str(&src) {
        Ok(m) => m,
        Err(e) => fail!("c13:harness-render", "`{}`: {}", src, e),
    };
    // elements inside invisible groups (what `$e:expr` forwarding produces) mean the same
    let m = if !quoted && d.ratio(1, 3) {
        match m {
            syn::Meta::NameValue(mut nv) => {
                if let syn::Expr::Array(arr) = &mut nv.value {
                    for el in arr.elems.iter_mut() {
                        use syn::spanned::Spanned;
                        let sp = el.span();
                        let inner = el.clone();
                        *el = syn::Expr::Group(syn::ExprGroup { attrs: vec![], group_token: syn::token::Group { span: sp }, expr: Box::new(inner) });
                    }
                }
                ctx.class("numeric-array:grouped-elements");
                syn::Meta::NameValue(nv)
            }
            other => other,
        }
    } else {
        m
    };
    if n >= 2 {
        ctx.nontrivial(&src);
    }
    ctx.class("numeric-array");
    ctx.sample(|| json!(src));
    macro_rules! one {
        ($t:ty) => {{
            ctx.eval();
            let got = match catch(|| Vec::<$t>::from_meta(&m)) {
                Ok(r) => r,
                Err(p) => fail!("c13:panic", "Vec<{}>::from_meta(`{}`) panicked: {}", stringify!($t), src, p),
            };
            let want: Option<Vec<$t>> = vals.iter().map(|v| v.and_then(|x| <$t>::try_from(x).ok())).collect();
            let what = format!("Vec<{}>::from_meta(`{}`)", stringify!($t), src);
            match (&got, &want) {
                (Ok(g), Some(w)) => ensure!(g == w, "c13:numeric-array-values", "{} = {:?}, expected {:?}", what, g, w),
                (Ok(g), None) => fail!("c13:numeric-array-accepted", "{} = {:?} although an element is not a {}", what, g, stringify!($t)),
                (Err(e), Some(w)) => fail!("c13:numeric-array-rejected", "{} failed with `{}`, expected {:?}", what, e, w),
                (Err(e), None) => check_err(e, &m, &what)?,
            }
        }};
    }
    one!(u8);
    one!(u16);
    one!(u32);
    one!(u64);
    one!(usize);
    Ok(())
}

pub fn check_meta_and_pathlist(ctx: &Ctx, bytes: &Vec<u8>) -> Result<(), Fail> {
    fresh_spans();
    let mut d = D::new(bytes);
    // whole meta items: reuse the list grammar of C15
    let el = crate::c15::gen_el(&mut d, 1);
    if !el.is_lit {
        if let Ok(m) = syn::parse_str::<syn::Meta>(&el.text) {
            ctx.eval();
            ctx.set_render(json!(el.text));
            let got = conv::<syn::Meta>(&m);
            let user = canon_tokens(el.text.parse::<proc_macro2::TokenStream>().unwrap());
            ensure!(got.as_ref().ok() == Some(&user), "c13:meta-copy", "syn::Meta::from_meta(`{}`) gives {:?}", el.text, got.map_err(|e| e.to_string()));
            ctx.class("whole-meta");
            if el.text.len() > 8 {
                ctx.nontrivial(&el.text);
            }
        }
    }
    // path lists
    let n = d.range(0, 5);
    let mut items = vec![];
    let mut all_paths = true;
    for _ in 0..n {
        if d.ratio(1, 7) {
            items.push(d.pick(&["x = 1", "\"s\"", "y(z)", "5"]).to_string());
            all_paths = false;
        } else {
            items.push(g_path(&mut d, false).split('<').next().unwrap().trim_end_matches("::").to_string());
        }
    }
    let form = d.below(8);
    let src = match form {
        0 => "v".to_string(),
        1 => "v = \"a, b\"".to_string(),
        _ => format!("v({})", items.join(", ")),
    };
    let m: syn::Meta = match syn::parse_str(&src) {
        Ok(m) => m,
        Err(_) => return Ok(()),
    };
    ctx.eval();
    ctx.set_render(json!(src));
    ctx.class("path-list");
    ctx.sample(|| json!(src));
    let got = match catch(|| darling_core::util::PathList::from_meta(&m)) {
        Ok(r) => r,
        Err(p) => fail!("c13:panic", "PathList::from_meta(`{}`) panicked: {}", src, p),
    };
    let what = format!("PathList::from_meta(`{}`)", src);
    match &got {
        Ok(pl) => {
            ensure!(form >= 2 && all_paths, "c13:pathlist-accepted", "{} accepted a non-word element or a non-list form", what);
            let printed: Vec<String> = pl.iter().map(|p| canon_tokens(p.to_token_stream())).collect();
            let user: Vec<String> = items.iter().map(|i| canon_tokens(i.parse::<proc_macro2::TokenStream>().unwrap())).collect();
            ensure!(printed == user, "c13:pathlist-order-or-content", "{} holds {:?}, the user wrote {:?}", what, printed, user);
            if n >= 2 {
                ctx.nontrivial(&src);
            }
        }
        Err(e) => {
            ensure!(!(form >= 2 && all_paths), "c13:pathlist-rejected", "{} failed with `{}`", what, e);
            check_err(e, &m, &what)?;
        }
    }
    Ok(())
}

pub fn run(args: &Args) -> bool {
    let replay = args.replay.as_ref().map(|p| vmodel::ev::load_replay_case(p));
    let want = |s: &str| replay.as_ref().map(|(st, _)| st == s).unwrap_or(true);
    let mut ok = true;
    let steps: Vec<(&str, fn(&Ctx, &Vec<u8>) -> Result<(), Fail>, u64, &str)> = vec![
        ("fragments", check_fragment_bytes, 1, "fragments from grammars of paths (global, keyword/raw segments, generic args, turbofish), identifiers, expressions (26 forms, depth<=3), types (14 forms + leaves), visibilities, where-clauses, predicate lists and malformed text, each converted by 27 targets (Path, Ident, IdentString, Expr, ExprArray/Path/Range, 15 Type forms, Visibility, WhereClause, Vec<WherePredicate>, Punctuated) in quoted, bare and invisible-group spelling, plus Callable and the two parse_expr helpers (evaluations = conversions); oracle: syn parsing the same fragment directly as the target: accepted iff syn accepts, printed tokens identical, bare == quoted, errors spanned inside the item. Non-trivial: >=5 tokens or a group; distinct by fragment"),
        ("lits", check_lits, 4, "0..5 literals of 7 kinds as `v(..)`, `v = [..]`, `v = \"[..]\"` and `v = lit` into Lit / LitX / Vec<LitX> for every kind X: accepted iff every element has kind X, tokens and order preserved"),
        ("numeric", check_numeric, 8, "numeric arrays (bare and quoted, with quoted, out-of-range, hex, negative, non-literal elements) into Vec<u8..usize>: values equal or error"),
        ("meta-pathlist", check_meta_and_pathlist, 8, "whole meta items copied unchanged; PathList from lists with non-word elements and other forms"),
    ];
    for (step, f, div, rule) in steps {
        if !want(step) {
            continue;
        }
        let ctx = Ctx::new("C13", step, vmodel::ev::mix_seed(args.seed, "C13", step, args.shard), args);
        ctx.set_rule(rule);
        if let Some((_, case)) = &replay {
            let b: Vec<u8> = serde_json::from_value(case.clone()).expect("bad replay");
            ok &= run_list(&ctx, vec![b], f);
        } else {
            ok &= run_prop(&ctx, (args.cases / div).max(1) as u32, prop::collection::vec(any::<u8>(), 0..160), f);
        }
        ctx.finish();
    }
    ok
}
