//! C12: wrapper types are transparent over the wrapped conversion. Differential: W<T>::from_meta(m)
//! against T::from_meta(m) on the same item, for single wrappers and two-level compositions.

use darling::util::{Flag, Override, PathList, SpannedValue, WithOriginal};
use darling::FromMeta;
use proptest::prelude::*;
use quote::ToTokens;
use serde_json::json;
use std::cell::RefCell;
use std::collections::HashMap;
use std::rc::Rc;
use std::sync::Arc;
use vmodel::dec::D;
use vmodel::ev::{run_list, run_prop, Args, Ctx, Fail};
use vmodel::util::{canon_tokens, catch, fresh_spans, inside, range};
use vmodel::{ensure, fail};

type R = (usize, usize);

/// Observed / modelled value of a (possibly wrapped) conversion.
#[derive(Clone, Debug, PartialEq, Eq)]
pub enum MV {
    Val(String),
    NoneV,
    Inherit,
    ResOk(Box<MV>),
    ResErr(String),
    MetaOk(Box<MV>),
    MetaErr(String),
    Spanned(Box<MV>, R),
    WithOrig(Box<MV>, String),
    FlagV(bool),
}

pub trait Obs {
    fn obs(&self) -> MV;
}
macro_rules! obs_debug {
    ($($t:ty),*) => { $( impl Obs for $t { fn obs(&self) -> MV { MV::Val(format!("{:?}", self)) } } )* };
}
obs_debug!(bool, u8, i64, String, char, (), DS, DE);
macro_rules! obs_tokens {
    ($($t:ty),*) => { $( impl Obs for $t { fn obs(&self) -> MV { MV::Val(canon_tokens(self.to_token_stream())) } } )* };
}
obs_tokens!(syn::Path, syn::Ident, syn::Expr, syn::LitStr);
impl Obs for PathList {
    fn obs(&self) -> MV {
        MV::Val(self.to_strings().join(","))
    }
}
impl Obs for HashMap<String, String> {
    fn obs(&self) -> MV {
        let mut v: Vec<_> = self.iter().collect();
        v.sort();
        MV::Val(format!("{:?}", v))
    }
}
impl Obs for Flag {
    fn obs(&self) -> MV {
        MV::FlagV(self.is_present())
    }
}
impl<T: Obs> Obs for Option<T> {
    fn obs(&self) -> MV {
        match self {
            Some(x) => x.obs(),
            None => MV::NoneV,
        }
    }
}
impl<T: Obs> Obs for Box<T> {
    fn obs(&self) -> MV {
        (**self).obs()
    }
}
impl<T: Obs> Obs for Rc<T> {
    fn obs(&self) -> MV {
        (**self).obs()
    }
}
impl<T: Obs> Obs for Arc<T> {
    fn obs(&self) -> MV {
        (**self).obs()
    }
}
impl<T: Obs> Obs for RefCell<T> {
    fn obs(&self) -> MV {
        self.borrow().obs()
    }
}
impl<T: Obs> Obs for SpannedValue<T> {
    fn obs(&self) -> MV {
        MV::Spanned(Box::new((**self).obs()), range(self.span()))
    }
}
/// The structure of an item, invisible groups included (token printing would hide them): "an identical copy".
fn exact(m: &syn::Meta) -> String {
    format!("{} :: {:?}", canon_tokens(m.to_token_stream()), m)
}
impl<T: Obs> Obs for WithOriginal<T, syn::Meta> {
    fn obs(&self) -> MV {
        MV::WithOrig(Box::new(self.parsed.obs()), exact(&self.original))
    }
}
impl<T: Obs> Obs for Override<T> {
    fn obs(&self) -> MV {
        match self {
            Override::Inherit => MV::Inherit,
            Override::Explicit(x) => x.obs(),
        }
    }
}
impl<T: Obs> Obs for darling::Result<T> {
    fn obs(&self) -> MV {
        match self {
            Ok(x) => MV::ResOk(Box::new(x.obs())),
            Err(e) => MV::ResErr(e.to_string()),
        }
    }
}
impl<T: Obs> Obs for Result<T, syn::Meta> {
    fn obs(&self) -> MV {
        match self {
            Ok(x) => MV::MetaOk(Box::new(x.obs())),
            Err(m) => MV::MetaErr(exact(m)),
        }
    }
}

#[derive(Debug, FromMeta, PartialEq)]
pub struct DS {
    a: u8,
    #[darling(default)]
    b: Option<String>,
}

#[derive(Debug, FromMeta, PartialEq)]
pub enum DE {
    Unit,
    New(u8),
    St { x: u8 },
}

type Conv = fn(&syn::Meta) -> Result<MV, darling::Error>;
type FromNone = fn() -> Option<MV>;

fn cv<T: FromMeta + Obs>(m: &syn::Meta) -> Result<MV, darling::Error> {
    T::from_meta(m).map(|v| v.obs())
}
fn fnone<T: FromMeta + Obs>() -> Option<MV> {
    T::from_none().map(|v| v.obs())
}
type ValueConv = fn(&syn::Lit) -> Result<MV, darling::Error>;
fn cval<T: FromMeta + Obs>(l: &syn::Lit) -> Result<MV, darling::Error> {
    T::from_value(l).map(|v| v.obs())
}
type ListConv = fn(&[darling_core::ast::NestedMeta]) -> Result<MV, darling::Error>;
fn cl<T: FromMeta + Obs>(items: &[darling_core::ast::NestedMeta]) -> Result<MV, darling::Error> {
    T::from_list(items).map(|v| v.obs())
}

#[derive(Clone, Copy, Debug, PartialEq, Eq)]
pub enum W {
    Opt,
    Boxed,
    RcW,
    ArcW,
    Cell,
    Spanned,
    Orig,
    Over,
    DRes,
    MRes,
}
pub const WS: [W; 10] = [W::Opt, W::Boxed, W::RcW, W::ArcW, W::Cell, W::Spanned, W::Orig, W::Over, W::DRes, W::MRes];

pub struct Entry {
    pub inner: &'static str,
    pub chain: Vec<W>, // outermost first
    pub conv: Conv,
    pub from_none: FromNone,
    pub base: Conv,
    pub base_none: FromNone,
    /// the `from_list` entry (what a flatten field calls)
    pub list: ListConv,
    pub base_list: ListConv,
    /// the `from_value` entry (a literal in nested position: `name("x", 5)`)
    pub value: ValueConv,
    pub base_value: ValueConv,
}

macro_rules! w1 {
    ($name:expr, $t:ty, $out:ident) => {
        $out.push(Entry { inner: $name, chain: vec![W::Opt], conv: cv::<Option<$t>>, from_none: fnone::<Option<$t>>, base: cv::<$t>, base_none: fnone::<$t>, list: cl::<Option<$t>>, base_list: cl::<$t>, value: cval::<Option<$t>>, base_value: cval::<$t> });
        $out.push(Entry { inner: $name, chain: vec![W::Boxed], conv: cv::<Box<$t>>, from_none: fnone::<Box<$t>>, base: cv::<$t>, base_none: fnone::<$t>, list: cl::<Box<$t>>, base_list: cl::<$t>, value: cval::<Box<$t>>, base_value: cval::<$t> });
        $out.push(Entry { inner: $name, chain: vec![W::RcW], conv: cv::<Rc<$t>>, from_none: fnone::<Rc<$t>>, base: cv::<$t>, base_none: fnone::<$t>, list: cl::<Rc<$t>>, base_list: cl::<$t>, value: cval::<Rc<$t>>, base_value: cval::<$t> });
        $out.push(Entry { inner: $name, chain: vec![W::ArcW], conv: cv::<Arc<$t>>, from_none: fnone::<Arc<$t>>, base: cv::<$t>, base_none: fnone::<$t>, list: cl::<Arc<$t>>, base_list: cl::<$t>, value: cval::<Arc<$t>>, base_value: cval::<$t> });
        $out.push(Entry { inner: $name, chain: vec![W::Cell], conv: cv::<RefCell<$t>>, from_none: fnone::<RefCell<$t>>, base: cv::<$t>, base_none: fnone::<$t>, list: cl::<RefCell<$t>>, base_list: cl::<$t>, value: cval::<RefCell<$t>>, base_value: cval::<$t> });
        $out.push(Entry { inner: $name, chain: vec![W::Spanned], conv: cv::<SpannedValue<$t>>, from_none: fnone::<SpannedValue<$t>>, base: cv::<$t>, base_none: fnone::<$t>, list: cl::<SpannedValue<$t>>, base_list: cl::<$t>, value: cval::<SpannedValue<$t>>, base_value: cval::<$t> });
        $out.push(Entry { inner: $name, chain: vec![W::Orig], conv: cv::<WithOriginal<$t, syn::Meta>>, from_none: fnone::<WithOriginal<$t, syn::Meta>>, base: cv::<$t>, base_none: fnone::<$t>, list: cl::<WithOriginal<$t, syn::Meta>>, base_list: cl::<$t>, value: cval::<WithOriginal<$t, syn::Meta>>, base_value: cval::<$t> });
        $out.push(Entry { inner: $name, chain: vec![W::Over], conv: cv::<Override<$t>>, from_none: fnone::<Override<$t>>, base: cv::<$t>, base_none: fnone::<$t>, list: cl::<Override<$t>>, base_list: cl::<$t>, value: cval::<Override<$t>>, base_value: cval::<$t> });
        $out.push(Entry { inner: $name, chain: vec![W::DRes], conv: cv::<darling::Result<$t>>, from_none: fnone::<darling::Result<$t>>, base: cv::<$t>, base_none: fnone::<$t>, list: cl::<darling::Result<$t>>, base_list: cl::<$t>, value: cval::<darling::Result<$t>>, base_value: cval::<$t> });
        $out.push(Entry { inner: $name, chain: vec![W::MRes], conv: cv::<Result<$t, syn::Meta>>, from_none: fnone::<Result<$t, syn::Meta>>, base: cv::<$t>, base_none: fnone::<$t>, list: cl::<Result<$t, syn::Meta>>, base_list: cl::<$t>, value: cval::<Result<$t, syn::Meta>>, base_value: cval::<$t> });
    };
}

macro_rules! w2_outer {
    ($name:expr, $t:ty, $inner_w:expr, $inner_ty:ty, $out:ident) => {
        $out.push(Entry { inner: $name, chain: vec![W::Opt, $inner_w], conv: cv::<Option<$inner_ty>>, from_none: fnone::<Option<$inner_ty>>, base: cv::<$t>, base_none: fnone::<$t>, list: cl::<Option<$inner_ty>>, base_list: cl::<$t>, value: cval::<Option<$inner_ty>>, base_value: cval::<$t> });
        $out.push(Entry { inner: $name, chain: vec![W::Boxed, $inner_w], conv: cv::<Box<$inner_ty>>, from_none: fnone::<Box<$inner_ty>>, base: cv::<$t>, base_none: fnone::<$t>, list: cl::<Box<$inner_ty>>, base_list: cl::<$t>, value: cval::<Box<$inner_ty>>, base_value: cval::<$t> });
        $out.push(Entry { inner: $name, chain: vec![W::RcW, $inner_w], conv: cv::<Rc<$inner_ty>>, from_none: fnone::<Rc<$inner_ty>>, base: cv::<$t>, base_none: fnone::<$t>, list: cl::<Rc<$inner_ty>>, base_list: cl::<$t>, value: cval::<Rc<$inner_ty>>, base_value: cval::<$t> });
        $out.push(Entry { inner: $name, chain: vec![W::Cell, $inner_w], conv: cv::<RefCell<$inner_ty>>, from_none: fnone::<RefCell<$inner_ty>>, base: cv::<$t>, base_none: fnone::<$t>, list: cl::<RefCell<$inner_ty>>, base_list: cl::<$t>, value: cval::<RefCell<$inner_ty>>, base_value: cval::<$t> });
        $out.push(Entry { inner: $name, chain: vec![W::Spanned, $inner_w], conv: cv::<SpannedValue<$inner_ty>>, from_none: fnone::<SpannedValue<$inner_ty>>, base: cv::<$t>, base_none: fnone::<$t>, list: cl::<SpannedValue<$inner_ty>>, base_list: cl::<$t>, value: cval::<SpannedValue<$inner_ty>>, base_value: cval::<$t> });
        $out.push(Entry { inner: $name, chain: vec![W::Orig, $inner_w], conv: cv::<WithOriginal<$inner_ty, syn::Meta>>, from_none: fnone::<WithOriginal<$inner_ty, syn::Meta>>, base: cv::<$t>, base_none: fnone::<$t>, list: cl::<WithOriginal<$inner_ty, syn::Meta>>, base_list: cl::<$t>, value: cval::<WithOriginal<$inner_ty, syn::Meta>>, base_value: cval::<$t> });
        $out.push(Entry { inner: $name, chain: vec![W::Over, $inner_w], conv: cv::<Override<$inner_ty>>, from_none: fnone::<Override<$inner_ty>>, base: cv::<$t>, base_none: fnone::<$t>, list: cl::<Override<$inner_ty>>, base_list: cl::<$t>, value: cval::<Override<$inner_ty>>, base_value: cval::<$t> });
        $out.push(Entry { inner: $name, chain: vec![W::DRes, $inner_w], conv: cv::<darling::Result<$inner_ty>>, from_none: fnone::<darling::Result<$inner_ty>>, base: cv::<$t>, base_none: fnone::<$t>, list: cl::<darling::Result<$inner_ty>>, base_list: cl::<$t>, value: cval::<darling::Result<$inner_ty>>, base_value: cval::<$t> });
        $out.push(Entry { inner: $name, chain: vec![W::MRes, $inner_w], conv: cv::<Result<$inner_ty, syn::Meta>>, from_none: fnone::<Result<$inner_ty, syn::Meta>>, base: cv::<$t>, base_none: fnone::<$t>, list: cl::<Result<$inner_ty, syn::Meta>>, base_list: cl::<$t>, value: cval::<Result<$inner_ty, syn::Meta>>, base_value: cval::<$t> });
    };
}

macro_rules! w2 {
    ($name:expr, $t:ty, $out:ident) => {
        w2_outer!($name, $t, W::Opt, Option<$t>, $out);
        w2_outer!($name, $t, W::Boxed, Box<$t>, $out);
        w2_outer!($name, $t, W::ArcW, Arc<$t>, $out);
        w2_outer!($name, $t, W::Cell, RefCell<$t>, $out);
        w2_outer!($name, $t, W::Spanned, SpannedValue<$t>, $out);
        w2_outer!($name, $t, W::Orig, WithOriginal<$t, syn::Meta>, $out);
        w2_outer!($name, $t, W::Over, Override<$t>, $out);
        w2_outer!($name, $t, W::DRes, darling::Result<$t>, $out);
        w2_outer!($name, $t, W::MRes, Result<$t, syn::Meta>, $out);
    };
}

pub fn entries() -> Vec<Entry> {
    let mut out: Vec<Entry> = vec![];
    w1!("bool", bool, out);
    w1!("u8", u8, out);
    w1!("i64", i64, out);
    w1!("String", String, out);
    w1!("char", char, out);
    w1!("Path", syn::Path, out);
    w1!("Ident", syn::Ident, out);
    w1!("Expr", syn::Expr, out);
    w1!("LitStr", syn::LitStr, out);
    w1!("PathList", PathList, out);
    w1!("DS", DS, out);
    w1!("DE", DE, out);
    w1!("HashMap<String,String>", HashMap<String, String>, out);
    w1!("()", (), out);
    w1!("Flag", Flag, out);
    w2!("u8", u8, out);
    w2!("String", String, out);
    w2!("Path", syn::Path, out);
    w2!("Expr", syn::Expr, out);
    w2!("DS", DS, out);
    w2!("DE", DE, out);
    w2!("bool", bool, out);
    out
}

pub const ITEMS: &[&str] = &[
    "v", "v()", "v(a)", "v(a = 1, b = \"s\")", "v = true", "v = false", "v = 5", "v = 300", "v = \"5\"", "v = \"s\"", "v = 'c'", "v = \"c\"",
    "v = 1.5", "v = a::b", "v = x", "v = a + b", "v = \"a::b\"", "v = \"x + 1\"", "v(unit)", "v(new = 3)", "v(new = 300)", "v(st(x = 1))",
    "v(st(x = 300, y))", "v = \"unit\"", "v = \"nope\"", "v(a = 300)", "v(a = 1)", "v(a = 1, b = \"t\", c)", "v(p, q::r)", "v(k = \"1\", j = \"2\")",
    "v(k = \"1\", k = \"2\")", "v = -5", "v = \"-5\"", "v = [1, 2]", "v = |x| x", "v(unit, unit)", "v(\"lit\")", "v = \"true\"", "v = b\"x\"",
    "v = r#type", "v(a = 1, a = 2)", "v = \"\"", "v = 9223372036854775808",
    // list bodies that are legal tokens but no comma-separated items
    "v(a b)", "v(x = )", "v(1 + 2)", "v[a, , b]", "v(a = 1 b = 2)", "v{;}", "v(= 1)",
];

fn value_span(m: &syn::Meta) -> Option<R> {
    use syn::spanned::Spanned;
    match m {
        syn::Meta::Path(p) => Some(range(p.span())),
        syn::Meta::List(l) => {
            if l.tokens.is_empty() {
                None
            } else {
                Some(range(l.tokens.span()))
            }
        }
        syn::Meta::NameValue(nv) => Some(range(nv.value.span())),
    }
}

type MR = Result<MV, (String, Option<R>)>;

/// Apply one wrapper's documented behaviour to the outcome of what it wraps.
fn model_w(w: W, inner: MR, m: &syn::Meta) -> MR {
    use syn::spanned::Spanned;
    let item = range(m.span());
    match w {
        W::Opt | W::Boxed | W::RcW | W::ArcW | W::Cell => inner,
        W::Spanned => match inner {
            Ok(v) => Ok(MV::Spanned(Box::new(v), value_span(m).unwrap_or((0, 0)))),
            Err((d, s)) => Err((d, s.or(Some(item)))),
        },
        W::Orig => inner.map(|v| MV::WithOrig(Box::new(v), exact(m))),
        W::Over => {
            if matches!(m, syn::Meta::Path(_)) {
                Ok(MV::Inherit)
            } else {
                inner
            }
        }
        W::DRes => Ok(match inner {
            Ok(v) => MV::ResOk(Box::new(v)),
            Err((d, _)) => MV::ResErr(d),
        }),
        W::MRes => Ok(match inner {
            Ok(v) => MV::MetaOk(Box::new(v)),
            Err(_) => MV::MetaErr(exact(m)),
        }),
    }
}

fn model_none(w: W, inner: Option<MV>) -> Option<MV> {
    match w {
        W::Opt => Some(MV::NoneV),
        W::Boxed | W::RcW | W::ArcW | W::Cell => inner,
        W::DRes => inner.map(|v| MV::ResOk(Box::new(v))),
        W::Spanned | W::Orig | W::Over | W::MRes => None,
    }
}

/// Compare ignoring the exact SpannedValue range when the list is empty.
fn mv_eq(a: &MV, b: &MV, lenient_span: bool) -> bool {
    match (a, b) {
        (MV::Spanned(x, r1), MV::Spanned(y, r2)) => (lenient_span || r1 == r2) && mv_eq(x, y, lenient_span),
        (MV::ResOk(x), MV::ResOk(y)) | (MV::MetaOk(x), MV::MetaOk(y)) => mv_eq(x, y, lenient_span),
        (MV::WithOrig(x, t1), MV::WithOrig(y, t2)) => t1 == t2 && mv_eq(x, y, lenient_span),
        _ => a == b,
    }
}

pub fn check_item(ctx: &Ctx, src: &str, table: &[Entry]) -> Result<(), Fail> {
    fresh_spans();
    ctx.set_render(json!(src));
    let m: syn::Meta = match syn::parse_str(src) {
        Ok(m) => m,
        Err(_) => {
            ctx.class("item-not-a-meta");
            return Ok(());
        }
    };
    check_meta(ctx, m.clone(), src, table)?;
    // the same item with its value inside one / two invisible groups built as syntax-tree nodes (what forwarding a
    // `$e:expr` through macro_rules! delivers): wrappers stay transparent, copies stay identical
    if let syn::Meta::NameValue(nv) = &m {
        use syn::spanned::Spanned;
        let levels = 1 + (vmodel::ev::hash64(src) % 2) as usize;
        let mut v = nv.value.clone();
        for _ in 0..levels {
            let sp = v.span();
            v = syn::Expr::Group(syn::ExprGroup { attrs: vec![], group_token: syn::token::Group { span: sp }, expr: Box::new(v) });
        }
        let g = syn::Meta::NameValue(syn::MetaNameValue { path: nv.path.clone(), eq_token: nv.eq_token, value: v });
        ctx.class("form:value-in-invisible-group");
        check_meta(ctx, g, &format!("{} [value in {} invisible group(s)]", src, levels), table)?;
    }
    Ok(())
}

fn check_meta(ctx: &Ctx, m: syn::Meta, src: &str, table: &[Entry]) -> Result<(), Fail> {
    let form = match &m {
        syn::Meta::Path(_) => "word",
        syn::Meta::List(_) => "list",
        syn::Meta::NameValue(nv) => {
            if matches!(nv.value, syn::Expr::Lit(_)) {
                "name-value-literal"
            } else {
                "name-value-expression"
            }
        }
    };
    ctx.class(&format!("form:{}", form));
    let item = {
        use syn::spanned::Spanned;
        range(m.span())
    };
    let lenient = matches!(&m, syn::Meta::List(l) if l.tokens.is_empty());
    for e in table {
        ctx.eval();
        let base = match catch(|| (e.base)(&m)) {
            Ok(r) => r,
            Err(p) => fail!("c12:panic", "{}::from_meta(`{}`) panicked: {}", e.inner, src, p),
        };
        let base_mr: MR = match &base {
            Ok(v) => Ok(v.clone()),
            Err(er) => Err((er.to_string(), er.explicit_span().map(range))),
        };
        // inside-out
        let mut want = base_mr.clone();
        for w in e.chain.iter().rev() {
            want = model_w(*w, want, &m);
        }
        let got = match catch(|| (e.conv)(&m)) {
            Ok(r) => r,
            Err(p) => fail!("c12:panic", "{:?}<{}>::from_meta(`{}`) panicked: {}", e.chain, e.inner, src, p),
        };
        let name = format!("{:?}<{}>", e.chain, e.inner);
        let wsig = format!("{:?}", e.chain[0]);
        if e.chain.len() == 2 || base.is_err() {
            ctx.nontrivial(&(src, &name));
        }
        match (&got, &want) {
            (Ok(g), Ok(w)) => {
                ensure!(
                    mv_eq(g, w, lenient),
                    format!("c12:value-differs:{}:{}", wsig, form),
                    "{}::from_meta(`{}`) = {:?}, but {} alone gives {:?} => expected {:?}",
                    name, src, g, e.inner, base_mr, w
                );
            }
            (Ok(g), Err((d, _))) => fail!(
                format!("c12:accepts-more:{}:{}", wsig, form),
                "{}::from_meta(`{}`) = {:?} although {} fails with `{}`",
                name, src, g, e.inner, d
            ),
            (Err(er), Ok(w)) => fail!(
                format!("c12:rejects-more:{}:{}", wsig, form),
                "{}::from_meta(`{}`) fails with `{}` although the wrapped conversion gives {:?}",
                name, src, er, w
            ),
            (Err(er), Err((d, s))) => {
                ensure!(
                    er.to_string() == *d,
                    format!("c12:error-differs:{}:{}", wsig, form),
                    "{}::from_meta(`{}`) fails with `{}`, {} fails with `{}`",
                    name, src, er, e.inner, d
                );
                let gs = er.explicit_span().map(range);
                match s {
                    Some(s) => ensure!(gs == Some(*s), format!("c12:error-span-differs:{}", wsig), "{}: error span {:?}, {}'s error span {:?} (`{}`)", name, gs, e.inner, s, src),
                    None => ensure!(gs.map(|g| inside(g, item)).unwrap_or(true), format!("c12:error-span-outside:{}", wsig), "{}: error span {:?} outside the item {:?}", name, gs, item),
                }
            }
        }
    }
    // the `from_list` entry (what a `#[darling(flatten)]` field calls with the left-over items): smart pointers
    // and Override forward it, darling's Result<T> holds T's outcome without failing outwardly, every other wrapper does not
    // override it
    if let syn::Meta::List(l) = &m {
        if let Ok(items) = darling_core::ast::NestedMeta::parse_meta_list(l.tokens.clone()) {
            for e in table {
                ctx.eval();
                let base = match catch(|| (e.base_list)(&items)) {
                    Ok(r) => r,
                    Err(p) => fail!("c12:panic", "{}::from_list(items of `{}`) panicked: {}", e.inner, src, p),
                };
                let mut want: Result<MV, String> = base.map_err(|er| er.to_string());
                for w in e.chain.iter().rev() {
                    want = match w {
                        W::Boxed | W::RcW | W::ArcW | W::Cell | W::Over => want,
                        W::DRes => Ok(match want {
                            Ok(v) => MV::ResOk(Box::new(v)),
                            Err(d) => MV::ResErr(d),
                        }),
                        W::Opt | W::Spanned | W::Orig | W::MRes => Err("Unexpected meta-item format `list`".to_string()),
                    };
                }
                let got = match catch(|| (e.list)(&items)) {
                    Ok(r) => r,
                    Err(p) => fail!("c12:panic", "{:?}<{}>::from_list(items of `{}`) panicked: {}", e.chain, e.inner, src, p),
                };
                let name = format!("{:?}<{}>::from_list", e.chain, e.inner);
                let wsig = format!("{:?}", e.chain[0]);
                match (&got, &want) {
                    (Ok(g), Ok(w)) => ensure!(mv_eq(g, w, true), format!("c12:from_list:value-differs:{}", wsig), "{}(items of `{}`) = {:?}, expected {:?}", name, src, g, w),
                    (Ok(g), Err(d)) => fail!(format!("c12:from_list:accepts-more:{}", wsig), "{}(items of `{}`) = {:?}, expected the error `{}`", name, src, g, d),
                    (Err(er), Ok(w)) => fail!(format!("c12:from_list:rejects-more:{}", wsig), "{}(items of `{}`) fails with `{}`, expected {:?}", name, src, er, w),
                    (Err(er), Err(d)) => ensure!(er.to_string() == *d, format!("c12:from_list:error-differs:{}", wsig), "{}(items of `{}`) fails with `{}`, expected `{}`", name, src, er, d),
                }
            }
            ctx.class("entry:from_list");
        }
    }
    // the `from_value` entry (a literal standing alone in a list): Override forwards it (as it forwards every hook); the others,
    // smart pointers included (they forward from_none / from_list / from_meta only - a literal is not a meta item, so the
    // statement is silent),
    // leave the provided method in place, which sorts the literal by kind into the bool / string / char hooks they
    // do not override either - the same answer a type without any override gives
    if let syn::Meta::NameValue(syn::MetaNameValue { value: syn::Expr::Lit(el), .. }) = &m {
        let lit = &el.lit;
        for e in table {
            ctx.eval();
            let base = match catch(|| (e.base_value)(lit)) {
                Ok(r) => r,
                Err(p) => fail!("c12:panic", "{}::from_value(`{}`) panicked: {}", e.inner, src, p),
            };
            let plain = <NoHooks as FromMeta>::from_value(lit).err().map(|er| er.to_string()).unwrap_or_default();
            let mut want: Result<MV, String> = base.map_err(|er| er.to_string());
            for w in e.chain.iter().rev() {
                want = match w {
                    W::Over => want,
                    // SpannedValue forwards it too and records the literal's span
                    W::Spanned => want.map(|v| MV::Spanned(Box::new(v), (0, 0))),
                    W::Boxed | W::RcW | W::ArcW | W::Cell | W::Opt | W::Orig | W::MRes | W::DRes => Err(plain.clone()),
                };
            }
            let got = match catch(|| (e.value)(lit)) {
                Ok(r) => r,
                Err(p) => fail!("c12:panic", "{:?}<{}>::from_value(`{}`) panicked: {}", e.chain, e.inner, src, p),
            };
            let name = format!("{:?}<{}>::from_value", e.chain, e.inner);
            let wsig = format!("{:?}", e.chain[0]);
            match (&got, &want) {
                (Ok(g), Ok(w)) => ensure!(mv_eq(g, w, true), format!("c12:from_value:value-differs:{}", wsig), "{}(value of `{}`) = {:?}, expected {:?}", name, src, g, w),
                (Ok(g), Err(d)) => fail!(format!("c12:from_value:accepts-more:{}", wsig), "{}(value of `{}`) = {:?}, expected the error `{}`", name, src, g, d),
                (Err(er), Ok(w)) => fail!(format!("c12:from_value:rejects-more:{}", wsig), "{}(value of `{}`) fails with `{}`, expected {:?}", name, src, er, w),
                (Err(er), Err(d)) => ensure!(er.to_string() == *d, format!("c12:from_value:error-differs:{}", wsig), "{}(value of `{}`) fails with `{}`, expected `{}`", name, src, er, d),
            }
        }
        ctx.class("entry:from_value");
    }
    ctx.sample(|| json!({"item": src, "form": form}));
    Ok(())
}

/// A target that overrides nothing: what the provided methods answer on their own.
struct NoHooks;
impl FromMeta for NoHooks {}

pub fn check_from_none(ctx: &Ctx, table: &[Entry]) -> bool {
    let mut ok = true;
    for e in table {
        ctx.eval();
        let mut want = (e.base_none)();
        for w in e.chain.iter().rev() {
            want = model_none(*w, want);
        }
        let got = (e.from_none)();
        ctx.nontrivial(&(format!("{:?}", e.chain), e.inner, "from_none"));
        if got != want && ok {
            ok = false;
            ctx.violation(
                &Fail::new(
                    format!("c12:from_none:{:?}", e.chain[0]),
                    format!("{:?}<{}>::from_none() = {:?}, expected {:?} ({}::from_none() = {:?})", e.chain, e.inner, got, want, e.inner, (e.base_none)()),
                ),
                json!({"from_none": format!("{:?}<{}>", e.chain, e.inner)}),
            );
        }
    }
    ok
}

pub fn check_bytes(ctx: &Ctx, bytes: &Vec<u8>, table: &[Entry]) -> Result<(), Fail> {
    let mut d = D::new(bytes);
    let el = crate::c15::gen_el(&mut d, 2);
    if el.is_lit {
        return Ok(());
    }
    // rename the item to `v` so that all items look alike to the receivers
    check_item(ctx, &el.text, table)
}

pub fn run(args: &Args) -> bool {
    let ctx = Ctx::new("C12", "wrappers", vmodel::ev::mix_seed(args.seed, "C12", "wrappers", args.shard), args);
    ctx.set_rule("10 wrappers (Option, Box, Rc, Arc, RefCell, SpannedValue, WithOriginal<_, Meta>, Override, darling::Result<T>, Result<T, Meta>) over 15 inner targets, and 81 two-level compositions over 7 inner targets (717 instantiations) x a fixed pool of 43 meta items in word / list / name-value-literal / name-value-expression form (exhaustive) + random items from the meta grammar (evaluations = wrapped conversions); oracle: the wrapped type's own from_meta on the same item, composed inside-out with each wrapper's documented behaviour (transparent; Override word -> Inherit; Result never fails outwardly; SpannedValue records the value's range; WithOriginal an identical copy); from_none per the statement's table. Non-trivial: two-level composition or an item the inner type rejects");
    let table = entries();
    if let Some(path) = &args.replay {
        let (_, case) = vmodel::ev::load_replay_case(path);
        let ok = if let Some(s) = case.as_str() {
            run_list(&ctx, vec![s.to_string()], |c, s| check_item(c, s, &table))
        } else if case.is_array() {
            let b: Vec<u8> = serde_json::from_value(case).expect("bad replay");
            run_list(&ctx, vec![b], |c, b| check_bytes(c, b, &table))
        } else {
            check_from_none(&ctx, &table)
        };
        ctx.finish();
        return ok;
    }
    let mut ok = check_from_none(&ctx, &table);
    ok &= run_list(&ctx, ITEMS.iter().map(|s| s.to_string()), |c, s| check_item(c, s, &table));
    ok &= run_prop(&ctx, args.cases as u32, prop::collection::vec(any::<u8>(), 0..120), |c, b| check_bytes(c, b, &table));
    ctx.finish();
    ok
}
