//! L1/L2 checks driven in-process. `vchecks <subcommand> --seed N --cases N --out DIR ...`


use vchecks::*;

fn main() {
    let args = vmodel::ev::parse_args();
    if args.sub == "c05-child" {
        let v: Vec<String> = std::env::args().collect();
        c05::child(v.get(2).map(|s| s.as_str()).unwrap_or("0"));
    }
    vmodel::util::install_quiet_panic_hook();
    let ok = match args.sub.as_str() {
        "c04" | "c03a" => c04::run(&args.sub, &args),
        "c03s" => c03s::run(&args),
        "c05" => c05::run(&args),
        "c06" => c06::run(&args),
        "c07" => c07::run(&args),
        "c10" => c10::run(&args),
        "c11" => c11::run(&args),
        "c18a" => c18::run(&args),
        "c12" => c12::run(&args),
        "c13" => c13::run(&args),
        "c15" => c15::run(&args),
        "c06-dump" => c06::dump(&args),
        "c16t" => c16t::run(&args),
        "c17a" => c17a::run(&args),
        "c14" | "c03-maps" => c14::run(&args.sub, &args),
        "c19" => c19::run(&args),
        other => {
            eprintln!("unknown subcommand {}", other);
            std::process::exit(2);
        }
    };
    std::process::exit(if ok { 0 } else { 1 });
}
