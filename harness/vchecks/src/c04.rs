//! C04 (error trees: count, flatten, paths, rendering) and C03 part a (span algebra of the error API).
//! One generator, two oracles: C04 ignores spans, C03a looks only at spans.

use darling_core::Error;
use proptest::prelude::*;
use serde::{Deserialize, Serialize};
use serde_json::json;
use vmodel::ev::{run_list, run_prop, Args, Ctx, Fail};
use vmodel::util::{compile_errors, range};
use vmodel::{ensure, fail};

#[derive(Clone, Debug, Serialize, Deserialize, Hash, PartialEq, Eq)]
pub enum Kind {
    Custom(String),
    Duplicate(String),
    Missing(String),
    Unknown(String),
    UnknownAlts(String, Vec<String>),
    Shape(String),
    ShapeExp(String, String),
    Format(String),
    Type(String),
    Value(String),
    TooFew(usize),
    TooMany(usize),
    /// `Error::unexpected_lit_type(&lit)`: born with the literal's span (pool index)
    LitType(u8),
    /// `Error::from(syn::Error::new(span, msg))`: born with a span
    FromSyn(u8, String),
}

#[derive(Clone, Debug, Serialize, Deserialize, Hash, PartialEq, Eq)]
pub enum Op {
    At(String),
    Span(u8),
    Clone,
    Flatten,
    /// `at_path(&syn::Path)`: the same as `at` with the path's text
    AtPath(String),
    /// `add_sibling_alts_for_unknown_field` with a name (`~~~~~~~~~~~~`) that shares no character with any generated one: nothing observable changes
    Alts,
}

#[derive(Clone, Debug, Serialize, Deserialize, Hash, PartialEq, Eq)]
pub enum Body {
    Leaf(Kind),
    Multi(Vec<Node>),
}

#[derive(Clone, Debug, Serialize, Deserialize, Hash, PartialEq, Eq)]
pub struct Node {
    pub body: Body,
    pub ops: Vec<Op>,
}

const POOL_N: usize = 16;

/// The span pool: one source text, parsed once per case; token k covers a distinct byte range.
/// Even indices are identifiers, odd ones integer literals (so LitType has a real literal).
pub struct Pool {
    pub idents: Vec<proc_macro2::TokenTree>,
}

pub fn pool_text() -> String {
    let mut s = String::from(" ");
    for k in 0..POOL_N {
        if k % 2 == 0 {
            s.push_str(&format!("tok{} ", k));
        } else {
            s.push_str(&format!("{} ", 1000 + k));
        }
    }
    s
}

impl Pool {
    pub fn new() -> Pool {
        let ts: proc_macro2::TokenStream = pool_text().parse().unwrap();
        Pool {
            idents: ts.into_iter().collect(),
        }
    }
    pub fn span(&self, k: u8) -> proc_macro2::Span {
        self.idents[k as usize % POOL_N].span()
    }
    pub fn lit(&self, k: u8) -> syn::Lit {
        // nearest odd index
        let k = (k as usize % POOL_N) | 1;
        match &self.idents[k] {
            proc_macro2::TokenTree::Literal(l) => syn::Lit::new(l.clone()),
            _ => unreachable!(),
        }
    }
    pub fn lit_range(&self, k: u8) -> (usize, usize) {
        let k = (k as usize % POOL_N) | 1;
        range(self.idents[k].span())
    }
}

// ------------------------------------------------------------------------------------------
// model

#[derive(Clone, Debug)]
pub struct MLeaf {
    pub msg: Option<String>, // None: message learned from the implementation at construction (UnknownAlts)
    pub base: String,        // Display of the freshly built leaf
    pub path: Vec<String>,
    pub span: Option<(usize, usize)>,
    pub coarser_offered: bool,
    pub inherited: bool,
}

#[derive(Clone, Debug)]
pub enum M {
    Leaf(MLeaf),
    Bundle {
        kids: Vec<M>,
        path: Vec<String>,
        span: Option<(usize, usize)>,
    },
}

impl M {
    fn at(&mut self, s: &str) {
        match self {
            M::Leaf(l) => l.path.insert(0, s.to_string()),
            M::Bundle { path, .. } => path.insert(0, s.to_string()),
        }
    }
    fn with_span(&mut self, r: (usize, usize)) {
        match self {
            M::Leaf(l) => {
                if l.span.is_none() {
                    l.span = Some(r)
                } else {
                    l.coarser_offered = true;
                }
            }
            M::Bundle { span, .. } => {
                if span.is_none() {
                    *span = Some(r)
                }
            }
        }
    }
    /// Leaves left to right with full paths; a span-less leaf inherits the nearest enclosing
    /// bundle's span ("or give it its enclosing bundle's span if it had none").
    pub fn leaves(&self) -> Vec<MLeaf> {
        fn go(m: &M, prefix: &[String], inh: Option<(usize, usize)>, out: &mut Vec<MLeaf>) {
            match m {
                M::Leaf(l) => {
                    let mut l = l.clone();
                    let mut p = prefix.to_vec();
                    p.extend(l.path.iter().cloned());
                    l.path = p;
                    if l.span.is_none() && inh.is_some() {
                        l.span = inh;
                        l.inherited = true;
                    }
                    out.push(l);
                }
                M::Bundle { kids, path, span } => {
                    let mut p = prefix.to_vec();
                    p.extend(path.iter().cloned());
                    let inh = span.or(inh);
                    for k in kids {
                        go(k, &p, inh, out);
                    }
                }
            }
        }
        let mut out = vec![];
        go(self, &[], None, &mut out);
        out
    }
    fn flatten(&mut self) {
        let leaves = self.leaves();
        if leaves.len() == 1 {
            *self = M::Leaf(leaves.into_iter().next().unwrap());
        } else {
            *self = M::Bundle {
                kids: leaves.into_iter().map(M::Leaf).collect(),
                path: vec![],
                span: None,
            };
        }
    }
    pub fn arity(&self) -> usize {
        match self {
            M::Leaf(_) => 1,
            M::Bundle { kids, .. } => kids.len(),
        }
    }
    pub fn depth(&self) -> usize {
        match self {
            M::Leaf(_) => 1,
            M::Bundle { kids, .. } => 1 + kids.iter().map(|k| k.depth()).max().unwrap_or(0),
        }
    }
}

/// Kind messages as documented / shown to users (README, error docs).
fn kind_msg(k: &Kind) -> Option<String> {
    Some(match k {
        Kind::Custom(s) => s.clone(),
        Kind::Duplicate(n) => format!("Duplicate field `{}`", n),
        Kind::Missing(n) => format!("Missing field `{}`", n),
        Kind::Unknown(n) => format!("Unknown field: `{}`", n),
        Kind::UnknownAlts(..) => return None,
        Kind::Shape(s) => format!("Unsupported shape `{}`", s),
        Kind::ShapeExp(s, e) => format!("Unsupported shape `{}`. Expected {}.", s, e),
        Kind::Format(s) => format!("Unexpected meta-item format `{}`", s),
        Kind::Type(s) => format!("Unexpected type `{}`", s),
        Kind::Value(s) => format!("Unknown literal value `{}`", s),
        Kind::TooFew(n) => format!("Too few items: Expected at least {}", n),
        Kind::TooMany(n) => format!("Too many items: Expected no more than {}", n),
        Kind::LitType(_) => "Unexpected type `int`".to_string(),
        Kind::FromSyn(_, m) => m.clone(),
    })
}

fn build_leaf(k: &Kind, pool: &Pool) -> (Error, MLeaf) {
    let mut span = None;
    let e = match k {
        Kind::Custom(s) => Error::custom(s),
        Kind::Duplicate(n) => Error::duplicate_field(n),
        Kind::Missing(n) => Error::missing_field(n),
        Kind::Unknown(n) => Error::unknown_field(n),
        Kind::UnknownAlts(n, alts) => Error::unknown_field_with_alts(n, alts),
        Kind::Shape(s) => Error::unsupported_shape(s),
        Kind::ShapeExp(s, e) => Error::unsupported_shape_with_expected(s, e),
        Kind::Format(s) => Error::unsupported_format(s),
        Kind::Type(s) => Error::unexpected_type(s),
        Kind::Value(s) => Error::unknown_value(s),
        Kind::TooFew(n) => Error::too_few_items(*n),
        Kind::TooMany(n) => Error::too_many_items(*n),
        Kind::LitType(i) => {
            span = Some(pool.lit_range(*i));
            Error::unexpected_lit_type(&pool.lit(*i))
        }
        Kind::FromSyn(i, m) => {
            span = Some(range(pool.span(*i)));
            Error::from(syn::Error::new(pool.span(*i), m))
        }
    };
    let base = e.to_string();
    (
        e,
        MLeaf {
            msg: kind_msg(k),
            base,
            path: vec![],
            span,
            coarser_offered: false,
            inherited: false,
        },
    )
}

pub fn build(n: &Node, pool: &Pool) -> (Error, M) {
    let (mut e, mut m) = match &n.body {
        Body::Leaf(k) => {
            let (e, l) = build_leaf(k, pool);
            (e, M::Leaf(l))
        }
        Body::Multi(kids) => {
            let mut es = vec![];
            let mut ms = vec![];
            for k in kids {
                let (e, m) = build(k, pool);
                es.push(e);
                ms.push(m);
            }
            if ms.len() == 1 {
                // a bundle of one is that one
                (Error::multiple(es), ms.pop().unwrap())
            } else {
                (
                    Error::multiple(es),
                    M::Bundle {
                        kids: ms,
                        path: vec![],
                        span: None,
                    },
                )
            }
        }
    };
    for op in &n.ops {
        match op {
            Op::At(s) => {
                e = e.at(s);
                m.at(s);
            }
            Op::AtPath(txt) => {
                let path: syn::Path = syn::parse_str(txt).expect("path");
                e = e.at_path(&path);
                // (path_to_string drops a leading `::`)
                m.at(txt.trim_start_matches("::"));
            }
            Op::Span(i) => {
                let sp = pool.span(*i);
                e = e.with_span(&sp);
                m.with_span(range(sp));
            }
            Op::Clone => {
                e = e.clone();
            }
            Op::Flatten => {
                e = e.flatten();
                m.flatten();
            }
            Op::Alts => {
                // (what generated code calls on the outcome of a flatten member; the name is similar to nothing, so
                // no suggestion appears or changes: count, order, paths, messages and spans stay as they are)
                e = e.add_sibling_alts_for_unknown_field(&["~~~~~~~~~~~~"]);
            }
        }
    }
    (e, m)
}

// ------------------------------------------------------------------------------------------
// generators

fn name() -> impl Strategy<Value = String> {
    prop_oneof![
        8 => "[a-z_]{1,6}",
        // (a location is any Display value: the empty string is one, and stays a segment of the path)
        1 => Just(String::new()),
        1 => "[a-z]{1,3}/[a-z]{1,3}",
        1 => "[a-z]{1,3} at [a-z]{1,3}",
        1 => "[A-Za-z0-9:\\[\\]]{1,8}",
    ]
}

fn kind() -> impl Strategy<Value = Kind> {
    prop_oneof![
        name().prop_map(Kind::Custom),
        name().prop_map(Kind::Duplicate),
        name().prop_map(Kind::Missing),
        name().prop_map(Kind::Unknown),
        ("[a-z]{2,5}", prop::collection::vec("[a-z]{2,5}", 0..4))
            .prop_map(|(n, a)| Kind::UnknownAlts(n, a)),
        name().prop_map(Kind::Shape),
        (name(), name()).prop_map(|(a, b)| Kind::ShapeExp(a, b)),
        name().prop_map(Kind::Format),
        name().prop_map(Kind::Type),
        name().prop_map(Kind::Value),
        (0usize..9).prop_map(Kind::TooFew),
        (0usize..9).prop_map(Kind::TooMany),
        any::<u8>().prop_map(Kind::LitType),
        (any::<u8>(), name()).prop_map(|(i, m)| Kind::FromSyn(i, m)),
    ]
}

fn op() -> impl Strategy<Value = Op> {
    prop_oneof![
        5 => name().prop_map(Op::At),
        4 => any::<u8>().prop_map(Op::Span),
        1 => Just(Op::Clone),
        1 => Just(Op::Flatten),
        1 => Just(Op::Alts),
        2 => prop::sample::select(vec!["k", "a::b", "::c::d", "r#type", "self::x"]).prop_map(|s| Op::AtPath(s.to_string())),
    ]
}

pub fn node() -> impl Strategy<Value = Node> {
    let leaf = (kind(), prop::collection::vec(op(), 0..4)).prop_map(|(k, ops)| Node {
        body: Body::Leaf(k),
        ops,
    });
    leaf.prop_recursive(5, 48, 5, |inner| {
        (
            prop::collection::vec(inner, 1..6),
            prop::collection::vec(op(), 0..4),
        )
            .prop_map(|(kids, ops)| Node {
                body: Body::Multi(kids),
                ops,
            })
    })
}

/// The same trees decoded from bytes (for the coverage-guided driver; exhausted bytes give the
/// first alternative everywhere, so decoding always ends).
pub fn node_from(d: &mut vmodel::dec::D, depth: usize) -> Node {
    fn nm(d: &mut vmodel::dec::D) -> String {
        const A: &[&str] = &["a", "b", "c", "field", "m", "r1", "r2", "x_y", "k/l", "p at q", "A:[0]", "_", ""];
        let base = d.pick(A).to_string();
        if base.is_empty() {
            return base;
        }
        if d.ratio(1, 3) {
            format!("{}{}", base, d.below(10))
        } else {
            base
        }
    }
    fn ops(d: &mut vmodel::dec::D) -> Vec<Op> {
        let n = d.below(4);
        (0..n)
            .map(|_| match d.weighted(&[5, 4, 1, 1, 1, 2]) {
                0 => Op::At(nm(d)),
                1 => Op::Span(d.byte()),
                2 => Op::Clone,
                3 => Op::Flatten,
                4 => Op::Alts,
                _ => Op::AtPath(d.pick(&["k", "a::b", "::c::d", "r#type", "self::x"]).to_string()),
            })
            .collect()
    }
    if depth >= 5 || !d.ratio(2, 5) {
        let k = match d.below(14) {
            0 => Kind::Custom(nm(d)),
            1 => Kind::Duplicate(nm(d)),
            2 => Kind::Missing(nm(d)),
            3 => Kind::Unknown(nm(d)),
            4 => {
                let n = d.below(4);
                Kind::UnknownAlts(d.pick(&["ab", "abc", "name", "naem"]).to_string(), (0..n).map(|_| d.pick(&["ab", "abd", "names", "other"]).to_string()).collect())
            }
            5 => Kind::Shape(nm(d)),
            6 => Kind::ShapeExp(nm(d), nm(d)),
            7 => Kind::Format(nm(d)),
            8 => Kind::Type(nm(d)),
            9 => Kind::Value(nm(d)),
            10 => Kind::TooFew(d.below(9)),
            11 => Kind::TooMany(d.below(9)),
            12 => Kind::LitType(d.byte()),
            _ => Kind::FromSyn(d.byte(), nm(d)),
        };
        return Node { body: Body::Leaf(k), ops: ops(d) };
    }
    let n = d.range(1, 5);
    let kids = (0..n).map(|_| node_from(d, depth + 1)).collect();
    Node { body: Body::Multi(kids), ops: ops(d) }
}

// ------------------------------------------------------------------------------------------
// oracles

fn expect_display(l: &MLeaf) -> String {
    let m = l.msg.clone().unwrap_or_else(|| l.base.clone());
    if l.path.is_empty() {
        m
    } else {
        format!("{} at {}", m, l.path.join("/"))
    }
}

fn located_levels(n: &Node) -> usize {
    let own = n.ops.iter().any(|o| matches!(o, Op::At(_) | Op::AtPath(_))) as usize;
    match &n.body {
        Body::Leaf(_) => own,
        Body::Multi(k) => own + k.iter().map(located_levels).max().unwrap_or(0),
    }
}

pub fn check_c04(ctx: &Ctx, n: &Node) -> Result<(), Fail> {
    // (one source text is parsed per case for the span pool: forget the previous case's, or the process-wide source map grows without bound)
    vmodel::util::fresh_spans();
    let pool = Pool::new();
    let (e, m) = build(n, &pool);
    let leaves = m.leaves();
    let depth = m.depth();
    let lv = located_levels(n);
    if depth >= 3 && lv >= 2 {
        ctx.nontrivial(n);
        ctx.class("depth>=3,located>=2");
    }
    ctx.class(&format!("leaves:{}", leaves.len().min(10)));
    ctx.sample(|| json!({"tree": format!("{:?}", n).chars().take(600).collect::<String>(), "display": e.to_string().chars().take(300).collect::<String>()}));

    // learned messages must at least start with the documented prefix
    for l in &leaves {
        if l.msg.is_none() {
            ensure!(
                l.base.starts_with("Unknown field: `"),
                "c04:unknown-alts-prefix",
                "with_alts leaf displays as {:?}",
                l.base
            );
        }
    }

    // 1. count
    ensure!(
        e.len() == leaves.len(),
        "c04:len",
        "len() = {} but the tree has {} leaves",
        e.len(),
        leaves.len()
    );
    ensure!(e.len() >= 1, "c04:len-zero", "len() = 0");

    // 2. flatten: leaves, in order, with full paths
    let flat = e.clone().flatten();
    let got: Vec<String> = flat.clone().into_iter().map(|x| x.to_string()).collect();
    let want: Vec<String> = leaves.iter().map(expect_display).collect();
    ensure!(
        got == want,
        "c04:flatten-leaves",
        "flatten() leaves {:?} expected {:?}",
        got,
        want
    );
    ensure!(
        flat.len() == leaves.len(),
        "c04:flatten-len",
        "flatten().len() {} != {}",
        flat.len(),
        leaves.len()
    );
    // each flattened child is a leaf
    for x in flat.clone().into_iter() {
        ensure!(
            x.len() == 1 && x.clone().into_iter().count() == 1,
            "c04:flatten-not-flat",
            "a child of flatten() is itself a bundle: {}",
            x
        );
    }

    // 3. idempotence
    let flat2 = flat.clone().flatten();
    let got2: Vec<String> = flat2.clone().into_iter().map(|x| x.to_string()).collect();
    ensure!(
        got2 == got && flat2.to_string() == flat.to_string(),
        "c04:flatten-idempotent",
        "flatten twice {:?} != once {:?}",
        got2,
        got
    );

    // 4. Display of the whole value
    let shown = e.to_string();
    if leaves.len() == 1 {
        ensure!(
            shown == want[0],
            "c04:display-single",
            "Display {:?} expected {:?}",
            shown,
            want[0]
        );
    } else {
        // a bundle shows its leaves' messages in order
        let mut pos = 0;
        for l in &leaves {
            let m = l.msg.clone().unwrap_or_else(|| l.base.clone());
            match shown[pos..].find(&m) {
                Some(i) => pos += i + m.len(),
                None => fail!(
                    "c04:display-bundle",
                    "bundle Display {:?} lacks leaf message {:?} (in order)",
                    shown,
                    m
                ),
            }
        }
    }

    // 5. into_iter: the direct children, or the value itself
    let direct: Vec<Error> = e.clone().into_iter().collect();
    ensure!(
        direct.len() == m.arity(),
        "c04:into-iter-arity",
        "into_iter() yields {} items, the value has {} direct children",
        direct.len(),
        m.arity()
    );
    let total: usize = direct.iter().map(|d| d.len()).sum();
    ensure!(
        total == leaves.len(),
        "c04:into-iter-leaves",
        "children of into_iter() hold {} leaves, expected {}",
        total,
        leaves.len()
    );

    // 6. compiler output: one diagnostic per leaf, in order, with the leaf's message
    let syn_msgs: Vec<String> = syn::Error::from(e.clone())
        .into_iter()
        .map(|x| x.to_string())
        .collect();
    ensure!(
        syn_msgs.len() == leaves.len(),
        "c04:syn-count",
        "syn::Error has {} messages for {} leaves",
        syn_msgs.len(),
        leaves.len()
    );
    for (i, l) in leaves.iter().enumerate() {
        let m = l.msg.clone().unwrap_or_else(|| l.base.clone());
        // a leaf that has a span (its own, or its nearest enclosing bundle's) shows the bare message - the
        // caret says where; a leaf without any shows the full Display, location path included
        let expected = if l.span.is_some() { &m } else { &want[i] };
        ensure!(
            &syn_msgs[i] == expected,
            "c04:syn-message",
            "diagnostic {} is {:?}, expected {:?} (the leaf {} a span)",
            i,
            syn_msgs[i],
            expected,
            if l.span.is_some() { "has" } else { "has not" }
        );
    }
    // 7. a bundle of one is that one, whoever builds it: `multiple(vec![e])`, and an accumulator that recorded only `e`
    //    (through finish and through checkpoint), give back `e` - same text, same span, and locating it again
    //    composes a single path
    {
        let probe = |x: &Error| (x.to_string(), x.explicit_span().map(range), x.clone().at("outer").to_string(), x.len());
        let want1 = probe(&e);
        let m1 = Error::multiple(vec![e.clone()]);
        ensure!(probe(&m1) == want1, "c04:bundle-of-one:multiple", "multiple(vec![e]) is {:?}, e is {:?}", probe(&m1), want1);
        let mut acc = Error::accumulator();
        acc.push(e.clone());
        match acc.finish() {
            Err(f) => ensure!(probe(&f) == want1, "c04:bundle-of-one:finish", "an accumulator holding only e finishes with {:?}, e is {:?}", probe(&f), want1),
            Ok(()) => fail!("c04:bundle-of-one:finish", "an accumulator holding one error finished Ok"),
        }
        let mut acc = Error::accumulator();
        acc.push(e.clone());
        match acc.checkpoint() {
            Err(f) => ensure!(probe(&f) == want1, "c04:bundle-of-one:checkpoint", "checkpoint() of an accumulator holding only e gives {:?}, e is {:?}", probe(&f), want1),
            Ok(a) => {
                let _ = a.finish();
                fail!("c04:bundle-of-one:checkpoint", "checkpoint() of an accumulator holding one error succeeded");
            }
        }
    }
    // 8. recording is bundling: an accumulator that was given `e` and one more error - by `push`, by `extend` with a
    //    vector, by `extend` with an iterator of unknown length - finishes with what `Error::multiple` makes of the
    //    two: the same leaves in the same order with the same text and the same (own or inherited) spans, and the
    //    bundle itself carries no span nobody attached
    {
        let x = Error::custom("one more");
        let probe = |b: Error| -> (Option<(usize, usize)>, usize, Vec<(String, Option<(usize, usize)>)>) {
            (b.explicit_span().map(range), b.len(), b.flatten().into_iter().map(|l| (l.to_string(), l.explicit_span().map(range))).collect())
        };
        let want = probe(Error::multiple(vec![e.clone(), x.clone()]));
        let mut by_push = Error::accumulator();
        by_push.push(e.clone());
        by_push.push(x.clone());
        let mut by_extend = Error::accumulator();
        by_extend.extend(vec![e.clone(), x.clone()]);
        let mut by_lazy = Error::accumulator();
        by_lazy.extend(vec![e.clone(), x.clone()].into_iter().filter(|_| true));
        let mut by_handle = Error::accumulator();
        let _: Option<()> = by_handle.handle(Err(e.clone()));
        let _: Option<()> = by_handle.handle(Err(x.clone()));
        // (every accumulator is finished before anything is compared: an unfinished one must not be dropped)
        let finished: Vec<(&str, Result<(), Error>)> = vec![("push", by_push.finish()), ("extend", by_extend.finish()), ("extend(lazy)", by_lazy.finish()), ("handle", by_handle.finish())];
        for (how, res) in finished {
            match res {
                Ok(()) => fail!("c04:recording-is-bundling", "an accumulator given two errors by {} finished Ok", how),
                Err(b) => {
                    let got = probe(b);
                    ensure!(got == want, format!("c04:recording-is-bundling:{}", how), "an accumulator given e and one more error by {} finishes with {:?}; Error::multiple of the two is {:?}", how, got, want);
                }
            }
        }
    }
    let ce = compile_errors(e.clone().write_errors());
    ensure!(
        ce.len() == leaves.len(),
        "c04:write-errors-count",
        "write_errors() has {} compile_error! for {} leaves",
        ce.len(),
        leaves.len()
    );
    for (i, (msg, _)) in ce.iter().enumerate() {
        ensure!(
            msg == &syn_msgs[i],
            "c04:write-errors-message",
            "compile_error {} is {:?}, syn message {:?}",
            i,
            msg,
            syn_msgs[i]
        );
    }
    Ok(())
}

pub fn check_c03a(ctx: &Ctx, n: &Node) -> Result<(), Fail> {
    // (one source text is parsed per case for the span pool: forget the previous case's, or the process-wide source map grows without bound)
    vmodel::util::fresh_spans();
    let pool = Pool::new();
    let (e, m) = build(n, &pool);
    let leaves = m.leaves();
    let nontriv = leaves
        .iter()
        .any(|l| l.coarser_offered || l.inherited)
        && leaves.len() >= 2;
    if nontriv {
        ctx.nontrivial(n);
    }
    if leaves.iter().any(|l| l.coarser_offered) {
        ctx.class("coarser-span-offered-after-finer");
    }
    if leaves.iter().any(|l| l.inherited) {
        ctx.class("leaf-inherits-bundle-span");
    }
    if leaves.iter().any(|l| l.span.is_none()) {
        ctx.class("unspanned-leaf");
    }
    ctx.sample(|| json!({"tree": format!("{:?}", n).chars().take(500).collect::<String>(),
        "leaf_spans": leaves.iter().map(|l| format!("{:?}", l.span)).collect::<Vec<_>>()}));

    // top-level span of a non-bundle value
    if let M::Leaf(l) = &m {
        let got = e.explicit_span().map(range);
        ensure!(
            got == l.span,
            "c03a:single-span",
            "explicit_span() {:?}, expected {:?} (first attached span wins)",
            got,
            l.span
        );
    }

    // flatten keeps (or inherits) spans
    let flat = e.clone().flatten();
    let got: Vec<Option<(usize, usize)>> = flat
        .clone()
        .into_iter()
        .map(|x| x.explicit_span().map(range))
        .collect();
    let want: Vec<Option<(usize, usize)>> = leaves.iter().map(|l| l.span).collect();
    ensure!(got.len() == want.len(), "c03a:count", "leaf count differs");
    for i in 0..got.len() {
        if got[i] != want[i] {
            let sig = if want[i].is_some() && got[i].is_none() && leaves[i].inherited {
                "c03a:flatten-drops-bundle-span"
            } else if want[i].is_some() && got[i].is_none() {
                "c03a:flatten-loses-span"
            } else {
                "c03a:flatten-wrong-span"
            };
            fail!(
                sig,
                "leaf {} ({}) has span {:?} after flatten(), expected {:?}",
                i,
                flat.clone().into_iter().nth(i).unwrap(),
                got[i],
                want[i]
            );
        }
    }

    // conversion to compiler diagnostics preserves each leaf's span; unspanned ones carry the path text
    let syn_errs: Vec<syn::Error> = syn::Error::from(e.clone()).into_iter().collect();
    ensure!(
        syn_errs.len() == want.len(),
        "c03a:syn-count",
        "diagnostic count differs"
    );
    let ce = compile_errors(e.clone().write_errors());
    ensure!(
        ce.len() == want.len(),
        "c03a:ce-count",
        "compile_error count differs"
    );
    for (i, l) in leaves.iter().enumerate() {
        let msg = l.msg.clone().unwrap_or_else(|| l.base.clone());
        let full = if l.path.is_empty() {
            msg.clone()
        } else {
            format!("{} at {}", msg, l.path.join("/"))
        };
        match l.span {
            Some(r) => {
                ensure!(
                    range(syn_errs[i].span()) == r,
                    if l.inherited {
                        "c03a:syn-drops-bundle-span"
                    } else {
                        "c03a:syn-span"
                    },
                    "diagnostic {} span {:?}, expected {:?}",
                    i,
                    range(syn_errs[i].span()),
                    r
                );
                ensure!(
                    range(ce[i].1) == r,
                    if l.inherited {
                        "c03a:ce-drops-bundle-span"
                    } else {
                        "c03a:ce-span"
                    },
                    "compile_error {} span {:?}, expected {:?}",
                    i,
                    range(ce[i].1),
                    r
                );
                ensure!(
                    syn_errs[i].to_string() == msg,
                    "c03a:spanned-message-has-path",
                    "spanned diagnostic {} reads {:?}, expected bare {:?}",
                    i,
                    syn_errs[i].to_string(),
                    msg
                );
            }
            None => {
                ensure!(
                    syn_errs[i].to_string() == full,
                    "c03a:unspanned-message-lacks-path",
                    "unspanned diagnostic {} reads {:?}, expected {:?}",
                    i,
                    syn_errs[i].to_string(),
                    full
                );
                ensure!(
                    range(syn_errs[i].span()) == (0, 0),
                    "c03a:unspanned-has-span",
                    "unspanned leaf rendered at {:?}",
                    range(syn_errs[i].span())
                );
            }
        }
    }
    Ok(())
}

fn regress_cases() -> Vec<Node> {
    let leaf = |k: Kind, ops: Vec<Op>| Node {
        body: Body::Leaf(k),
        ops,
    };
    vec![
        // the suite's own examples
        leaf(Kind::Duplicate("hello".into()), vec![Op::At("world".into())]),
        Node {
            body: Body::Multi(vec![
                leaf(Kind::Unknown("hello".into()), vec![Op::At("world".into())]),
                leaf(Kind::Missing("hell_no".into()), vec![Op::At("world".into())]),
            ]),
            ops: vec![Op::At("foo".into()), Op::Flatten],
        },
        // defect #5: bundle span not handed to span-less leaves
        Node {
            body: Body::Multi(vec![
                leaf(Kind::Missing("a".into()), vec![]),
                leaf(Kind::Missing("b".into()), vec![]),
            ]),
            ops: vec![Op::Span(2), Op::At("inner".into())],
        },
        // three located levels
        Node {
            body: Body::Multi(vec![
                Node {
                    body: Body::Multi(vec![
                        leaf(Kind::Custom("x".into()), vec![Op::At("c".into()), Op::At("b".into())]),
                        leaf(Kind::TooFew(1), vec![Op::Span(4), Op::Span(6)]),
                    ]),
                    ops: vec![Op::At("m".into()), Op::Span(8)],
                },
                leaf(Kind::Type("int".into()), vec![Op::At("z".into())]),
            ]),
            ops: vec![Op::At("r2".into()), Op::At("r1".into())],
        },
    ]
}

pub fn run(sub: &str, args: &Args) -> bool {
    let (prop, step) = match sub {
        "c04" => ("C04", "trees"),
        "c03a" => ("C03", "api"),
        _ => unreachable!(),
    };
    let ctx = Ctx::new(prop, step, vmodel::ev::mix_seed(args.seed, prop, step, args.shard), args);
    let checker: fn(&Ctx, &Node) -> Result<(), Fail> = if sub == "c04" { check_c04 } else { check_c03a };
    if sub == "c04" {
        ctx.set_rule("proptest recursive strategy over error trees (14 leaf constructors, bundles of arity 1..5, depth<=5, 0..3 of at/with_span/clone/flatten applied at every node); oracle = list model (leaves, paths, messages). Non-trivial: model depth>=3 with locations on >=2 levels; distinct by structural hash of the tree");
    } else {
        ctx.set_rule("same trees; oracle = span model (first attached span wins; span-less leaf inherits nearest enclosing bundle span on flatten/diagnostic conversion). Non-trivial: >=2 leaves and (a coarser span offered after a finer one, or a leaf inheriting a bundle span)");
    }
    if let Some(path) = &args.replay {
        let (_, case) = vmodel::ev::load_replay_case(path);
        let n: Node = serde_json::from_value(case).expect("bad replay case");
        let ok = run_list(&ctx, vec![n], checker);
        ctx.finish();
        return ok;
    }
    let mut ok = run_list(&ctx, regress_cases(), checker);
    // Error::multiple(vec![]) is a documented panic
    if sub == "c04" {
        let r = vmodel::util::catch(|| Error::multiple(vec![]));
        if r.is_ok() {
            ctx.violation(
                &Fail::new("c04:multiple-empty-no-panic", "Error::multiple(vec![]) returned"),
                json!("multiple-empty"),
            );
            ok = false;
        }
    }
    ok &= run_prop(&ctx, args.cases as u32, node(), checker);
    ctx.finish();
    ok
}
