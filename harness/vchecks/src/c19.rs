//! C19: generic-parameter usage analysis (part a, library API) and the bounds of emitted impls (part b).
//! Types are *constructed* with parameters planted at positions the generator labels, so the
//! expected answer is known by construction.

use crate::c06::derive;
use darling_core::usage::{
    CollectLifetimes, CollectTypeParams, GenericsExt, IdentSet, LifetimeSet, Purpose, UsesLifetimes, UsesTypeParams,
};
use proptest::prelude::*;
use serde_json::json;
use std::collections::BTreeSet;
use vmodel::dec::D;
use vmodel::ev::{run_list, run_prop, Args, Ctx, Fail};
use vmodel::util::{canon_tokens, catch, fresh_spans};
use vmodel::{ensure, fail};

#[derive(Clone, Copy, Debug, PartialEq, Eq)]
pub enum Pos {
    Use,
    NonUse,
    /// inside a qualified-self: counts only for Purpose::Declare
    QSelf,
}

#[derive(Clone, Debug)]
pub struct Plant {
    pub name: String,
    pub pos: Pos,
    pub form: &'static str,
}

pub const TPOOL: &[&str] = &["T", "U", "V", "W", "Elem"];
pub const DECOYS: &[&str] = &["A", "Item", "Out", "X", "N"];
pub const LPOOL: &[&str] = &["'a", "'b", "'c", "'life"];
const BINDERS: &[&str] = &["'y", "'z"];

pub struct G<'d, 'b> {
    pub d: &'d mut D<'b>,
    pub tplants: Vec<Plant>,
    pub lplants: Vec<Plant>,
    pub forms: BTreeSet<&'static str>,
    in_qself: usize,
    /// restrict planted type names to this list (part b: the declared parameters)
    pub names: Vec<String>,
    pub lnames: Vec<String>,
}

impl<'d, 'b> G<'d, 'b> {
    pub fn new(d: &'d mut D<'b>) -> Self {
        G {
            d,
            tplants: vec![],
            lplants: vec![],
            forms: BTreeSet::new(),
            in_qself: 0,
            names: TPOOL.iter().chain(DECOYS.iter().take(2)).map(|s| s.to_string()).collect(),
            lnames: LPOOL.iter().map(|s| s.to_string()).collect(),
        }
    }
    fn plant_t(&mut self, pos: Pos, form: &'static str) -> String {
        let n = self.d.below(self.names.len());
        let name = self.names[n].clone();
        let pos = if self.in_qself > 0 && pos == Pos::Use { Pos::QSelf } else { pos };
        self.tplants.push(Plant { name: name.clone(), pos, form });
        self.forms.insert(form);
        name
    }
    fn plant_l(&mut self, pos: Pos, form: &'static str) -> String {
        if self.lnames.is_empty() {
            return "'static".to_string();
        }
        let n = self.d.below(self.lnames.len());
        let name = self.lnames[n].clone();
        let pos = if self.in_qself > 0 && pos == Pos::Use { Pos::QSelf } else { pos };
        self.lplants.push(Plant { name: name.clone(), pos, form });
        self.forms.insert(form);
        name
    }
    fn opt_lt(&mut self, form: &'static str) -> String {
        if self.d.ratio(1, 2) && !self.lnames.is_empty() {
            format!("{} ", self.plant_l(Pos::Use, form))
        } else {
            String::new()
        }
    }

    pub fn ty(&mut self, depth: usize) -> String {
        let leaf = depth == 0 || self.d.ratio(2, 7);
        if leaf {
            return match self.d.weighted(&[8, 3, 2, 2, 3, 2, 1, 1, 1]) {
                0 => self.plant_t(Pos::Use, "T"),
                1 => format!("{}::Item", self.plant_t(Pos::Use, "T::Assoc")),
                2 => format!("a::{}", self.plant_t(Pos::NonUse, "path-tail a::T")),
                3 => format!("::{}", self.plant_t(Pos::NonUse, "global ::T")),
                4 => self.d.pick(&["u8", "String", "std::string::String", "bool"]).to_string(),
                5 => format!("m!({})", self.plant_t(Pos::NonUse, "macro body")),
                6 => "!".to_string(),
                7 => format!("::a::{}::<u8>", self.plant_t(Pos::NonUse, "global path middle")),
                _ => format!("q::m!{{ {} }}", self.plant_l(Pos::NonUse, "lifetime in macro")),
            };
        }
        let dd = depth - 1;
        match self.d.below(26) {
            // well-known wrapper names are types like any other: their arguments are uses
            24 => {
                let w = *self.d.pick(&["PhantomData", "::core::marker::PhantomData", "my::PhantomData", "Option", "Box", "std::marker::PhantomData"]);
                format!("{}<{}>", w, self.ty_f(dd, "well-known wrapper"))
            }
            25 => format!("PhantomData<fn({}) -> {}>", self.ty_f(dd, "well-known wrapper"), self.ty(dd)),
            // a projection whose later segment carries generic arguments (GAT): both the leading parameter and
            // whatever the arguments mention are used
            22 => {
                let t = self.plant_t(Pos::Use, "T::Gat<..>");
                format!("{}::Member<{}>", t, self.ty_f(dd, "generic arg of a projection"))
            }
            23 => {
                let t = self.plant_t(Pos::Use, "T::Gat<..>");
                let l = self.plant_l(Pos::Use, "lifetime arg of a projection");
                format!("{}::Assoc<{}, ({}, u8)>::Inner", t, l, self.ty_f(dd, "generic arg of a projection"))
            }
            0 => format!("Vec<{}>", self.ty_f(dd, "generic arg")),
            1 => format!("std::collections::HashMap<{}, {}>", self.ty_f(dd, "generic arg"), self.ty(dd)),
            2 => format!("a::b<{}>::c", self.ty_f(dd, "generic arg in middle segment")),
            3 => {
                let l = self.opt_lt("&'a");
                format!("&{}{}", l, self.ty_f(dd, "reference"))
            }
            4 => {
                let l = self.opt_lt("&'a mut");
                format!("&{}mut {}", l, self.ty_f(dd, "reference"))
            }
            5 => format!("*const {}", self.ty_f(dd, "pointer")),
            6 => format!("*mut {}", self.ty_f(dd, "pointer")),
            7 => format!("[{}]", self.ty_f(dd, "slice")),
            8 => format!("[{}; 3]", self.ty_f(dd, "array")),
            9 => format!("[{}; {}]", self.ty_f(dd, "array"), self.plant_t(Pos::NonUse, "array length")),
            10 => format!("({}, {})", self.ty_f(dd, "tuple"), self.ty(dd)),
            11 => format!("({},)", self.ty_f(dd, "tuple")),
            12 => format!("({})", self.ty_f(dd, "paren")),
            13 => format!("fn({}) -> {}", self.ty_f(dd, "bare fn"), self.ty(dd)),
            14 => {
                let b = *self.d.pick(BINDERS);
                format!("for<{}> unsafe extern \"C\" fn(&{} u8, x: {})", b, b, self.ty_f(dd, "bare fn named arg"))
            }
            15 => {
                let lt = if self.d.bool() { format!(" + {}", self.plant_l(Pos::Use, "dyn + 'a")) } else { String::new() };
                format!("Box<dyn Tr<{}>{}>", self.ty_f(dd, "trait object"), lt)
            }
            16 => format!("Box<dyn Fn({}) -> {}>", self.ty_f(dd, "parenthesized args"), self.ty(dd)),
            17 => format!("Box<dyn Iterator<Item = {}>>", self.ty_f(dd, "assoc-type binding")),
            18 => format!("Box<dyn Iterator<Item: Tr<{}>>>", self.ty_f(dd, "assoc constraint")),
            19 => format!("Foo<{{ {}::N }}, {}>", self.plant_t(Pos::NonUse, "const-expression arg"), self.ty(dd)),
            20 => {
                self.in_qself += 1;
                let q = self.ty_f(dd, "qself");
                self.in_qself -= 1;
                if self.d.bool() {
                    format!("<{} as Tr<{}>>::Out", q, self.ty(dd))
                } else {
                    format!("<{}>::Out", q)
                }
            }
            _ => {
                let l = self.plant_l(Pos::Use, "lifetime generic arg");
                format!("Cow<{}, {}>", l, self.ty_f(dd, "generic arg"))
            }
        }
    }
    fn ty_f(&mut self, depth: usize, form: &'static str) -> String {
        self.forms.insert(form);
        self.ty(depth)
    }
}

fn expect(plants: &[Plant], query: &[String], declare: bool) -> BTreeSet<String> {
    plants
        .iter()
        .filter(|p| p.pos == Pos::Use || (declare && p.pos == Pos::QSelf))
        .filter(|p| query.contains(&p.name))
        .map(|p| p.name.clone())
        .collect()
}

fn ident_set(names: &[String]) -> IdentSet {
    names.iter().map(|n| syn::Ident::new(n, proc_macro2::Span::call_site())).collect()
}
fn lt_set(names: &[String]) -> LifetimeSet {
    names.iter().map(|n| syn::Lifetime::new(n, proc_macro2::Span::call_site())).collect()
}

fn names_of<'a, I: IntoIterator<Item = &'a syn::Ident>>(i: I) -> BTreeSet<String> {
    i.into_iter().map(|x| x.to_string()).collect()
}
fn lnames_of<'a, I: IntoIterator<Item = &'a syn::Lifetime>>(i: I) -> BTreeSet<String> {
    i.into_iter().map(|x| x.to_string()).collect()
}

/// Part a: k field types, a query set, both purposes, every carrier.
pub fn check_a(ctx: &Ctx, bytes: &Vec<u8>) -> Result<(), Fail> {
    fresh_spans();
    let mut d = D::new(bytes);
    let nfields = d.range(1, 3);
    let mut field_src = vec![];
    let mut per_field: Vec<(Vec<Plant>, Vec<Plant>)> = vec![];
    let mut forms = BTreeSet::new();
    for _ in 0..nfields {
        let mut g = G::new(&mut d);
        let depth = g.d.range(0, 5);
        let t = g.ty(depth);
        forms.extend(g.forms.iter().cloned());
        per_field.push((g.tplants.clone(), g.lplants.clone()));
        field_src.push(t);
    }
    // the query sets
    let mut tq: Vec<String> = vec![];
    for n in TPOOL.iter().chain(DECOYS.iter()) {
        if d.ratio(3, 5) {
            tq.push(n.to_string());
        }
    }
    let mut lq: Vec<String> = vec![];
    for n in LPOOL {
        if d.ratio(3, 5) {
            lq.push(n.to_string());
        }
    }
    let src = format!(
        "struct S {{ {} }}",
        field_src.iter().enumerate().map(|(i, t)| format!("f{}: {}", i, t)).collect::<Vec<_>>().join(", ")
    );
    ctx.set_render(json!({"source": src, "type_query": tq, "lifetime_query": lq}));
    let di: syn::DeriveInput = match syn::parse_str(&src) {
        Ok(x) => x,
        Err(e) => fail!("c19a:harness-render", "generated type does not parse: {} :: {}", e, src),
    };
    let fields: Vec<&syn::Field> = match &di.data {
        syn::Data::Struct(s) => s.fields.iter().collect(),
        _ => unreachable!(),
    };
    let tset = ident_set(&tq);
    let lset = lt_set(&lq);
    let all_t: Vec<Plant> = per_field.iter().flat_map(|p| p.0.clone()).collect();
    let interesting = all_t.iter().any(|p| p.pos != Pos::Use && tq.contains(&p.name)) || all_t.len() >= 3;
    if interesting {
        ctx.nontrivial(&(src.clone(), tq.clone(), lq.clone()));
    }
    for f in &forms {
        ctx.class(&format!("form:{}", f));
    }
    ctx.sample(|| json!({"source": src, "type_query": tq, "lifetime_query": lq,
        "planted": all_t.iter().map(|p| format!("{}@{:?}:{}", p.name, p.pos, p.form)).collect::<Vec<_>>()}));

    for (declare, purpose) in [(false, Purpose::BoundImpl), (true, Purpose::Declare)] {
        let opts = purpose.into();
        let ptag = if declare { "declare" } else { "bound" };
        let mut union_t = BTreeSet::new();
        let mut union_l = BTreeSet::new();
        for (i, f) in fields.iter().enumerate() {
            let want_t = expect(&per_field[i].0, &tq, declare);
            let want_l = expect(&per_field[i].1, &lq, declare);
            let r = catch(|| {
                (
                    names_of(f.ty.uses_type_params(&opts, &tset)),
                    lnames_of(f.ty.uses_lifetimes(&opts, &lset)),
                    names_of(f.uses_type_params(&opts, &tset)),
                    names_of(f.ty.uses_type_params_cloned(&opts, &tset).iter()),
                    lnames_of(f.ty.uses_lifetimes_cloned(&opts, &lset).iter()),
                )
            });
            let (got_t, got_l, got_field, got_cloned, got_lcloned) = match r {
                Ok(x) => x,
                Err(p) => fail!("c19a:panic", "usage analysis panicked on `{}`: {}", field_src[i], p),
            };
            if got_t != want_t {
                let missing: Vec<&String> = want_t.difference(&got_t).collect();
                let extra: Vec<&String> = got_t.difference(&want_t).collect();
                let form = per_field[i]
                    .0
                    .iter()
                    .find(|p| missing.contains(&&p.name) || extra.contains(&&p.name))
                    .map(|p| p.form)
                    .unwrap_or("?");
                let kind = if !missing.is_empty() { "missed" } else if extra.iter().any(|e| !tq.contains(e)) { "outside-query" } else { "spurious" };
                fail!(
                    format!("c19a:type-params:{}:{}", kind, ptag),
                    "uses_type_params({}) on `{}` with query {:?}: got {:?}, planted uses {:?} (form: {})",
                    ptag, field_src[i], tq, got_t, want_t, form
                );
            }
            ensure!(got_field == want_t && got_cloned == want_t, "c19a:carrier-disagrees", "Field / _cloned answers differ from the Type answer on `{}`: {:?} {:?} vs {:?}", field_src[i], got_field, got_cloned, want_t);
            if got_l != want_l {
                let kind = if want_l.difference(&got_l).next().is_some() { "missed" } else { "spurious" };
                fail!(
                    format!("c19a:lifetimes:{}:{}", kind, ptag),
                    "uses_lifetimes({}) on `{}` with query {:?}: got {:?}, planted uses {:?}",
                    ptag, field_src[i], lq, got_l, want_l
                );
            }
            ensure!(got_lcloned == want_l, "c19a:lifetime-cloned-disagrees", "uses_lifetimes_cloned differs on `{}`", field_src[i]);
            union_t.extend(want_t);
            union_l.extend(want_l);
        }
        // a collection's answer is the union of its members' answers
        let got_data = names_of(di.data.uses_type_params(&opts, &tset));
        let got_iter = names_of(fields.iter().cloned().collect_type_params(&opts, &tset));
        let tys: Vec<syn::Type> = fields.iter().map(|f| f.ty.clone()).collect();
        let got_vec = names_of(tys.uses_type_params(&opts, &tset));
        let got_iter_cloned = names_of(fields.iter().cloned().collect_type_params_cloned(&opts, &tset).iter());
        ensure!(
            got_data == union_t && got_iter == union_t && got_vec == union_t && got_iter_cloned == union_t,
            format!("c19a:collection-not-union:{}", ptag),
            "collection answers {:?} / {:?} / {:?} / {:?} differ from the union of the members' {:?} on `{}`",
            got_data, got_iter, got_vec, got_iter_cloned, union_t, src
        );
        let got_ldata = lnames_of(di.data.uses_lifetimes(&opts, &lset));
        let got_liter = lnames_of(fields.iter().cloned().collect_lifetimes(&opts, &lset));
        let got_lvec = lnames_of(tys.uses_lifetimes(&opts, &lset));
        ensure!(
            got_ldata == union_l && got_liter == union_l && got_lvec == union_l,
            format!("c19a:lifetime-collection-not-union:{}", ptag),
            "lifetime collection answers {:?} / {:?} / {:?} differ from the union {:?} on `{}`",
            got_ldata, got_liter, got_lvec, union_l, src
        );
        // the same field types spread over an enum's variants (named, tuple, unit) and over a union; wrapped in an
        // invisible type group; as the bounded type of a where-predicate: always the union of the members
        {
            let named: Vec<String> = field_src.iter().enumerate().filter(|(i, _)| i % 2 == 0).map(|(i, t)| format!("f{}: {}", i, t)).collect();
            let tuple: Vec<String> = field_src.iter().enumerate().filter(|(i, _)| i % 2 == 1).map(|(_, t)| t.clone()).collect();
            let esrc = format!("enum E {{ A {{ {} }}, B({}), C }}", named.join(", "), tuple.join(", "));
            let usrc = format!("union U {{ {} }}", field_src.iter().enumerate().map(|(i, t)| format!("f{}: {}", i, t)).collect::<Vec<_>>().join(", "));
            for (label, text) in [("enum", &esrc), ("union", &usrc)] {
                let d2: syn::DeriveInput = match syn::parse_str(text) {
                    Ok(x) => x,
                    Err(e) => fail!("c19a:harness-render", "generated {} does not parse: {} :: {}", label, e, text),
                };
                let r = catch(|| (names_of(d2.data.uses_type_params(&opts, &tset)), lnames_of(d2.data.uses_lifetimes(&opts, &lset))));
                let (gt, gl) = match r {
                    Ok(x) => x,
                    Err(p) => fail!("c19a:panic", "usage analysis panicked on `{}`: {}", text, p),
                };
                ensure!(gt == union_t && gl == union_l, format!("c19a:{}-body-not-union:{}", label, ptag), "syn::Data answers {:?}/{:?} on `{}`, union of the members {:?}/{:?}", gt, gl, text, union_t, union_l);
                if label == "enum" {
                    if let Ok(ad) = darling_core::ast::Data::<syn::Variant, syn::Field>::try_from(&d2.data) {
                        let gt = names_of(ad.uses_type_params(&opts, &tset));
                        let gl = lnames_of(ad.uses_lifetimes(&opts, &lset));
                        ensure!(gt == union_t && gl == union_l, format!("c19a:ast-data-not-union:{}", ptag), "ast::Data answers {:?}/{:?} on `{}`, union {:?}/{:?}", gt, gl, text, union_t, union_l);
                    }
                }
            }
            for (i, f) in fields.iter().enumerate() {
                let want_t = expect(&per_field[i].0, &tq, declare);
                let want_l = expect(&per_field[i].1, &lq, declare);
                let grouped = syn::Type::Group(syn::TypeGroup { group_token: Default::default(), elem: Box::new(f.ty.clone()) });
                let ty = &f.ty;
                let pred: syn::WherePredicate = syn::parse_quote!(#ty: ::core::marker::Sized);
                let r = catch(|| {
                    (
                        names_of(grouped.uses_type_params(&opts, &tset)),
                        lnames_of(grouped.uses_lifetimes(&opts, &lset)),
                        names_of(pred.uses_type_params(&opts, &tset)),
                        lnames_of(pred.uses_lifetimes(&opts, &lset)),
                    )
                });
                let (a, b, c, dd) = match r {
                    Ok(x) => x,
                    Err(p) => fail!("c19a:panic", "usage analysis panicked on a group / predicate around `{}`: {}", field_src[i], p),
                };
                ensure!(a == want_t && b == want_l, format!("c19a:type-group:{}", ptag), "invisible group around `{}`: {:?}/{:?}, expected {:?}/{:?}", field_src[i], a, b, want_t, want_l);
                ensure!(c == want_t && dd == want_l, format!("c19a:where-predicate:{}", ptag), "`{}: Sized` as a predicate: {:?}/{:?}, expected {:?}/{:?}", field_src[i], c, dd, want_t, want_l);
            }
        }
        // darling's own body representation answers alike
        if let syn::Data::Struct(s) = &di.data {
            let fs = darling_core::ast::Fields::<syn::Field>::try_from(&s.fields);
            if let Ok(fs) = fs {
                let got = names_of(fs.uses_type_params(&opts, &tset));
                let gotl = lnames_of(fs.uses_lifetimes(&opts, &lset));
                ensure!(got == union_t && gotl == union_l, "c19a:ast-fields-not-union", "ast::Fields answers {:?}/{:?}, union {:?}/{:?}", got, gotl, union_t, union_l);
            }
        }
    }
    Ok(())
}

// ------------------------------------------------------------------------------------------
// part b: the impl emitted for generic receivers

const B_TRAITS: &[&str] = &["FromMeta", "FromDeriveInput", "FromField", "FromVariant", "FromTypeParam", "FromAttributes"];

pub fn check_b(ctx: &Ctx, bytes: &Vec<u8>) -> Result<(), Fail> {
    fresh_spans();
    let mut d = D::new(bytes);
    let tr = *d.pick(B_TRAITS);
    // declared generics
    let nt = d.range(1, 4);
    let tparams: Vec<String> = TPOOL[..nt].iter().map(|s| s.to_string()).collect();
    let nl = d.range(0, 2);
    let lparams: Vec<String> = LPOOL[..nl].iter().map(|s| s.to_string()).collect();
    let with_const = d.ratio(1, 4);
    let mut decl = vec![];
    for l in &lparams {
        decl.push(l.clone());
    }
    for (i, t) in tparams.iter().enumerate() {
        decl.push(match d.below(6) {
            // a bound the user wrote that merely *ends* in FromMeta is another trait
            4 => format!("{}: local::FromMeta", t),
            5 => format!("{}: other::darling::FromMeta + Clone", t),
            0 => t.clone(),
            1 => format!("{}: Clone", t),
            2 => format!("{}: Clone + Default", t),
            _ => {
                if i + 1 == tparams.len() && !with_const {
                    format!("{} = u8", t)
                } else {
                    t.clone()
                }
            }
        });
    }
    if with_const {
        // a const parameter may stand anywhere after the lifetimes, also before or between type parameters
        let pos = lparams.len() + d.below(tparams.len() + 1);
        decl.insert(pos.min(decl.len()), "const N: usize".into());
        if d.ratio(1, 4) {
            let pos2 = lparams.len() + d.below(tparams.len() + 2);
            decl.insert(pos2.min(decl.len()), "const M: u8".into());
        }
    }
    let where_clause = match d.below(4) {
        0 => String::new(),
        1 => format!(" where {}: Default", tparams[0]),
        2 => format!(" where {}: Default, Vec<{}>: Clone,", tparams[0], tparams[nt - 1]),
        _ => {
            if nl > 0 {
                format!(" where {}: {}", tparams[0], lparams[0])
            } else {
                String::new()
            }
        }
    };
    let mut used: BTreeSet<String> = BTreeSet::new();
    let mut all_plants = vec![];
    let mk_field_ty = |d: &mut D, counted: bool, used: &mut BTreeSet<String>, all: &mut Vec<String>| -> String {
        let mut g = G::new(d);
        g.names = tparams.clone();
        g.names.push("A".into()); // an undeclared name
        g.lnames = lparams.clone();
        let depth = g.d.range(0, 3);
        let t = g.ty(depth);
        for p in &g.tplants {
            all.push(format!("{}@{:?}:{}", p.name, p.pos, p.form));
            if counted && p.pos == Pos::Use && tparams.contains(&p.name) {
                used.insert(p.name.clone());
            }
        }
        t
    };
    let is_enum = tr == "FromMeta" && d.ratio(1, 3);
    let mut body = String::new();
    let mut n_skipped_using = 0;
    if is_enum {
        let nv = d.range(1, 3);
        for i in 0..nv {
            let vskip = d.ratio(1, 4);
            let shape = d.below(3);
            let mut inner = String::new();
            match shape {
                0 => {}
                1 => {
                    let t = mk_field_ty(&mut d, !vskip, &mut used, &mut all_plants);
                    inner = format!("({})", t);
                }
                _ => {
                    let nf = d.range(1, 2);
                    let mut fs = vec![];
                    for j in 0..nf {
                        let fskip = d.ratio(1, 4);
                        let t = mk_field_ty(&mut d, !vskip && !fskip, &mut used, &mut all_plants);
                        if fskip || vskip {
                            n_skipped_using += 1;
                        }
                        fs.push(format!("{}g{}: {}", if fskip { "#[darling(skip)] " } else { "" }, j, t));
                    }
                    inner = format!(" {{ {} }}", fs.join(", "));
                }
            }
            if vskip && shape == 1 {
                n_skipped_using += 1;
            }
            body.push_str(&format!("{}V{}{}, ", if vskip { "#[darling(skip)] " } else { "" }, i, inner));
        }
    } else {
        let nf = d.range(1, 4);
        let mut have_flatten = false;
        for j in 0..nf {
            let kind = d.weighted(&[6, 3, if have_flatten { 0 } else { 1 }, 1]);
            let (attr, counted) = match kind {
                0 => ("", true),
                1 => ("#[darling(skip)] ", false),
                2 => {
                    have_flatten = true;
                    ("#[darling(flatten)] ", true)
                }
                _ => ("#[darling(default, multiple)] ", true),
            };
            let t = mk_field_ty(&mut d, counted, &mut used, &mut all_plants);
            if !counted {
                n_skipped_using += 1;
            }
            body.push_str(&format!("{}f{}: {}, ", attr, j, t));
        }
        // magic fields are not parsed from attributes and do not count
        if tr != "FromMeta" && tr != "FromAttributes" && d.ratio(1, 2) {
            body.push_str("ident: syn::Ident, ");
        }
    }
    let container = if tr == "FromMeta" { "" } else { "#[darling(attributes(my))] " };
    // a receiver without any parameter may still have a where-clause (global predicates are legal): the impl repeats it
    let parameterless = d.ratio(1, 16);
    let src = if parameterless {
        used.clear();
        all_plants.clear();
        n_skipped_using = 0;
        format!(
            "{}{} Rcv where {} {{ {} }}",
            container,
            if is_enum { "enum" } else { "struct" },
            *d.pick(&["String: Clone", "String: Clone, for<'x> &'x str: Into<String>,", "Vec<u8>: Default, Self: Sized"]),
            if is_enum { "A, B { f0: u8 }" } else { "f0: u8, #[darling(skip)] f1: String" }
        )
    } else {
        format!(
            "{}{} Rcv<{}>{} {{ {} }}",
            container,
            if is_enum { "enum" } else { "struct" },
            decl.join(", "),
            where_clause,
            body
        )
    };
    if parameterless {
        ctx.class("no-parameters-but-a-where-clause");
    }
    ctx.set_render(json!({"trait": tr, "source": src}));
    let di: syn::DeriveInput = match syn::parse_str(&src) {
        Ok(x) => x,
        Err(e) => fail!("c19b:harness-render", "generated receiver does not parse: {} :: {}", e, src),
    };
    let out = match catch(|| derive(tr, &di)) {
        Ok(x) => x,
        Err(p) => fail!("c19b:panic", "derive({}) panicked on `{}`: {}", tr, src, p),
    };
    let file: syn::File = match syn::parse2(out.clone()) {
        Ok(f) => f,
        Err(e) => fail!("c19b:output", "output does not parse: {}", e),
    };
    let imp = match file.items.iter().find_map(|i| if let syn::Item::Impl(i) = i { Some(i) } else { None }) {
        Some(i) => i,
        None => fail!("c19b:rejected", "derive({}) rejected the generic receiver `{}`: {}", tr, src, out.to_string().chars().take(300).collect::<String>()),
    };
    if n_skipped_using > 0 {
        ctx.class("has-skipped-field-or-variant");
    }
    if n_skipped_using > 0 || all_plants.iter().any(|p| !p.contains("@Use")) {
        ctx.nontrivial(&src);
    }
    ctx.class(&format!("trait:{}", tr));
    ctx.sample(|| json!({"trait": tr, "source": src, "expected_bounded": used, "planted": all_plants}));

    // expected generics: the receiver's, with `::darling::FromMeta` appended to the used parameters
    let mut want = di.generics.clone();
    for p in want.params.iter_mut() {
        if let syn::GenericParam::Type(tp) = p {
            if used.contains(&tp.ident.to_string()) {
                tp.bounds.push(syn::parse_quote!(::darling::FromMeta));
            }
        }
    }
    let (want_impl, want_ty, want_where) = want.split_for_impl();
    let want_impl_s = canon_tokens(quote::quote!(#want_impl));
    let got_impl_s = canon_tokens({
        let g = &imp.generics;
        let (ig, _, _) = g.split_for_impl();
        quote::quote!(#ig)
    });
    if want_impl_s != got_impl_s {
        // classify: which parameters are bounded
        let mut got_bounded = BTreeSet::new();
        for p in imp.generics.params.iter() {
            if let syn::GenericParam::Type(tp) = p {
                let orig = di.generics.type_params().find(|o| o.ident == tp.ident).map(|o| o.bounds.len()).unwrap_or(0);
                if tp.bounds.len() > orig {
                    got_bounded.insert(tp.ident.to_string());
                }
            }
        }
        let kind = if got_bounded.difference(&used).next().is_some() {
            "too-many-bounds"
        } else if used.difference(&got_bounded).next().is_some() {
            "too-few-bounds"
        } else {
            "generics-changed"
        };
        fail!(
            format!("c19b:{}", kind),
            "derive({}) on `{}`: impl generics `{}`, expected `{}` (parameters used by parsed fields: {:?}; bounded: {:?})",
            tr, src, got_impl_s, want_impl_s, used, got_bounded
        );
    }
    let got_where = canon_tokens({
        let w = &imp.generics.where_clause;
        quote::quote!(#w)
    });
    let want_where_s = canon_tokens(quote::quote!(#want_where));
    ensure!(
        got_where == want_where_s,
        "c19b:where-clause",
        "derive({}) on `{}`: where clause `{}`, expected `{}`",
        tr, src, got_where, want_where_s
    );
    let got_self = canon_tokens({
        let t = &imp.self_ty;
        quote::quote!(#t)
    });
    let want_self = canon_tokens(quote::quote!(Rcv #want_ty));
    ensure!(got_self == want_self, "c19b:self-type", "impl is for `{}`, expected `{}`", got_self, want_self);
    // GenericsExt agrees with the declaration
    let dt: BTreeSet<String> = di.generics.declared_type_params().iter().map(|i| i.to_string()).collect();
    let dl: BTreeSet<String> = di.generics.declared_lifetimes().iter().map(|i| i.to_string()).collect();
    let (decl_t, decl_l): (BTreeSet<String>, BTreeSet<String>) = if parameterless { (BTreeSet::new(), BTreeSet::new()) } else { (tparams.iter().cloned().collect(), lparams.iter().cloned().collect()) };
    ensure!(
        dt == decl_t && dl == decl_l,
        "c19b:declared-params",
        "declared_type_params/lifetimes {:?}/{:?} differ from the declaration {:?}/{:?}",
        dt, dl, tparams, lparams
    );
    Ok(())
}

pub fn run(args: &Args) -> bool {
    let replay = args.replay.as_ref().map(|p| vmodel::ev::load_replay_case(p));
    let want = |s: &str| replay.as_ref().map(|(st, _)| st == s).unwrap_or(true);
    let mut ok = true;
    if want("usage") {
        let ctx = Ctx::new("C19", "usage", vmodel::ev::mix_seed(args.seed, "C19", "usage", args.shard), args);
        ctx.set_rule("part a: 1..3 field types built by a grammar over 30 syn::Type forms (depth<=5) with type parameters and lifetimes planted at labelled positions (use / non-use / qself), random query sets incl. decoy names, both purposes; oracle by construction: answer == planted uses within the query, collection == union, all carriers agree. Non-trivial: a queried name planted at a non-use or qself position, or >=3 plantings; distinct by (source, queries)");
        if let Some((_, case)) = &replay {
            let b: Vec<u8> = serde_json::from_value(case.clone()).expect("bad replay");
            ok &= run_list(&ctx, vec![b], check_a);
        } else {
            ok &= run_prop(&ctx, args.cases as u32, prop::collection::vec(any::<u8>(), 0..256), check_a);
        }
        ctx.finish();
    }
    if want("bounds") {
        let ctx = Ctx::new("C19", "bounds", vmodel::ev::mix_seed(args.seed, "C19", "bounds", args.shard), args);
        ctx.set_rule("part b: generic receiver declarations (1..4 type params with bounds/defaults, 0..2 lifetimes, const param, where-clause) whose fields plant the declared parameters at use/non-use positions, with skip / flatten / multiple fields, skipped variants and magic fields, for all six derives; oracle: impl generics == declaration + ::darling::FromMeta on exactly the parameters used by parsed fields, where-clause and self type token-identical. Non-trivial: a skipped field/variant or a non-use planting; distinct by source");
        if let Some((_, case)) = &replay {
            let b: Vec<u8> = serde_json::from_value(case.clone()).expect("bad replay");
            ok &= run_list(&ctx, vec![b], check_b);
        } else {
            let n = (args.cases / 2).max(1) as u32;
            ok &= run_prop(&ctx, n, prop::collection::vec(any::<u8>(), 0..256), check_b);
        }
        ctx.finish();
    }
    ok
}
