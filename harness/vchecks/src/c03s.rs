//! C03, built-in sequences and the default dispatch hooks of `FromMeta`.
//!
//! Step `seqs`: the built-in sequence targets (`Vec<u8|u16|u32|u64|usize>`, `Vec<syn::Lit*>`, `PathList`)
//! given arrays / lists in which some elements are unacceptable: the error must carry an explicit
//! span inside an *offending element* (the offending value itself), not merely inside the array -
//! and inside the string literal when the array is written quoted (every token of a quoted array
//! has the literal's span, nothing finer exists).
//!
//! Step `hooks`: ten implementors of `FromMeta` that override exactly one hook with an error that
//! carries no span (what a user's hand-written impl typically does), driven through every public
//! entry (`from_meta`, `from_nested_meta`, `from_expr`, `from_value`) on arbitrary meta items: the
//! documented contract of the default methods is that the span of the item / value / expression is
//! attached on the way out, the most specific one first.

use darling_core::ast::NestedMeta;
use darling_core::{Error, FromMeta};
use proptest::prelude::*;
use serde::{Deserialize, Serialize};
use serde_json::json;
use vmodel::dec::D;
use vmodel::ev::{run_list, run_prop, Args, Ctx, Fail};
use vmodel::util::{catch, fresh_spans, inside, range};
use vmodel::{ensure, fail};

// ------------------------------------------------------------------------------------------- seqs

#[derive(Clone, Debug, Serialize, Deserialize, Hash)]
pub struct SeqCase {
    pub target: String,
    /// array | quoted | list
    pub form: String,
    /// (source text, offending?)
    pub elems: Vec<(String, bool)>,
    pub trailing_comma: bool,
    pub pad: usize,
}

const NUM: &[&str] = &["Vec<u8>", "Vec<u16>", "Vec<u32>", "Vec<u64>", "Vec<usize>"];
const LITS: &[&str] = &["Vec<LitInt>", "Vec<LitStr>", "Vec<LitBool>", "Vec<LitChar>", "Vec<LitFloat>", "Vec<LitByte>", "Vec<LitByteStr>"];

fn conv_seq(target: &str, m: &syn::Meta) -> Result<usize, Error> {
    match target {
        "Vec<u8>" => Vec::<u8>::from_meta(m).map(|v| v.len()),
        "Vec<u16>" => Vec::<u16>::from_meta(m).map(|v| v.len()),
        "Vec<u32>" => Vec::<u32>::from_meta(m).map(|v| v.len()),
        "Vec<u64>" => Vec::<u64>::from_meta(m).map(|v| v.len()),
        "Vec<usize>" => Vec::<usize>::from_meta(m).map(|v| v.len()),
        "Vec<LitInt>" => Vec::<syn::LitInt>::from_meta(m).map(|v| v.len()),
        "Vec<LitStr>" => Vec::<syn::LitStr>::from_meta(m).map(|v| v.len()),
        "Vec<LitBool>" => Vec::<syn::LitBool>::from_meta(m).map(|v| v.len()),
        "Vec<LitChar>" => Vec::<syn::LitChar>::from_meta(m).map(|v| v.len()),
        "Vec<LitFloat>" => Vec::<syn::LitFloat>::from_meta(m).map(|v| v.len()),
        "Vec<LitByte>" => Vec::<syn::LitByte>::from_meta(m).map(|v| v.len()),
        "Vec<LitByteStr>" => Vec::<syn::LitByteStr>::from_meta(m).map(|v| v.len()),
        "PathList" => darling_core::util::PathList::from_meta(m).map(|v| v.len()),
        _ => unreachable!(),
    }
}

/// Elements the target takes, and elements it must refuse (known by the target's documentation:
/// "array of unsigned integers", "literal of kind K", "list of paths").
fn pools(target: &str, form: &str) -> (Vec<&'static str>, Vec<&'static str>) {
    let list = form == "list";
    match target {
        "Vec<u8>" | "Vec<u16>" | "Vec<u32>" | "Vec<u64>" | "Vec<usize>" => {
            let mut bad = vec!["zed", "-3", "1 + 1", "(8)", "[1]", "2.5", "true", "'c'", "\"abc\"", "a::b", "f(1)", "18446744073709551616"];
            match target {
                "Vec<u8>" => bad.extend(["256", "300", "0x100", "70000"]),
                "Vec<u16>" => bad.extend(["65536", "70000"]),
                "Vec<u32>" => bad.extend(["4294967296"]),
                _ => {}
            }
            (vec!["0", "1", "16", "0xff", "255", "0b101", "7"], bad)
        }
        "Vec<LitInt>" => (
            vec!["1", "0xff", "7u8", "12345678901234567890123"],
            if list { vec!["x", "\"s\"", "true", "'c'", "1.5", "y = \"s\"", "z(1)"] } else { vec!["x", "\"s\"", "true", "'c'", "1.5", "-3", "1 + 1", "(1)"] },
        ),
        "Vec<LitStr>" => (
            vec!["\"a\"", "\"\"", "r#\"raw\"#", "\"b c\""],
            if list { vec!["x", "1", "true", "'c'", "1.5", "y = 1", "z(\"s\")"] } else { vec!["x", "1", "true", "'c'", "b\"x\"", "a::b", "(\"s\")"] },
        ),
        "Vec<LitBool>" => (vec!["true", "false"], if list { vec!["x", "1", "\"true\"", "'c'", "y = 1"] } else { vec!["x", "1", "\"true\"", "'c'", "!true"] }),
        "Vec<LitChar>" => (vec!["'a'", "'\\n'", "'\\u{10FFFF}'"], if list { vec!["x", "1", "\"a\"", "true", "b'a'"] } else { vec!["x", "1", "\"a\"", "true", "b'a'", "('a')"] }),
        "Vec<LitFloat>" => (vec!["1.5", "2.0e3", "0.1f32"], if list { vec!["x", "1", "\"1.5\"", "true"] } else { vec!["x", "1", "\"1.5\"", "true", "-1.5", "1.5 + 1.0"] }),
        "Vec<LitByte>" => (vec!["b'a'", "b'\\n'"], vec!["x", "1", "'a'", "\"a\"", "b\"a\""]),
        "Vec<LitByteStr>" => (vec!["b\"a\"", "b\"\"", "br#\"r\"#"], vec!["x", "1", "'a'", "\"a\"", "b'a'"]),
        "PathList" => (vec!["a", "b::c", "::d", "r#type", "crate::e"], vec!["\"s\"", "1", "x = 1", "y(z)", "true", "w()"]),
        _ => unreachable!(),
    }
}

pub fn gen_seq(d: &mut D) -> SeqCase {
    let target = match d.weighted(&[5, 7, 2]) {
        0 => d.pick(NUM).to_string(),
        1 => d.pick(LITS).to_string(),
        _ => "PathList".to_string(),
    };
    let form = if target == "PathList" {
        "list"
    } else if NUM.contains(&target.as_str()) {
        *d.pick(&["array", "array", "quoted"])
    } else {
        *d.pick(&["array", "array", "quoted", "list", "list"])
    };
    let (good, bad) = pools(&target, form);
    let n = d.range(1, 6);
    let mut elems: Vec<(String, bool)> = vec![];
    // at least one offending element, usually exactly one, sometimes several
    let first_bad = d.below(n);
    for i in 0..n {
        let is_bad = i == first_bad || d.ratio(1, 6);
        if is_bad {
            elems.push((d.pick(&bad).to_string(), true));
        } else {
            elems.push((d.pick(&good).to_string(), false));
        }
    }
    SeqCase { target, form: form.to_string(), elems, trailing_comma: d.ratio(1, 5), pad: d.below(3) }
}

/// Source text and the byte range of every element inside it.
fn render_seq(c: &SeqCase) -> (String, Vec<(usize, usize)>, (usize, usize)) {
    let (open, close) = match c.form.as_str() {
        "array" => ("v = [".to_string(), "]".to_string()),
        "quoted" => ("v = \"[".to_string(), "]\"".to_string()),
        _ => ("v(".to_string(), ")".to_string()),
    };
    let mut s = open.clone();
    let mut ranges = vec![];
    for (i, (e, _)) in c.elems.iter().enumerate() {
        if i > 0 {
            s.push(',');
        }
        for _ in 0..(if i > 0 { 1 + c.pad } else { c.pad }) {
            s.push(' ');
        }
        let a = s.len();
        if c.form == "quoted" {
            // inside a string literal: escape quotes and backslashes
            s.push_str(&e.replace('\\', "\\\\").replace('"', "\\\""));
        } else {
            s.push_str(e);
        }
        ranges.push((a, s.len()));
    }
    if c.trailing_comma {
        s.push(',');
    }
    s.push_str(&close);
    let value = if c.form == "list" { (0, s.len()) } else { (4, s.len()) };
    (s, ranges, value)
}

pub fn check_seq(ctx: &Ctx, c: &SeqCase) -> Result<(), Fail> {
    fresh_spans();
    let (src, ranges, value) = render_seq(c);
    let m = match syn::parse_str::<syn::Meta>(&src) {
        Ok(m) => m,
        Err(e) => fail!("c03s:harness-render", "`{}` does not parse as a meta item: {}", src, e),
    };
    use syn::spanned::Spanned;
    let whole = range(m.span());
    ensure!(whole.1 - whole.0 == src.len(), "c03s:harness-offsets", "`{}`: meta spans {:?}, source has {} bytes", src, whole, src.len());
    let base = whole.0;
    ctx.class(&format!("form:{}", c.form));
    ctx.class(&format!("target:{}", c.target));
    let nbad = c.elems.iter().filter(|e| e.1).count();
    ctx.class(if nbad > 1 { "offending:several" } else { "offending:one" });
    ctx.sample(|| json!({"src": src, "target": c.target, "offending": c.elems.iter().enumerate().filter(|(_, e)| e.1).map(|(i, _)| i).collect::<Vec<_>>()}));
    let got = match catch(|| conv_seq(&c.target, &m)) {
        Ok(r) => r,
        Err(p) => fail!("c03s:panic", "{}::from_meta(`{}`) panicked: {}", c.target, src, p),
    };
    let e = match got {
        Ok(n) => fail!(format!("c03s:accepted:{}", c.target), "{}::from_meta(`{}`) = Ok({} elements) although some elements are not acceptable", c.target, src, n),
        Err(e) => e,
    };
    let first_bad = c.elems.iter().position(|e| e.1).unwrap();
    if first_bad > 0 || c.elems.len() > 1 {
        ctx.nontrivial(c);
    }
    for leaf in e.clone().flatten().into_iter() {
        let sp = match leaf.explicit_span() {
            Some(s) => range(s),
            None => fail!(format!("c03s:unspanned:{}", c.form), "{}::from_meta(`{}`): error `{}` carries no span", c.target, src, leaf),
        };
        let rel = |r: (usize, usize)| (r.0 + base, r.1 + base);
        if c.form == "quoted" {
            let v = rel(value);
            ensure!(inside(sp, v), "c03s:span-outside-value:quoted", "{}::from_meta(`{}`): error `{}` spans {:?}, the value is at {:?}", c.target, src, leaf, sp, v);
        } else {
            let hit = c.elems.iter().zip(ranges.iter()).any(|(el, r)| el.1 && inside(sp, rel(*r)));
            ensure!(
                hit,
                format!("c03s:span-not-on-offending-element:{}", c.form),
                "{}::from_meta(`{}`): error `{}` spans {:?} (relative {:?}); the offending elements are at {:?}",
                c.target,
                src,
                leaf,
                sp,
                (sp.0 - base.min(sp.0), sp.1 - base.min(sp.1)),
                c.elems.iter().zip(ranges.iter()).filter(|(el, _)| el.1).map(|(_, r)| *r).collect::<Vec<_>>()
            );
        }
    }
    Ok(())
}

// ------------------------------------------------------------------- quoted syntax fragments

const FRAG_TARGETS: &[&str] = &["syn::Type", "syn::TypePath", "syn::TypeArray", "syn::TypeReference", "syn::Visibility", "syn::WhereClause", "syn::Path", "syn::Ident", "syn::Expr", "syn::ExprPath", "Vec<WherePredicate>"];
/// texts none of the targets reads: contents that lex but do not parse, and contents that do not even lex
const FRAG_BAD: &[&str] = &["1 +", "a b", "type", "Vec<", ") (", "fn(u8", "[u8; 4]]", "(", "{ a", "a ] b", "#", "Vec<u8", "'", "a \\", "where", "pub(", "= =", "\u{7f}"];

fn conv_frag(target: &str, m: &syn::Meta) -> Result<(), Error> {
    match target {
        "syn::Type" => syn::Type::from_meta(m).map(|_| ()),
        "syn::TypePath" => syn::TypePath::from_meta(m).map(|_| ()),
        "syn::TypeArray" => syn::TypeArray::from_meta(m).map(|_| ()),
        "syn::TypeReference" => syn::TypeReference::from_meta(m).map(|_| ()),
        "syn::Visibility" => syn::Visibility::from_meta(m).map(|_| ()),
        "syn::WhereClause" => syn::WhereClause::from_meta(m).map(|_| ()),
        "syn::Path" => syn::Path::from_meta(m).map(|_| ()),
        "syn::Ident" => syn::Ident::from_meta(m).map(|_| ()),
        "syn::Expr" => syn::Expr::from_meta(m).map(|_| ()),
        "syn::ExprPath" => syn::ExprPath::from_meta(m).map(|_| ()),
        "Vec<WherePredicate>" => Vec::<syn::WherePredicate>::from_meta(m).map(|_| ()),
        _ => unreachable!(),
    }
}

/// A quoted fragment the target does not read: the error points at the string the user wrote - a span of positive
/// width inside the literal - whether the contents fail to parse or fail to lex.
fn check_frag(ctx: &Ctx, d: &mut D) -> Result<(), Fail> {
    fresh_spans();
    let target = *d.pick(FRAG_TARGETS);
    let text = *d.pick(FRAG_BAD);
    let pad = " ".repeat(d.below(3));
    let src = format!("{}v = {:?}", pad, text);
    ctx.set_render(json!({"target": target, "src": src}));
    let m = match syn::parse_str::<syn::Meta>(&src) {
        Ok(m) => m,
        Err(e) => fail!("c03s:harness-render", "`{}` does not parse as a meta item: {}", src, e),
    };
    use syn::spanned::Spanned;
    let value = match &m {
        syn::Meta::NameValue(nv) => range(nv.value.span()),
        _ => unreachable!(),
    };
    ctx.class("form:quoted-fragment");
    ctx.class(&format!("target:{}", target));
    let got = match catch(|| conv_frag(target, &m)) {
        Ok(r) => r,
        Err(p) => fail!("c03s:panic", "{}::from_meta(`{}`) panicked: {}", target, src, p),
    };
    match got {
        // (a text some target does read is no case: `type` is no identifier but `a b` ... every text of the pool is
        // meant to be refused; an acceptance is reported so that the pool stays honest)
        Ok(()) => {
            ctx.class("quoted-fragment:accepted");
            Ok(())
        }
        Err(e) => {
            ctx.nontrivial(&(target, text));
            for leaf in e.clone().flatten().into_iter() {
                let sp = match leaf.explicit_span() {
                    Some(s) => range(s),
                    None => fail!("c03s:unspanned:quoted-fragment", "{}::from_meta(`{}`): error `{}` carries no span", target, src, leaf),
                };
                ensure!(inside(sp, value) && sp.1 > sp.0, "c03s:span-outside-value:quoted-fragment", "{}::from_meta(`{}`): error `{}` spans {:?}, the string the user wrote is at {:?}", target, src, leaf, sp, value);
            }
            Ok(())
        }
    }
}

pub fn check_seq_bytes(ctx: &Ctx, bytes: &Vec<u8>) -> Result<(), Fail> {
    let mut d = D::new(bytes);
    if d.ratio(1, 5) {
        return check_frag(ctx, &mut d);
    }
    let c = gen_seq(&mut d);
    ctx.set_render(json!(c));
    check_seq(ctx, &c)
}

// ------------------------------------------------------------------------------------------ hooks

fn bare() -> Error {
    Error::custom("hook refuses")
}

macro_rules! hook {
    ($name:ident { $($body:tt)* }) => {
        #[derive(Debug)]
        struct $name;
        impl FromMeta for $name { $($body)* }
    };
}
hook!(HNone {});
hook!(HWord { fn from_word() -> darling_core::Result<Self> { Err(bare()) } });
hook!(HList { fn from_list(_: &[NestedMeta]) -> darling_core::Result<Self> { Err(bare()) } });
hook!(HString { fn from_string(_: &str) -> darling_core::Result<Self> { Err(bare()) } });
hook!(HBool { fn from_bool(_: bool) -> darling_core::Result<Self> { Err(bare()) } });
hook!(HChar { fn from_char(_: char) -> darling_core::Result<Self> { Err(bare()) } });
hook!(HValue { fn from_value(_: &syn::Lit) -> darling_core::Result<Self> { Err(bare()) } });
hook!(HExpr { fn from_expr(_: &syn::Expr) -> darling_core::Result<Self> { Err(bare()) } });
hook!(HMeta { fn from_meta(_: &syn::Meta) -> darling_core::Result<Self> { Err(bare()) } });
// every hook at once, all without spans
hook!(HAll {
    fn from_word() -> darling_core::Result<Self> { Err(bare()) }
    fn from_list(_: &[NestedMeta]) -> darling_core::Result<Self> { Err(bare()) }
    fn from_string(_: &str) -> darling_core::Result<Self> { Err(bare()) }
    fn from_bool(_: bool) -> darling_core::Result<Self> { Err(bare()) }
    fn from_char(_: char) -> darling_core::Result<Self> { Err(bare()) }
});

const HOOKS: &[&str] = &["HNone", "HWord", "HList", "HString", "HBool", "HChar", "HValue", "HExpr", "HMeta", "HAll"];

fn run_hook<F: FnMut(&str, Option<Error>) -> Result<(), Fail>>(
    what: &str,
    src: &str,
    mut call: impl FnMut(&str) -> Result<Option<Error>, String>,
    mut each: F,
) -> Result<(), Fail> {
    for h in HOOKS {
        match call(h) {
            Ok(e) => each(h, e)?,
            Err(p) => fail!("c03s:hooks:panic", "{}::{} on `{}` panicked: {}", h, what, src, p),
        }
    }
    Ok(())
}

macro_rules! dispatch {
    ($h:expr, $f:ident, $arg:expr) => {
        match $h {
            "HNone" => HNone::$f($arg).err(),
            "HWord" => HWord::$f($arg).err(),
            "HList" => HList::$f($arg).err(),
            "HString" => HString::$f($arg).err(),
            "HBool" => HBool::$f($arg).err(),
            "HChar" => HChar::$f($arg).err(),
            "HValue" => HValue::$f($arg).err(),
            "HExpr" => HExpr::$f($arg).err(),
            "HMeta" => HMeta::$f($arg).err(),
            "HAll" => HAll::$f($arg).err(),
            _ => unreachable!(),
        }
    };
}

macro_rules! dispatch_spanned {
    ($h:expr, $arg:expr) => {
        match $h {
            "HNone" => darling_core::util::SpannedValue::<HNone>::from_meta($arg).err(),
            "HWord" => darling_core::util::SpannedValue::<HWord>::from_meta($arg).err(),
            "HList" => darling_core::util::SpannedValue::<HList>::from_meta($arg).err(),
            "HString" => darling_core::util::SpannedValue::<HString>::from_meta($arg).err(),
            "HBool" => darling_core::util::SpannedValue::<HBool>::from_meta($arg).err(),
            "HChar" => darling_core::util::SpannedValue::<HChar>::from_meta($arg).err(),
            "HValue" => darling_core::util::SpannedValue::<HValue>::from_meta($arg).err(),
            "HExpr" => darling_core::util::SpannedValue::<HExpr>::from_meta($arg).err(),
            "HMeta" => darling_core::util::SpannedValue::<HMeta>::from_meta($arg).err(),
            "HAll" => darling_core::util::SpannedValue::<HAll>::from_meta($arg).err(),
            _ => unreachable!(),
        }
    };
}

fn expect_span(h: &str, entry: &str, src: &str, e: Option<Error>, region: (usize, usize), region_name: &str) -> Result<(), Fail> {
    let e = match e {
        Some(e) => e,
        None => fail!("c03s:hooks:harness", "{}::{} on `{}` succeeded; every hook type refuses everything", h, entry, src),
    };
    for leaf in e.flatten().into_iter() {
        match leaf.explicit_span() {
            None => fail!(format!("c03s:hooks:unspanned:{}:{}", entry, h), "{}::{}(`{}`): error `{}` carries no span", h, entry, src, leaf),
            Some(sp) => {
                let r = range(sp);
                // an error the overriding hook raised without a span is given *the* span of the value / item on the
                // way out - exactly that node's, not merely something inside it
                if leaf.to_string().starts_with("hook refuses") {
                    ensure!(
                        r == region,
                        format!("c03s:hooks:span-not-exactly-the-{}:{}:{}", region_name, entry, h),
                        "{}::{}(`{}`): the hook's unspanned error came back spanning {:?}, the {} is at {:?}",
                        h,
                        entry,
                        src,
                        r,
                        region_name,
                        region
                    );
                }
                ensure!(
                    inside(r, region),
                    format!("c03s:hooks:span-outside-{}:{}:{}", region_name, entry, h),
                    "{}::{}(`{}`): error `{}` spans {:?}, the {} is at {:?}",
                    h,
                    entry,
                    src,
                    leaf,
                    r,
                    region_name,
                    region
                );
            }
        }
    }
    Ok(())
}

/// The most specific region the defaults promise for an error raised below `from_meta(item)`.
fn region_of(h: &str, m: &syn::Meta) -> ((usize, usize), &'static str) {
    use syn::spanned::Spanned;
    match m {
        // a hook below the default `from_expr` gets the value's span; an overridden `from_expr`
        // (or `from_meta`) that spans nothing gets the next enclosing thing, the item
        syn::Meta::NameValue(nv) if h != "HExpr" && h != "HMeta" => (range(nv.value.span()), "value"),
        _ => (range(m.span()), "item"),
    }
}

pub fn check_hooks_bytes(ctx: &Ctx, bytes: &Vec<u8>) -> Result<(), Fail> {
    use syn::spanned::Spanned;
    fresh_spans();
    let mut d = D::new(bytes);
    let n = d.range(1, 4);
    let mut parts = vec![];
    for _ in 0..n {
        if d.ratio(1, 3) {
            parts.push(vmodel::digen::arb_value(&mut d));
        } else {
            parts.push(vmodel::digen::arb_item(&mut d, &[], 3));
        }
    }
    let src = format!("w({})", parts.join(", "));
    ctx.set_render(json!({ "src": src }));
    let outer = match syn::parse_str::<syn::Meta>(&src) {
        Ok(syn::Meta::List(l)) => l,
        _ => {
            ctx.class("input:not-a-meta-list");
            return Ok(());
        }
    };
    let items = match NestedMeta::parse_meta_list(outer.tokens.clone()) {
        Ok(i) => i,
        Err(_) => {
            ctx.class("input:items-do-not-parse");
            return Ok(());
        }
    };
    ctx.sample(|| json!({ "src": src }));
    let mut nt = false;
    for item in &items {
        let item_r = range(item.span());
        // entry 1: from_nested_meta on the item as it stands
        run_hook(
            "from_nested_meta",
            &src,
            |h| catch(|| dispatch!(h, from_nested_meta, item)),
            |h, e| {
                let (region, name) = match item {
                    NestedMeta::Lit(_) => (item_r, "item"),
                    NestedMeta::Meta(m) => {
                        // an overridden from_meta that spans nothing is given the item's span by from_nested_meta
                        region_of(if h == "HMeta" { "HExpr" } else { h }, m)
                    }
                };
                // whatever its form, a meta item reaches an implementor's own `from_meta` (a literal its `from_value`)
                let reached = match (h, item) {
                    ("HMeta", NestedMeta::Meta(_)) | ("HValue", NestedMeta::Lit(_)) => true,
                    _ => false,
                };
                if reached {
                    let msg = e.as_ref().map(|x| x.to_string()).unwrap_or_default();
                    ensure!(
                        msg.starts_with("hook refuses"),
                        format!("c03s:hooks:override-bypassed:{}", h),
                        "{}::from_nested_meta on an item of `{}` answered `{}`: the overridden hook was not called",
                        h,
                        src,
                        msg
                    );
                }
                expect_span(h, "from_nested_meta", &src, e, region, name)
            },
        )?;
        match item {
            NestedMeta::Lit(l) => {
                ctx.class("item:literal");
                // entry 2: from_value (an override that spans nothing is the override's own business)
                run_hook("from_value", &src, |h| catch(|| dispatch!(h, from_value, l)), |h, e| if h == "HValue" { Ok(()) } else { expect_span(h, "from_value", &src, e, item_r, "value") })?;
                nt = true;
            }
            NestedMeta::Meta(m) => {
                ctx.class(match m {
                    syn::Meta::Path(_) => "item:word",
                    syn::Meta::List(_) => "item:list",
                    syn::Meta::NameValue(_) => "item:name-value",
                });
                // entry 3: from_meta
                run_hook(
                    "from_meta",
                    &src,
                    |h| catch(|| dispatch!(h, from_meta, m)),
                    |h, e| {
                        if h == "HMeta" {
                            return Ok(());
                        }
                        let (region, name) = region_of(h, m);
                        expect_span(h, "from_meta", &src, e, region, name)
                    },
                )?;
                // entry 3b: the same through `SpannedValue<H>` - a wrapper that records where a value stood must not move
                // where an error points: the same region, and an implementer's unspanned `from_meta` error gets the item's span
                run_hook(
                    "SpannedValue::from_meta",
                    &src,
                    |h| catch(|| dispatch_spanned!(h, m)),
                    |h, e| {
                        let (region, name) = region_of(if h == "HMeta" { "HExpr" } else { h }, m);
                        expect_span(h, "SpannedValue::from_meta", &src, e, region, name)
                    },
                )?;
                if let syn::Meta::NameValue(nv) = m {
                    // entry 4: from_expr on the value
                    let vr = range(nv.value.span());
                    run_hook("from_expr", &src, |h| catch(|| dispatch!(h, from_expr, &nv.value)), |h, e| if h == "HExpr" { Ok(()) } else { expect_span(h, "from_expr", &src, e, vr, "value") })?;
                    nt = true;
                }
            }
        }
        ctx.eval_n((HOOKS.len() * 2) as u64);
    }
    if nt {
        ctx.nontrivial(&src);
    }
    Ok(())
}

fn regress_seqs() -> Vec<SeqCase> {
    let mk = |t: &str, f: &str, e: &[(&str, bool)]| SeqCase { target: t.into(), form: f.into(), elems: e.iter().map(|(s, b)| (s.to_string(), *b)).collect(), trailing_comma: false, pad: 0 };
    vec![
        mk("Vec<u8>", "array", &[("1", false), ("zed", true), ("3", false)]),
        mk("Vec<u16>", "array", &[("1", false), ("-30", true)]),
        mk("Vec<u64>", "array", &[("(8)", true), ("3", false)]),
        mk("Vec<u8>", "array", &[("1", false), ("300", true)]),
        mk("Vec<u8>", "quoted", &[("1", false), ("zed", true)]),
        mk("Vec<LitStr>", "array", &[("\"a\"", false), ("1", true)]),
        mk("Vec<LitStr>", "list", &[("\"a\"", false), ("x", true), ("\"b\"", false)]),
        mk("Vec<LitInt>", "list", &[("1", false), ("y = \"s\"", true)]),
        mk("PathList", "list", &[("a", false), ("x = 1", true), ("b::c", false)]),
        mk("PathList", "list", &[("\"s\"", true)]),
    ]
}

pub fn run(args: &Args) -> bool {
    let replay = args.replay.as_ref().map(|p| vmodel::ev::load_replay_case(p));
    let want = |s: &str| replay.as_ref().map(|(st, _)| st == s).unwrap_or(true);
    let mut ok = true;
    if want("seqs") {
        let ctx = Ctx::new("C03", "seqs", vmodel::ev::mix_seed(args.seed, "C03", "seqs", args.shard), args);
        ctx.set_rule("built-in sequence targets (Vec<u8..usize>, Vec<syn::Lit*>, PathList) given an array, a quoted array or a list of 1-6 elements of which at least one is not acceptable to the target (wrong literal kind, identifier, unary minus, expression, out of range, name-value or list item): conversion fails and every error leaf carries an explicit span inside an offending element (inside the string literal for quoted arrays); one case in five is a quoted syntax fragment (11 syn targets x 18 texts that do not parse or do not even lex) whose error must have a span of positive width inside the string. Non-trivial: more than one element, or a refused fragment; distinct by case");
        if let Some((_, case)) = &replay {
            if let Ok(c) = serde_json::from_value::<SeqCase>(case.clone()) {
                ok &= run_list(&ctx, vec![c], check_seq);
            } else {
                let b: Vec<u8> = serde_json::from_value(case.clone()).expect("bad replay");
                ok &= run_list(&ctx, vec![b], check_seq_bytes);
            }
        } else {
            ok &= run_list(&ctx, regress_seqs(), check_seq);
            ok &= run_prop(&ctx, args.cases as u32, prop::collection::vec(any::<u8>(), 0..64), check_seq_bytes);
        }
        ctx.finish();
    }
    if want("hooks") {
        let ctx = Ctx::new("C03", "hooks", vmodel::ev::mix_seed(args.seed, "C03", "hooks", args.shard), args);
        ctx.set_rule("ten FromMeta implementors overriding one hook each (none, word, list, string, bool, char, value, expr, meta, all leaf hooks) with an error that carries no span, driven through from_nested_meta / from_meta / from_expr / from_value - and from_meta of `SpannedValue<implementor>` - on every item of arbitrary generated meta lists (evaluations = hook x entry x item): the error carries an explicit span inside the value for name-value items (inside the item when from_expr/from_meta itself is the override) and inside the item otherwise. Non-trivial: the list has a literal or a name-value item; distinct by source");
        if let Some((_, case)) = &replay {
            let b: Vec<u8> = serde_json::from_value(case.clone()).expect("bad replay");
            ok &= run_list(&ctx, vec![b], check_hooks_bytes);
        } else {
            ok &= run_prop(&ctx, (args.cases / 4).max(1) as u32, prop::collection::vec(any::<u8>(), 0..96), check_hooks_bytes);
        }
        ctx.finish();
    }
    ok
}
