//! One entry for coverage-guided fuzzing of the L1/L2 oracles: the bytes libFuzzer mutates are the
//! decoder bytes of the structure-aware generators (the strategy-based checks C04/C05/C03-api have byte
//! decoders of the same trees / histories for this purpose), so every input is a well-formed case and the semantic oracle -
//! not just "no crash" - decides. Which oracle runs is chosen by the environment variable
//! VERIF_FUZZ_SUB, read once per process. A failure writes the usual replay file (so that
//! `./check <id> --replay <file>` reproduces it without libFuzzer) and then panics.

use serde_json::json;
use std::collections::BTreeMap;
use vmodel::ev::{Args, Ctx, Fail};

pub const SUBS: &[(&str, &str, &str)] = &[
    // (sub, property, step of the proptest check whose replay format the failure is saved in)
    ("c03-api", "C03", "api"),
    ("c03-maps", "C03", "maps"),
    ("c03-seqs", "C03", "seqs"),
    ("c03-hooks", "C03", "hooks"),
    ("c04", "C04", "trees"),
    ("c05", "C05", "histories"),
    ("c10", "C10", "random"),
    ("c11-ints", "C11", "ints-random"),
    ("c11-misc", "C11", "misc"),
    ("c12", "C12", "wrappers"),
    ("c13-fragments", "C13", "fragments"),
    ("c13-lits", "C13", "lits"),
    ("c13-numeric", "C13", "numeric"),
    ("c13-meta", "C13", "meta-pathlist"),
    ("c14", "C14", "maps"),
    ("c15", "C15", "lists"),
    ("c16t", "C16", "fields-print"),
    ("c19a", "C19", "usage"),
    ("c19b", "C19", "bounds"),
];

struct State {
    sub: String,
    ctx: Ctx,
    c12_table: Vec<crate::c12::Entry>,
}

thread_local! {
    static STATE: std::cell::RefCell<Option<State>> = std::cell::RefCell::new(None);
}

fn init() -> State {
    let sub = std::env::var("VERIF_FUZZ_SUB").unwrap_or_else(|_| "c11-misc".to_string());
    let (_, prop, step) = *SUBS.iter().find(|s| s.0 == sub).unwrap_or_else(|| panic!("unknown VERIF_FUZZ_SUB {}", sub));
    let args = Args {
        sub: sub.clone(),
        seed: std::env::var("VERIF_SEED").ok().and_then(|s| s.parse().ok()).unwrap_or(1),
        cases: 0,
        out: std::env::var("VERIF_FUZZ_OUT").unwrap_or_else(|_| "/verif/harness/out/fuzz".to_string()),
        replays: std::env::var("VERIF_FUZZ_REPLAYS").unwrap_or_else(|_| "/verif/harness/replays".to_string()),
        known: Some(std::env::var("VERIF_KNOWN").unwrap_or_else(|_| "/verif/known_findings.txt".to_string())),
        replay: None,
        shard: std::env::var("VERIF_FUZZ_SHARD").ok().and_then(|s| s.parse().ok()).unwrap_or(0),
        tier: "thorough".to_string(),
        extra: BTreeMap::new(),
    };
    vmodel::util::install_quiet_panic_hook();
    let ctx = Ctx::new(prop, step, vmodel::ev::mix_seed(args.seed, prop, &format!("fuzz-{}", sub), args.shard), &args);
    State { sub, ctx, c12_table: crate::c12::entries() }
}

/// Runs one input; panics (after writing a replay file) when the oracle is violated.
pub fn one(data: &[u8]) {
    STATE.with(|st| {
        let mut st = st.borrow_mut();
        if st.is_none() {
            *st = Some(init());
        }
        let st = st.as_ref().unwrap();
        let ctx = &st.ctx;
        let bytes = data.to_vec();
        let mut case = json!(bytes);
        let r: Result<(), Fail> = match st.sub.as_str() {
            "c03-api" | "c04" => {
                let n = crate::c04::node_from(&mut vmodel::dec::D::new(data), 0);
                case = serde_json::to_value(&n).unwrap();
                if st.sub == "c04" {
                    crate::c04::check_c04(ctx, &n)
                } else {
                    crate::c04::check_c03a(ctx, &n)
                }
            }
            "c05" => {
                let h = crate::c05::history_from(&mut vmodel::dec::D::new(data));
                case = serde_json::to_value(&h).unwrap();
                crate::c05::check(ctx, &h)
            }
            "c03-maps" => crate::c14::check_bytes_spans(ctx, &bytes),
            "c03-seqs" => crate::c03s::check_seq_bytes(ctx, &bytes),
            "c03-hooks" => crate::c03s::check_hooks_bytes(ctx, &bytes),
            "c10" => crate::c10::check_bytes(ctx, &bytes),
            "c11-ints" => crate::c11::check_int_bytes(ctx, &bytes),
            "c11-misc" => crate::c11::check_misc_bytes(ctx, &bytes),
            "c12" => crate::c12::check_bytes(ctx, &bytes, &st.c12_table),
            "c13-fragments" => crate::c13::check_fragment_bytes(ctx, &bytes),
            "c13-lits" => crate::c13::check_lits(ctx, &bytes),
            "c13-numeric" => crate::c13::check_numeric(ctx, &bytes),
            "c13-meta" => crate::c13::check_meta_and_pathlist(ctx, &bytes),
            "c14" => crate::c14::check_bytes(ctx, &bytes),
            "c15" => crate::c15::check_list_bytes(ctx, &bytes),
            "c16t" => crate::c16t::check_bytes(ctx, &bytes),
            "c19a" => crate::c19::check_a(ctx, &bytes),
            "c19b" => crate::c19::check_b(ctx, &bytes),
            other => panic!("unknown sub {}", other),
        };
        if let Err(f) = ctx.filter(r) {
            ctx.violation(&f, case);
            eprintln!("FUZZ-VIOLATION sig={} :: {}", f.sig, f.msg.replace('\n', " "));
            eprintln!("FUZZ-REPLAY {}", ctx.last_replay().unwrap_or_default());
            panic!("oracle violated: {}", f.sig);
        }
    })
}
