//! C17 (API level): the two constructors of an unknown-name error - by string and by path - are the same function
//! of the name's text: same message, same suggestion. (Derived code uses the string form; darling's own option
//! parsing and hand-written implementors use the path form.)

use darling_core::Error;
use proptest::prelude::*;
use serde_json::json;
use vmodel::dec::D;
use vmodel::ev::{run_prop, Args, Ctx, Fail};
use vmodel::ensure;

const NAMES: &[&str] = &["with", "rename", "serde::rename", "default", "colour", "a::b::c", "r#type", "x"];

fn mutate(d: &mut D, s: &str) -> String {
    let mut cs: Vec<char> = s.chars().collect();
    match d.below(5) {
        0 if cs.len() > 1 => {
            let i = d.below(cs.len() - 1);
            cs.swap(i, i + 1);
        }
        1 if cs.len() > 2 => {
            cs.remove(d.below(cs.len()));
        }
        2 => cs.push('s'),
        3 => cs.insert(0, 'x'),
        _ => {}
    }
    cs.into_iter().collect()
}

pub fn check_bytes(ctx: &Ctx, bytes: &Vec<u8>) -> Result<(), Fail> {
    let mut d = D::new(bytes);
    let n = d.range(0, 4);
    let alts: Vec<String> = (0..n).map(|_| d.pick(NAMES).to_string()).collect();
    let base = d.pick(NAMES).to_string();
    let mut text = mutate(&mut d, &base);
    if d.ratio(1, 4) {
        text = format!("::{}", text);
    }
    let path: syn::Path = match syn::parse_str(&text) {
        Ok(p) => p,
        Err(_) => {
            ctx.class("unknown-name:not-a-path");
            return Ok(());
        }
    };
    ctx.set_render(json!({"unknown": text, "alternates": alts}));
    // the documented rendering: segment identifiers joined by `::`, leading colons ignored
    let shown = path.segments.iter().map(|s| s.ident.to_string()).collect::<Vec<_>>().join("::");
    let by_path = Error::unknown_field_path_with_alts(&path, &alts).to_string();
    let by_name = Error::unknown_field_with_alts(&shown, &alts).to_string();
    if by_name.contains("Did you mean") {
        ctx.nontrivial(&(text.clone(), alts.clone()));
        ctx.class("suggestion:present");
    }
    ctx.class(if text.contains("::") { "unknown-name:path" } else { "unknown-name:identifier" });
    ctx.sample(|| json!({"unknown": text, "alternates": alts, "message": by_name}));
    ensure!(
        by_path == by_name,
        "c17a:path-constructor-differs",
        "unknown_field_path_with_alts(`{}`, {:?}) reads `{}`, unknown_field_with_alts(`{}`, ..) reads `{}`",
        text,
        alts,
        by_path,
        shown,
        by_name
    );
    let plain_path = Error::unknown_field_path(&path).to_string();
    let plain_name = Error::unknown_field(&shown).to_string();
    ensure!(plain_path == plain_name, "c17a:path-constructor-differs", "unknown_field_path(`{}`) reads `{}`, unknown_field reads `{}`", text, plain_path, plain_name);
    Ok(())
}

pub fn run(args: &Args) -> bool {
    let ctx = Ctx::new("C17", "api", vmodel::ev::mix_seed(args.seed, "C17", "api", args.shard), args);
    ctx.set_rule("unknown-name errors built by path (`unknown_field_path_with_alts`, `unknown_field_path`) and by string for the same name (identifiers, multi-segment and `::`-led paths, typos of the alternates) and the same 0..4 alternates: identical messages, suggestion included. Non-trivial: a suggestion is present; distinct by (name, alternates)");
    let ok = if let Some(path) = &args.replay {
        let (_, case) = vmodel::ev::load_replay_case(path);
        let b: Vec<u8> = serde_json::from_value(case).expect("bad replay");
        vmodel::ev::run_list(&ctx, vec![b], check_bytes)
    } else {
        run_prop(&ctx, args.cases as u32, prop::collection::vec(any::<u8>(), 0..48), check_bytes)
    };
    ctx.finish();
    ok
}
