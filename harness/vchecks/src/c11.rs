//! C11: scalar conversions are exact. Integers exhaustively over [-70000, 70000] and every type
//! boundary +-2 (quoted and unquoted), random radix/underscore/suffix literals up to 45 digits,
//! floats, bool, char, String, PathBuf. Oracle: the target type's own `str::parse`.

use darling_core::FromMeta;
use proptest::prelude::*;
use serde::{Deserialize, Serialize};
use serde_json::json;
use std::num::*;
use vmodel::dec::D;
use vmodel::ev::{run_list, run_prop, Args, Ctx, Fail};
use vmodel::util::{catch, fresh_spans, inside, range};
use vmodel::{ensure, fail};

type Conv = fn(&syn::Meta) -> Result<String, darling_core::Error>;
type Std = fn(&str) -> Option<String>;

thread_local! {
    static ENTRY_MISMATCH: std::cell::RefCell<Option<String>> = std::cell::RefCell::new(None);
}

/// A literal value reaches the same conversion by every entry point: `from_meta` on `v = <lit>`, `from_value` on the literal
/// and - for a string literal - `from_string` on its text (what a wrapper type or a `with` function calls) agree on
/// acceptance and on the value. A disagreement is left in ENTRY_MISMATCH for the caller to report.
fn all_entries<T: FromMeta>(m: &syn::Meta, show: &dyn Fn(T) -> String) -> Result<String, darling_core::Error> {
    let via_meta = T::from_meta(m).map(|v| show(v));
    if let syn::Meta::NameValue(nv) = m {
        if let syn::Expr::Lit(syn::ExprLit { lit, .. }) = &nv.value {
            let mut others: Vec<(&str, Result<String, darling_core::Error>)> = vec![("from_value", T::from_value(lit).map(|v| show(v)))];
            if let syn::Lit::Str(s) = lit {
                others.push(("from_string", T::from_string(&s.value()).map(|v| show(v))));
            }
            for (entry, r) in others {
                let same = match (&via_meta, &r) {
                    (Ok(a), Ok(b)) => a == b,
                    (Err(_), Err(_)) => true,
                    _ => false,
                };
                if !same {
                    let d = |x: &Result<String, darling_core::Error>| match x {
                        Ok(v) => format!("Ok({})", v),
                        Err(e) => format!("Err({})", e),
                    };
                    ENTRY_MISMATCH.with(|c| *c.borrow_mut() = Some(format!("from_meta gives {}, {} on the same literal gives {}", d(&via_meta), entry, d(&r))));
                }
            }
        }
    }
    via_meta
}

fn take_entry_mismatch() -> Option<String> {
    ENTRY_MISMATCH.with(|c| c.borrow_mut().take())
}

fn conv<T: FromMeta + std::fmt::Display>(m: &syn::Meta) -> Result<String, darling_core::Error> {
    all_entries::<T>(m, &|v| v.to_string())
}
fn std_parse<T: std::str::FromStr + std::fmt::Display>(s: &str) -> Option<String> {
    s.parse::<T>().ok().map(|v| v.to_string())
}

macro_rules! ints {
    ($($t:ty),*) => { vec![$( (stringify!($t), conv::<$t> as Conv, std_parse::<$t> as Std) ),*] };
}

pub fn int_targets() -> Vec<(&'static str, Conv, Std)> {
    ints!(
        u8, u16, u32, u64, u128, usize, i8, i16, i32, i64, i128, isize, NonZeroU8, NonZeroU16, NonZeroU32,
        NonZeroU64, NonZeroU128, NonZeroUsize, NonZeroI8, NonZeroI16, NonZeroI32, NonZeroI64, NonZeroI128,
        NonZeroIsize
    )
}

fn conv_f<T: FromMeta + Into<f64> + Copy>(m: &syn::Meta) -> Result<String, darling_core::Error> {
    all_entries::<T>(m, &|v| format!("{:016x}", Into::<f64>::into(v).to_bits()))
}
fn std_f32(s: &str) -> Option<String> {
    s.parse::<f32>().ok().map(|v| format!("{:016x}", (v as f64).to_bits()))
}
fn std_f64(s: &str) -> Option<String> {
    s.parse::<f64>().ok().map(|v| format!("{:016x}", v.to_bits()))
}
pub fn float_targets() -> Vec<(&'static str, Conv, Std)> {
    vec![("f32", conv_f::<f32> as Conv, std_f32 as Std), ("f64", conv_f::<f64> as Conv, std_f64 as Std)]
}

/// Arbitrary-precision: digits in `radix` -> decimal string (the harness's own conversion).
pub fn to_decimal(digits: &str, radix: u32) -> String {
    let mut dec: Vec<u8> = vec![0]; // little-endian decimal digits
    for ch in digits.chars() {
        if ch == '_' {
            continue;
        }
        let d = ch.to_digit(radix).expect("digit") as u32;
        let mut carry = d;
        for x in dec.iter_mut() {
            let v = (*x as u32) * radix + carry;
            *x = (v % 10) as u8;
            carry = v / 10;
        }
        while carry > 0 {
            dec.push((carry % 10) as u8);
            carry /= 10;
        }
    }
    while dec.len() > 1 && *dec.last().unwrap() == 0 {
        dec.pop();
    }
    dec.iter().rev().map(|d| (b'0' + d) as char).collect()
}

#[derive(Clone, Debug, Serialize, Deserialize, Hash, PartialEq, Eq)]
pub struct IntCase {
    /// the literal as written after `v = ` (unquoted) or the string contents (quoted)
    pub text: String,
    pub quoted: bool,
    /// for unquoted: sign + decimal digits the literal denotes
    pub denotes: String,
    pub fancy: bool,
    /// quoted cases: 0 = an ordinary string literal, 1 = `r".."`, 2 = `r#".."#` (the value is what is between the quotes)
    #[serde(default)]
    pub raw: u8,
}

fn meta_of(src: &str) -> Result<syn::Meta, Fail> {
    match syn::parse_str::<syn::Meta>(src) {
        Ok(m) => Ok(m),
        Err(e) => Err(Fail::new("c11:harness-render", format!("`{}` does not parse as a meta item: {}", src, e))),
    }
}

fn value_range(m: &syn::Meta) -> Option<(usize, usize)> {
    use syn::spanned::Spanned;
    match m {
        syn::Meta::NameValue(nv) => Some(range(nv.value.span())),
        _ => None,
    }
}

fn check_err_span(e: &darling_core::Error, m: &syn::Meta, what: &str, src: &str) -> Result<(), Fail> {
    use syn::spanned::Spanned;
    let whole = range(m.span());
    let vr = value_range(m).unwrap_or(whole);
    ensure!(e.len() == 1, "c11:error-not-single", "{} on `{}` gave {} errors", what, src, e.len());
    match e.explicit_span() {
        None => fail!("c11:error-unspanned", "{} on `{}`: error `{}` carries no span", what, src, e),
        Some(sp) => {
            let r = range(sp);
            ensure!(
                inside(r, vr) || (value_range(m).is_none() && inside(r, whole)),
                "c11:error-span-outside-value",
                "{} on `{}`: error `{}` spans {:?}, the value is at {:?}",
                what, src, e, r, vr
            );
        }
    }
    Ok(())
}

/// The same item with its value inside `depth` nested invisible groups (`Expr::Group`, what `macro_rules!` forwarding of an
/// `$e:expr` fragment through `depth` macros delivers).
fn grouped(m: &syn::Meta, depth: usize) -> Option<syn::Meta> {
    use syn::spanned::Spanned;
    match m {
        syn::Meta::NameValue(nv) => {
            let mut nv = nv.clone();
            for _ in 0..depth {
                let sp = nv.value.span();
                nv.value = syn::Expr::Group(syn::ExprGroup { attrs: vec![], group_token: syn::token::Group { span: sp }, expr: Box::new(nv.value) });
            }
            Some(syn::Meta::NameValue(nv))
        }
        _ => None,
    }
}

/// Invisible groups at any depth around the value change nothing: same value, or an error in both spellings.
fn check_grouped(plain: &Result<String, darling_core::Error>, m: &syn::Meta, conv: &dyn Fn(&syn::Meta) -> Result<String, darling_core::Error>, what: &str, src: &str) -> Result<(), Fail> {
    for depth in 1..=3 {
        let mg = match grouped(m, depth) {
            Some(x) => x,
            None => return Ok(()),
        };
        let got = match catch(|| conv(&mg)) {
            Ok(r) => r,
            Err(p) => fail!("c11:panic", "{}(`{}`, value inside {} invisible groups) panicked: {}", what, src, depth, p),
        };
        match (plain, &got) {
            (Ok(a), Ok(b)) => ensure!(a == b, "c11:grouped-differs:value", "{}(`{}`) = {} but {} with the value inside {} invisible groups", what, src, a, b, depth),
            (Err(_), Err(_)) => {}
            (Ok(a), Err(e)) => fail!("c11:grouped-differs:rejected", "{}(`{}`) = {} but fails with `{}` when the value is inside {} invisible groups", what, src, a, e, depth),
            (Err(e), Ok(b)) => fail!("c11:grouped-differs:accepted", "{}(`{}`) fails with `{}` but gives {} when the value is inside {} invisible groups", what, src, e, b, depth),
        }
    }
    Ok(())
}

pub fn check_int(ctx: &Ctx, c: &IntCase, targets: &[(&'static str, Conv, Std)]) -> Result<(), Fail> {
    fresh_spans();
    let src = if c.quoted {
        match c.raw {
            1 if !c.text.contains('"') => format!("v = r\"{}\"", c.text),
            2 if !c.text.contains('"') => format!("v = r#\"{}\"#", c.text),
            _ => format!("v = {:?}", c.text),
        }
    } else {
        format!("v = {}", c.text)
    };
    let m = meta_of(&src)?;
    // is the value delivered as a literal? (a negative literal followed by nothing is; syn decides)
    let is_lit = matches!(&m, syn::Meta::NameValue(nv) if matches!(nv.value, syn::Expr::Lit(_)));
    for (name, conv, stdp) in targets {
        ctx.eval();
        let want = if c.quoted { stdp(&c.text) } else { stdp(&c.denotes) };
        let got = match catch(|| conv(&m)) {
            Ok(r) => r,
            Err(p) => fail!("c11:panic", "{}::from_meta(`{}`) panicked: {}", name, src, p),
        };
        let what = format!("{}::from_meta", name);
        if let Some(msg) = take_entry_mismatch() {
            fail!("c11:entry-points-disagree", "{} on `{}`: {}", name, src, msg);
        }
        check_grouped(&got, &m, &|x| conv(x), &what, &src)?;
        take_entry_mismatch();
        match (&got, &want) {
            (Ok(g), Some(w)) => {
                ensure!(
                    g == w,
                    format!("c11:wrong-value:{}", if c.quoted { "quoted" } else { "unquoted" }),
                    "{}(`{}`) = {} but the literal denotes {} (std parse gives {})",
                    what, src, g, c.denotes, w
                );
            }
            (Ok(g), None) => fail!(
                format!("c11:accepted-out-of-domain:{}", if c.quoted { "quoted" } else { "unquoted" }),
                "{}(`{}`) = {} although {}::from_str rejects {:?}",
                what, src, g, name, if c.quoted { &c.text } else { &c.denotes }
            ),
            (Err(e), Some(w)) => {
                // a value syn does not deliver as a literal may be rejected (never mis-read)
                if !c.quoted && !is_lit {
                    ctx.class("unquoted-non-literal-rejected");
                    check_err_span(e, &m, &what, &src)?;
                } else {
                    fail!(
                        format!("c11:rejected-in-domain:{}", if c.quoted { "quoted" } else { "unquoted" }),
                        "{}(`{}`) failed with `{}` although the value {} is accepted by {}::from_str",
                        what, src, e, w, name
                    );
                }
            }
            (Err(e), None) => {
                check_err_span(e, &m, &what, &src)?;
                if ctx.frozen() == false {
                    ctx.nontrivial(&(c, name));
                }
            }
        }
    }
    Ok(())
}

fn boundaries() -> Vec<i128> {
    let mut b: Vec<i128> = vec![0];
    for bits in [8u32, 16, 32, 64] {
        b.push((1i128 << bits) - 1); // unsigned max
        b.push((1i128 << (bits - 1)) - 1); // signed max
        b.push(-(1i128 << (bits - 1))); // signed min
    }
    b
}

/// Exhaustive integer cases of one shard: [-70000, 70000] and every boundary +-2, each quoted and unquoted.
pub fn exhaustive_ints(shard: u64, nshards: u64) -> Vec<IntCase> {
    let mut out = vec![];
    let mut k = 0u64;
    let mut push = |n: String, out: &mut Vec<IntCase>| {
        for quoted in [false, true] {
            if k % nshards == shard {
                out.push(IntCase { text: n.clone(), quoted, denotes: n.clone(), fancy: false, raw: (n.len() % 3) as u8 });
            }
            k += 1;
        }
    };
    for n in -70000i128..=70000 {
        push(n.to_string(), &mut out);
    }
    for b in boundaries() {
        for d in -2i128..=2 {
            let n = b + d;
            if !(-70000..=70000).contains(&n) {
                push(n.to_string(), &mut out);
            }
        }
    }
    // 128-bit boundaries as decimal strings
    for s in [
        "340282366920938463463374607431768211453", "340282366920938463463374607431768211454",
        "340282366920938463463374607431768211455", "340282366920938463463374607431768211456",
        "340282366920938463463374607431768211457", "170141183460469231731687303715884105725",
        "170141183460469231731687303715884105726", "170141183460469231731687303715884105727",
        "170141183460469231731687303715884105728", "170141183460469231731687303715884105729",
        "-170141183460469231731687303715884105726", "-170141183460469231731687303715884105727",
        "-170141183460469231731687303715884105728", "-170141183460469231731687303715884105729",
        "-170141183460469231731687303715884105730",
    ] {
        push(s.to_string(), &mut out);
    }
    out
}

/// A random integer literal: radix 2/8/10/16, underscores, optional suffix, optional sign, up to 45 digits.
pub fn gen_int_lit(d: &mut D) -> IntCase {
    let radix = *d.pick(&[10u32, 10, 16, 2, 8]);
    let quoted = d.ratio(1, 4);
    // pick a magnitude near a boundary half of the time
    let mut digits = String::new();
    if d.bool() {
        let b = *d.pick(&boundaries());
        let n = (b + (d.below(5) as i128) - 2).unsigned_abs();
        digits = match radix {
            16 => format!("{:x}", n),
            2 => format!("{:b}", n),
            8 => format!("{:o}", n),
            _ => n.to_string(),
        };
    } else {
        let len = d.range(1, if radix == 2 { 140 } else { 45 });
        for _ in 0..len {
            let v = d.below(radix as usize) as u32;
            digits.push(std::char::from_digit(v, radix).unwrap());
        }
    }
    if d.ratio(1, 5) {
        digits = digits.to_uppercase();
    }
    let dec = to_decimal(&digits, radix);
    // underscores (never leading for the digits-part of a decimal literal)
    let mut body = String::new();
    for (i, ch) in digits.chars().enumerate() {
        if i > 0 && d.ratio(1, 8) {
            body.push('_');
        }
        body.push(ch);
    }
    if d.ratio(1, 10) {
        body.push('_');
    }
    if d.ratio(1, 6) {
        // leading zeros (also after a radix prefix) are part of a valid literal and denote nothing
        body = format!("{}{}", "0".repeat(d.range(1, 50)), body);
    }
    let prefix = match radix {
        16 => "0x",
        2 => "0b",
        8 => "0o",
        _ => "",
    };
    let suffix = if d.ratio(1, 4) {
        // (a literal token may carry any suffix; only in expression position does rustc insist on a type name)
        *d.pick(&["u8", "i8", "u16", "i32", "u64", "i128", "usize", "isize", "u128", "ms", "px", "k", "q", "u", "usize2", "z_z", "i7"])
    } else {
        ""
    };
    let neg = d.ratio(1, 4);
    if quoted {
        // a quoted string stands as it is: build plausible and implausible spellings
        let text = match d.below(9) {
            // starts like a literal in another radix but is none (std rejects every one of them, prefix or not)
            8 => format!("{}{}", if neg { "-" } else { "" }, d.pick(&["0x", "0xZZ", "0o8", "0b12", "0b", "0x_", "0x 1", "0o", "0xg", "0b2", "0x1.5", "1e", "0e0x"])),
            // leading zeros change nothing for std's parsing, however many there are
            6 | 7 => format!("{}{}{}", if neg { "-" } else if d.ratio(1, 4) { "+" } else { "" }, "0".repeat(d.range(1, 70)), dec),
            0 => format!("{}{}", if neg { "-" } else { "" }, dec),
            1 => format!("+{}", dec),
            2 => format!(" {}", dec),
            3 => format!("{}{}{}", if neg { "-" } else { "" }, prefix, body),
            4 => format!("{}{}", dec, suffix),
            _ => format!("{}{}", if neg { "-" } else { "" }, body),
        };
        IntCase { text, quoted: true, denotes: String::new(), fancy: true, raw: [0u8, 0, 1, 2][d.below(4)] }
    } else {
        // hex digits e/E before a suffix-less end are fine; a decimal literal must not look like a float
        let text = format!("{}{}{}{}", if neg { "-" } else { "" }, prefix, body, suffix);
        let denotes = format!("{}{}", if neg { "-" } else { "" }, dec);
        IntCase { text, quoted: false, denotes, fancy: radix != 10 || !suffix.is_empty() || body.contains('_'), raw: 0 }
    }
}

pub fn check_int_bytes(ctx: &Ctx, bytes: &Vec<u8>) -> Result<(), Fail> {
    let mut d = D::new(bytes);
    let c = gen_int_lit(&mut d);
    ctx.set_render(json!(c));
    // hex literals whose digits end in something that looks like a suffix (`0x1f32`) are still one literal for rustc
    if !c.quoted && syn::parse_str::<syn::LitInt>(c.text.trim_start_matches('-')).is_err() {
        ctx.class("not-an-int-literal");
        return Ok(());
    }
    if !c.quoted {
        // trust syn's own digit extraction only for sanity: the harness conversion is the oracle
        ctx.class(if c.fancy { "radix/underscore/suffix" } else { "plain-decimal" });
    } else {
        ctx.class("quoted-spelling");
    }
    ctx.sample(|| json!(c));
    check_int(ctx, &c, &int_targets())
}

// ------------------------------------------------------------------------------------------
// floats, bool, char, strings

#[derive(Clone, Debug, Serialize, Deserialize, Hash, PartialEq, Eq)]
pub struct MiscCase {
    pub src: String,
    pub kind: String,
    /// expected: Some(value) / None = must be an error / "*" = error or exactly `alt`
    pub expect: Option<String>,
    pub lenient_alt: Option<String>,
    pub target: String,
}

fn gen_float_text(d: &mut D) -> String {
    // std's float parsing takes no surrounding white space
    if d.ratio(1, 8) {
        let core = format!("{}.{}", d.range(0, 99), d.range(0, 99));
        return match d.below(5) {
            0 => format!(" {}", core),
            1 => format!("{} ", core),
            2 => format!("{}\n", core),
            3 => format!("\t{}", core),
            _ => " inf".to_string(),
        };
    }
    match d.below(12) {
        0 => "NaN".into(),
        1 => "inf".into(),
        2 => "-inf".into(),
        3 => "infinity".into(),
        4 => format!("1e{}", d.range(0, 420)),
        5 => format!("{}e-{}", d.range(1, 9), d.range(0, 420)),
        6 => format!("{}.{}", d.range(0, 99999), d.range(0, 99999)),
        7 => format!("-{}.{}e{}", d.range(0, 999), d.range(0, 999), d.range(0, 40)),
        8 => format!("{}.", d.range(0, 99)),
        9 => format!(".{}", d.range(0, 99)),
        10 => "1_000.5".into(),
        _ => format!("{}", d.range(0, 1 << 30)),
    }
}

/// Decimal digits at, just above or just below the midpoint between two adjacent f32 (f64) values,
/// written out exactly: the inputs on which a detour through another float type (or any shortcut in
/// digit handling) rounds twice. tie = (2m+1) * 2^-k = (2m+1) * 5^k / 10^k, in u128 arithmetic.
fn near_tie_text(d: &mut D, single: bool) -> (String, &'static str) {
    let mbits = if single { 24 } else { 53 };
    let m: u128 = (1u128 << (mbits - 1)) | ((d.u64() as u128) & ((1u128 << (mbits - 1)) - 1));
    let odd = 2 * m + 1;
    let (n, k): (u128, usize) = if d.ratio(1, 4) {
        (odd << d.range(0, if single { 60 } else { 40 }), 0)
    } else {
        let k = d.range(0, if single { 40 } else { 30 });
        (odd * 5u128.pow(k as u32), k)
    };
    let (n, tail, class) = match d.below(3) {
        0 => (n, "0", "float:tie-exact"),
        1 => (n, "00000000000000000000000000000001", "float:tie-above"),
        _ => (n - 1, "99999999999999999999999999999999", "float:tie-below"),
    };
    let mut digits = n.to_string();
    while digits.len() < k + 1 {
        digits.insert(0, '0');
    }
    let cut = digits.len() - k;
    (format!("{}.{}{}", &digits[..cut], &digits[cut..], tail), class)
}

pub fn gen_misc(d: &mut D) -> MiscCase {
    let esc = |s: &str| format!("{:?}", s);
    match d.below(12) {
        // long quoted values no target accepts, with a multi-byte character at an arbitrary byte offset (whatever the
        // error message quotes of the value must be cut at a character boundary): a spanned error, never a panic
        11 => {
            let target = *d.pick(&["u8", "i64", "NonZeroU8", "f32", "f64", "bool", "char"]);
            let head = d.pick(&["7", "1", "0", "x", " "]).repeat(d.range(1, 530));
            let unit = *d.pick(&["\u{e9}", "\u{2192}", "\u{1F600}"]);
            let text = format!("{}{}{}", head, unit.repeat(d.range(1, 3)), d.pick(&["", "7", "77"]));
            MiscCase { src: format!("v = {}", esc(&text)), kind: "long-rejected-string".into(), expect: None, lenient_alt: None, target: target.into() }
        }
        10 => {
            let target = *d.pick(&["f32", "f32", "f64"]);
            let (t, class) = near_tie_text(d, target == "f32");
            let want = if target == "f32" { std_f32(&t) } else { std_f64(&t) };
            let quoted = d.ratio(1, 3);
            let mut text = t.clone();
            if !quoted && d.ratio(1, 4) {
                text.push_str(*d.pick(&["f32", "f64"]));
            }
            MiscCase { src: if quoted { format!("v = {}", esc(&t)) } else { format!("v = {}", text) }, kind: class.into(), expect: want, lenient_alt: None, target: target.into() }
        }
        // floats, quoted: the string as it stands
        0 | 1 => {
            let t = gen_float_text(d);
            let target = *d.pick(&["f32", "f64"]);
            let want = if target == "f32" { std_f32(&t) } else { std_f64(&t) };
            MiscCase { src: format!("v = {}", esc(&t)), kind: "float-quoted".into(), expect: want, lenient_alt: None, target: target.into() }
        }
        // floats, unquoted float literal: digits with `_` and suffix removed
        2 | 3 => {
            let mant = format!("{}.{}", d.range(0, 99999), d.range(0, 99999));
            let mut text = mant.clone();
            let mut clean = mant;
            if d.bool() {
                let e = d.range(0, 60);
                let neg = d.bool();
                text.push_str(&format!("e{}{}", if neg { "-" } else { "" }, e));
                clean.push_str(&format!("e{}{}", if neg { "-" } else { "" }, e));
            }
            if d.ratio(1, 4) {
                text = text.replacen('.', "_.", 1);
            }
            if d.ratio(1, 4) {
                text.push_str(*d.pick(&["f32", "f64"]));
            }
            let target = *d.pick(&["f32", "f64"]);
            let want = if target == "f32" { std_f32(&clean) } else { std_f64(&clean) };
            MiscCase { src: format!("v = {}", text), kind: "float-literal".into(), expect: want, lenient_alt: None, target: target.into() }
        }
        // an unquoted integer literal into a float: error, or exactly the denoted value
        4 => {
            let n = d.range(0, 100000);
            let target = *d.pick(&["f32", "f64"]);
            let alt = if target == "f32" { std_f32(&n.to_string()) } else { std_f64(&n.to_string()) };
            MiscCase { src: format!("v = {}", n), kind: "int-into-float".into(), expect: None, lenient_alt: alt, target: target.into() }
        }
        5 => {
            // bool
            let (src, want): (String, Option<&str>) = match d.below(10) {
                0 => ("v".into(), Some("true")),
                1 => ("v = true".into(), Some("true")),
                2 => ("v = false".into(), Some("false")),
                3 => ("v = \"true\"".into(), Some("true")),
                4 => ("v = \"false\"".into(), Some("false")),
                5 => ("v = \"True\"".into(), None),
                6 => ("v = 1".into(), None),
                7 => ("v()".into(), None),
                8 => ("v = \" true\"".into(), None),
                _ => ("v = 't'".into(), None),
            };
            MiscCase { src, kind: "bool".into(), expect: want.map(|s| s.to_string()), lenient_alt: None, target: "bool".into() }
        }
        6 => {
            // char
            let pool = ['a', 'Z', '#', '\'', '"', '\\', '\n', '\u{1F62C}', 'é', ' '];
            let c = *d.pick(&pool);
            let (src, want) = match d.below(6) {
                0 => (format!("v = {:?}", c), Some(c.to_string())),
                1 => (format!("v = {:?}", c.to_string()), Some(c.to_string())),
                2 => (format!("v = {:?}", format!("{}{}", c, d.pick(&pool))), None),
                3 => ("v = \"\"".to_string(), None),
                4 => ("v".to_string(), None),
                _ => ("v = 97".to_string(), None),
            };
            MiscCase { src, kind: "char".into(), expect: want, lenient_alt: None, target: "char".into() }
        }
        7 | 8 => {
            // String / PathBuf: cooked and raw spellings of generated contents
            let n = d.range(0, 12);
            let pool = ['a', 'b', ' ', '"', '\\', '\n', '\t', '#', '\'', 'é', '\u{1F62C}', '{', '0', '/', '.'];
            let s: String = (0..n).map(|_| *d.pick(&pool)).collect();
            let raw_ok = !s.contains("\"#") && !s.contains('\r');
            let src = if raw_ok && d.bool() {
                if s.contains('"') || d.bool() { format!("v = r#\"{}\"#", s) } else { format!("v = r\"{}\"", s) }
            } else {
                format!("v = {:?}", s)
            };
            let target = *d.pick(&["String", "PathBuf"]);
            MiscCase { src, kind: "string".into(), expect: Some(s), lenient_alt: None, target: target.into() }
        }
        _ => {
            // wrong literal kinds / forms for every scalar
            let target = *d.pick(&["String", "PathBuf", "char", "bool", "u8", "i64", "f64", "NonZeroU8"]);
            let src = match d.below(8) {
                0 => "v(a)".to_string(),
                1 => "v()".to_string(),
                2 => "v = b\"x\"".to_string(),
                3 => "v = b'x'".to_string(),
                4 => "v = a::b".to_string(),
                5 => "v = [1]".to_string(),
                6 => "v = c\"x\"".to_string(),
                _ => {
                    if target == "bool" { "v = 1.5".to_string() } else { "v".to_string() }
                }
            };
            MiscCase { src, kind: "wrong-form".into(), expect: None, lenient_alt: None, target: target.into() }
        }
    }
}

fn conv_misc(target: &str, m: &syn::Meta) -> Result<String, darling_core::Error> {
    match target {
        "f32" => conv_f::<f32>(m),
        "f64" => conv_f::<f64>(m),
        "bool" => conv::<bool>(m),
        "char" => conv::<char>(m),
        "String" => conv::<String>(m),
        "PathBuf" => all_entries::<std::path::PathBuf>(m, &|p| p.to_string_lossy().to_string()),
        "u8" => conv::<u8>(m),
        "i64" => conv::<i64>(m),
        "NonZeroU8" => conv::<NonZeroU8>(m),
        _ => unreachable!(),
    }
}

pub fn check_misc(ctx: &Ctx, c: &MiscCase) -> Result<(), Fail> {
    fresh_spans();
    let m = meta_of(&c.src)?;
    ctx.class(&format!("kind:{}", c.kind));
    ctx.sample(|| json!(c));
    let got = match catch(|| conv_misc(&c.target, &m)) {
        Ok(r) => r,
        Err(p) => fail!("c11:panic", "{}::from_meta(`{}`) panicked: {}", c.target, c.src, p),
    };
    let what = format!("{}::from_meta", c.target);
    if let Some(msg) = take_entry_mismatch() {
        fail!("c11:entry-points-disagree", "{} on `{}`: {}", c.target, c.src, msg);
    }
    check_grouped(&got, &m, &|x| conv_misc(&c.target, x), &what, &c.src)?;
    take_entry_mismatch();
    match (&got, &c.expect) {
        (Ok(g), Some(w)) => ensure!(g == w, format!("c11:wrong-value:{}", c.kind), "{}(`{}`) = {:?}, expected {:?}", what, c.src, g, w),
        (Ok(g), None) => {
            if let Some(alt) = &c.lenient_alt {
                ensure!(g == alt, format!("c11:wrong-value:{}", c.kind), "{}(`{}`) = {:?}, may only be an error or {:?}", what, c.src, g, alt);
            } else {
                fail!(format!("c11:accepted-out-of-domain:{}", c.kind), "{}(`{}`) = {:?}, expected an error", what, c.src, g);
            }
        }
        (Err(e), Some(w)) => fail!(format!("c11:rejected-in-domain:{}", c.kind), "{}(`{}`) failed with `{}`, expected {:?}", what, c.src, e, w),
        (Err(e), None) => {
            check_err_span(e, &m, &what, &c.src)?;
            ctx.nontrivial(c);
        }
    }
    if c.kind == "float-literal" || c.kind == "float-quoted" || c.kind.starts_with("float:tie") {
        ctx.nontrivial(c);
    }
    Ok(())
}

pub fn check_misc_bytes(ctx: &Ctx, bytes: &Vec<u8>) -> Result<(), Fail> {
    let mut d = D::new(bytes);
    let c = gen_misc(&mut d);
    ctx.set_render(json!(c));
    check_misc(ctx, &c)
}

pub fn run(args: &Args) -> bool {
    let replay = args.replay.as_ref().map(|p| vmodel::ev::load_replay_case(p));
    let want = |s: &str| replay.as_ref().map(|(st, _)| st == s).unwrap_or(true);
    let nshards: u64 = args.extra.get("nshards").and_then(|s| s.parse().ok()).unwrap_or(1);
    let mut ok = true;
    let targets = int_targets();
    if want("ints-exhaustive") {
        let ctx = Ctx::new("C11", "ints-exhaustive", vmodel::ev::mix_seed(args.seed, "C11", "ints-exhaustive", args.shard), args);
        ctx.set_rule("every integer in [-70000, 70000], every 8/16/32/64/128-bit boundary +-2, each quoted and unquoted, into all 24 integer targets (evaluations = conversions); oracle: the target's own str::parse on sign+decimal digits (unquoted) or on the string as it stands (quoted); errors must be single and spanned inside the value. Non-trivial: the expected outcome is an error (out of range / zero for NonZero / sign); distinct by (literal, target)");
        if let Some((_, case)) = &replay {
            let c: IntCase = serde_json::from_value(case.clone()).expect("bad replay");
            ok &= run_list(&ctx, vec![c], |ctx, c| check_int(ctx, c, &targets));
        } else {
            let cases = exhaustive_ints(args.shard, nshards);
            let k = std::cell::Cell::new(0u64);
            ok &= run_list(&ctx, cases, |ctx, c| {
                k.set(k.get() + 1);
                if k.get() % 20011 == 0 {
                    ctx.sample(|| json!(c));
                }
                check_int(ctx, c, &targets)
            });
            ctx.set_exhaustive(true);
        }
        ctx.finish();
    }
    if want("ints-random") {
        let ctx = Ctx::new("C11", "ints-random", vmodel::ev::mix_seed(args.seed, "C11", "ints-random", args.shard), args);
        ctx.set_rule("random integer literals: radix 2/8/10/16, underscores, suffixes, sign, magnitudes near every boundary or up to 45 digits (140 bits in binary), and quoted spellings (+n, leading space, prefixed, suffixed, 1..70 leading zeros) into all 24 targets; oracle as above with the harness's own arbitrary-precision radix conversion");
        if let Some((_, case)) = &replay {
            let b: Vec<u8> = serde_json::from_value(case.clone()).expect("bad replay");
            ok &= run_list(&ctx, vec![b], check_int_bytes);
        } else {
            ok &= run_prop(&ctx, args.cases as u32, prop::collection::vec(any::<u8>(), 0..200), check_int_bytes);
        }
        ctx.finish();
    }
    if want("misc") {
        let ctx = Ctx::new("C11", "misc", vmodel::ev::mix_seed(args.seed, "C11", "misc", args.shard), args);
        ctx.set_rule("floats (quoted: any decimal/exponent/special string vs str::parse, bit-exact; unquoted float literals with `_`/suffix; decimal expansions exactly at / a hair above / a hair below the midpoint of two adjacent f32 or f64 values, quoted and unquoted; int literal into float may only fail or be exact), bool (word, bool and string literals), char (char literal, one-character string), String/PathBuf (cooked and raw spellings of generated contents), wrong literal kinds and meta forms -> spanned error. Non-trivial: expected error, or any float case");
        if let Some((_, case)) = &replay {
            let b: Vec<u8> = serde_json::from_value(case.clone()).expect("bad replay");
            ok &= run_list(&ctx, vec![b], check_misc_bytes);
        } else {
            ok &= run_prop(&ctx, args.cases as u32, prop::collection::vec(any::<u8>(), 0..64), check_misc_bytes);
        }
        ctx.finish();
    }
    ok
}
