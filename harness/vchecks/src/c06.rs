//! C06: the six derives are total - exactly one impl XOR >=1 compile_error!, never a panic.

use proptest::prelude::*;
use serde_json::json;
use vmodel::dec::D;
use vmodel::digen;
use vmodel::ev::{run_list, run_prop, Args, Ctx, Fail};
use vmodel::util::{catch, compile_errors, fresh_spans, range};
use vmodel::{ensure, fail};

pub const TRAITS: &[&str] = &[
    "FromMeta",
    "FromDeriveInput",
    "FromField",
    "FromVariant",
    "FromTypeParam",
    "FromAttributes",
];

pub fn derive(tr: &str, di: &syn::DeriveInput) -> proc_macro2::TokenStream {
    use darling_core::derive as d;
    match tr {
        "FromMeta" => d::from_meta(di),
        "FromDeriveInput" => d::from_derive_input(di),
        "FromField" => d::from_field(di),
        "FromVariant" => d::from_variant(di),
        "FromTypeParam" => d::from_type_param(di),
        "FromAttributes" => d::from_attributes(di),
        _ => unreachable!(),
    }
}

/// Normalised root-cause signature of a derive panic.
pub fn panic_root(msg: &str) -> String {
    // one root cause, many messages (they quote the identifier): string slicing inside the `ident_case` crate
    if msg.contains("/ident_case-") && msg.contains("/src/lib.rs") {
        return "string-slice-in-ident_case@rename-rule".to_string();
    }
    let text = msg.rsplit_once(" @ ").map(|x| x.0).unwrap_or(msg);
    let file = msg
        .rsplit_once(" @ ")
        .map(|x| x.1)
        .unwrap_or("")
        .rsplit('/')
        .next()
        .unwrap_or("")
        .split(':')
        .next()
        .unwrap_or("")
        .to_string();
    let cut = text
        .find(|c| c == '`' || c == ':' || c == '.')
        .unwrap_or(text.len());
    let head: String = text[..cut].trim().chars().take(60).collect();
    format!("{}@{}", head.replace(' ', "_"), file)
}

/// Is there a field or variant whose name gives a case rule nothing to work with (only underscores, or a non-ASCII
/// first letter) and which has no explicit `rename` of its own?
fn unrenamed_awkward_name(di: &syn::DeriveInput) -> bool {
    fn awkward(id: &syn::Ident) -> bool {
        let s = id.to_string();
        let s = s.trim_start_matches("r#");
        let t = s.trim_start_matches('_');
        t.is_empty() || !t.chars().next().map(|c| c.is_ascii()).unwrap_or(true)
    }
    fn renamed(attrs: &[syn::Attribute]) -> bool {
        attrs.iter().any(|a| {
            let txt = quote::quote!(#a).to_string();
            a.path().is_ident("darling") && txt.replace("rename_all", "").contains("rename")
        })
    }
    let fields = |fs: &syn::Fields| fs.iter().any(|f| f.ident.as_ref().map(|i| awkward(i) && !renamed(&f.attrs)).unwrap_or(false));
    match &di.data {
        syn::Data::Struct(s) => fields(&s.fields),
        syn::Data::Enum(e) => e.variants.iter().any(|v| (awkward(&v.ident) && !renamed(&v.attrs)) || fields(&v.fields)),
        syn::Data::Union(u) => u.fields.named.iter().any(|f| f.ident.as_ref().map(|i| awkward(i) && !renamed(&f.attrs)).unwrap_or(false)),
    }
}

/// Does the item quote a path that is one in type position only (`"Conv<u8>::go"`, `"Vec<String>"`)? Darling reads a
/// quoted callable as a `syn::Path` and splices it into call position as written; there such a path is the user's
/// syntax error (rustc reports it at the string, suggesting the turbofish), not a statement about the derive.
fn quotes_type_position_path(di: &syn::DeriveInput) -> bool {
    fn walk(ts: proc_macro2::TokenStream) -> bool {
        ts.into_iter().any(|tt| match tt {
            proc_macro2::TokenTree::Group(g) => walk(g.stream()),
            proc_macro2::TokenTree::Literal(l) => match syn::parse2::<syn::LitStr>(proc_macro2::TokenTree::Literal(l).into()) {
                Ok(s) => syn::parse_str::<syn::Path>(&s.value()).is_ok() && syn::parse_str::<syn::ExprPath>(&s.value()).is_err(),
                Err(_) => false,
            },
            _ => false,
        })
    }
    walk(quote::quote!(#di))
}

pub struct Verdict {
    pub impls: usize,
    pub errors: usize,
}

/// The totality oracle for one (trait, input) pair.
pub fn check_one(tr: &str, di: &syn::DeriveInput, src_len: usize) -> Result<Verdict, Fail> {
    let out = match catch(|| derive(tr, di)) {
        Ok(ts) => ts,
        Err(p) => {
            let mut root = panic_root(&p);
            // the known finding is about names the case rule has to be applied to; a field that carries its own
            // `rename` never needs the rule, so a panic there is something else
            if root.starts_with("string-slice-in-ident_case") && !unrenamed_awkward_name(di) {
                root = "string-slice-in-ident_case@although-every-awkward-name-is-renamed".to_string();
            }
            fail!(format!("c06:panic:{}", root), "derive({}) panicked: {}", tr, p)
        }
    };
    let ces = compile_errors(out.clone());
    let file: syn::File = match syn::parse2(out.clone()) {
        Ok(f) => f,
        Err(_) if ces.is_empty() && quotes_type_position_path(di) => {
            // one block all the same: attributes, `impl`, a header, a braced body - and nothing after it
            let toks: Vec<proc_macro2::TokenTree> = out.clone().into_iter().collect();
            let impls = toks.iter().filter(|t| matches!(t, proc_macro2::TokenTree::Ident(i) if i == "impl")).count();
            let braced_last = matches!(toks.last(), Some(proc_macro2::TokenTree::Group(g)) if g.delimiter() == proc_macro2::Delimiter::Brace);
            ensure!(impls == 1 && braced_last, "c06:output-not-items", "derive({}) output is no single block: {}", tr, out.to_string().chars().take(300).collect::<String>());
            return Ok(Verdict { impls: 1, errors: 0 });
        }
        Err(e) => fail!(
            "c06:output-not-items",
            "derive({}) output does not parse as items: {} :: {}",
            tr,
            e,
            out.to_string().chars().take(300).collect::<String>()
        ),
    };
    let mut impls = 0;
    let mut other_items = 0;
    let mut macro_items = 0;
    for item in &file.items {
        match item {
            syn::Item::Impl(i) => {
                let is_trait = i
                    .trait_
                    .as_ref()
                    .map(|(_, p, _)| p.segments.last().map(|s| s.ident == tr).unwrap_or(false))
                    .unwrap_or(false);
                let self_ok = match &*i.self_ty {
                    syn::Type::Path(tp) => tp
                        .path
                        .segments
                        .last()
                        .map(|s| s.ident == di.ident)
                        .unwrap_or(false),
                    _ => false,
                };
                if is_trait && self_ok {
                    impls += 1;
                } else {
                    other_items += 1;
                }
            }
            syn::Item::Macro(m) => {
                if m.mac.path.segments.last().map(|s| s.ident == "compile_error").unwrap_or(false) {
                    macro_items += 1;
                } else {
                    other_items += 1;
                }
            }
            _ => other_items += 1,
        }
    }
    ensure!(
        other_items == 0,
        "c06:stray-items",
        "derive({}) emitted {} items that are neither the impl nor compile_error!",
        tr,
        other_items
    );
    // compile_error! nested inside an impl would be "both"
    let errors = ces.len();
    ensure!(
        !(impls >= 1 && errors >= 1),
        "c06:both",
        "derive({}) emitted an impl and {} compile_error!",
        tr,
        errors
    );
    ensure!(
        impls + errors >= 1,
        "c06:nothing",
        "derive({}) emitted neither an impl nor a diagnostic",
        tr
    );
    ensure!(
        impls <= 1,
        "c06:several-impls",
        "derive({}) emitted {} impls",
        tr,
        impls
    );
    ensure!(
        errors == macro_items,
        "c06:nested-compile-error",
        "derive({}): {} compile_error! invocations but {} at item level",
        tr,
        errors,
        macro_items
    );
    for (msg, sp) in &ces {
        let r = range(*sp);
        ensure!(
            r.1 <= src_len + 1,
            "c06:diagnostic-span-outside-input",
            "diagnostic {:?} of derive({}) has span {:?}, input is {} bytes",
            msg,
            tr,
            r,
            src_len
        );
        ensure!(!msg.is_empty(), "c06:empty-diagnostic", "empty diagnostic text");
    }
    Ok(Verdict { impls, errors })
}

pub fn check_text(ctx: &Ctx, src: &str, st: Option<&digen::Stats>) -> Result<(), Fail> {
    fresh_spans();
    ctx.set_render(json!(src));
    let di: syn::DeriveInput = match syn::parse_str(src) {
        Ok(d) => d,
        Err(_) => {
            ctx.class("unparseable-as-DeriveInput");
            return Ok(());
        }
    };
    ctx.class("parsed");
    if let Some(st) = st {
        ctx.class(&format!("shape:{}", st.shape));
        if st.malformed_body {
            ctx.class("malformed-darling-body");
        }
        if st.invalid_options >= 2 {
            ctx.class("invalid-options>=2");
        }
        if st.malformed_body || st.non_named_shape || st.invalid_options >= 2 {
            ctx.nontrivial(src);
        }
    }
    let mut verdicts = vec![];
    let mut first: Option<Fail> = None;
    for tr in TRAITS {
        match ctx.filter(check_one(tr, &di, src.len()).map(|v| {
            verdicts.push(format!("{}:{}", tr, if v.impls == 1 { "impl".to_string() } else { format!("{}err", v.errors) }));
            if v.impls == 1 {
                ctx.class("verdict:impl");
            } else {
                ctx.class("verdict:diagnostics");
            }
        })) {
            Ok(()) => {}
            Err(f) => {
                if first.is_none() {
                    first = Some(f)
                }
            }
        }
    }
    ctx.eval_n(5); // six derive calls per generated item
    ctx.sample(|| json!({"input": src, "verdicts": verdicts}));
    match first {
        Some(f) => Err(f),
        None => Ok(()),
    }
}

pub fn check_bytes(ctx: &Ctx, bytes: &Vec<u8>) -> Result<(), Fail> {
    let mut d = D::new(bytes);
    let (src, st) = digen::derive_input(&mut d);
    check_text(ctx, &src, Some(&st))
}

/// Shortest known inputs of the six root causes fixed in /repo (regression tier).
pub const REGRESS: &[&str] = &[
    "#[darling] struct A { a: u8 }",
    "#[darling = \"x\"] struct A { a: u8 }",
    "#[darling(\"x\")] struct A { a: u8 }",
    "#[darling(a b)] struct A { a: u8 }",
    "#[darling(,)] struct A { a: u8 }",
    "struct A { #[darling(skip flatten)] a: u8 }",
    "enum A { #[darling(a b)] X }",
    "struct A(u8, u8);",
    "struct A();",
    "enum A { X(u8, u8) }",
    "enum A { X() }",
    "enum A {}",
    "enum A { X }",
    "union A { a: u8 }",
    "struct A;",
    "struct A(u8);",
    "#[darling(default, from_ident)] struct A { a: u8 }",
    "#[darling(from_ident, default)] struct A { a: u8 }",
    "#[darling(supports(struct_struct_named))] struct A { a: u8 }",
];

pub fn run(args: &Args) -> bool {
    let ctx = Ctx::new("C06", "derive", vmodel::ev::mix_seed(args.seed, "C06", "derive", args.shard), args);
    ctx.set_rule("DeriveInput source text decoded from proptest bytes through a grammar (all data shapes incl. unions/empty enums/n-tuples, generics, #[darling] bodies from option lists with valid+invalid values to token soup, bare and name-value forms) x the six darling_core::derive::* functions under catch_unwind; oracle: output parses as items and is exactly one impl of the requested trait XOR >=1 compile_error!, diagnostic spans inside the input. evaluations counts derive calls. Non-trivial: malformed attribute body, or non-named shape, or >=2 invalid options; distinct by source text");
    if let Some(path) = &args.replay {
        let (_, case) = vmodel::ev::load_replay_case(path);
        let ok = if let Some(s) = case.as_str() {
            run_list(&ctx, vec![s.to_string()], |c, s| check_text(c, s, None))
        } else {
            let bytes: Vec<u8> = serde_json::from_value(case).expect("bad replay case");
            run_list(&ctx, vec![bytes], check_bytes)
        };
        ctx.finish();
        return ok;
    }
    let mut ok = run_list(&ctx, REGRESS.iter().map(|s| s.to_string()), |c, s| check_text(c, s, None));
    ok &= run_prop(
        &ctx,
        args.cases as u32,
        prop::collection::vec(any::<u8>(), 0..400),
        check_bytes,
    );
    ctx.finish();
    ok
}

/// `c06-dump`: items of the same grammar as source text, for the step that expands the real proc macros under rustc
/// (lib/c06_rustc.py). Item k goes under derive k % 6; items on which that derive already panics at library level
/// (the known ident_case finding) are left out and counted. Prints one JSON document on stdout.
pub fn dump(args: &Args) -> bool {
    use proptest::strategy::{Strategy, ValueTree};
    use proptest::test_runner::{Config, RngAlgorithm, TestRng, TestRunner};
    let seed = vmodel::ev::mix_seed(args.seed, "C06", "rustc", args.shard);
    let mut runner = TestRunner::new_with_rng(Config::default(), TestRng::from_seed(RngAlgorithm::ChaCha, &vmodel::ev::seed_bytes(seed)));
    let strat = prop::collection::vec(any::<u8>(), 0..400);
    let mut items = vec![];
    let mut skipped = 0usize;
    let mut tries = 0u64;
    while (items.len() as u64) < args.cases && tries < args.cases * 20 {
        tries += 1;
        let bytes = match strat.new_tree(&mut runner) {
            Ok(t) => t.current(),
            Err(_) => break,
        };
        fresh_spans();
        let mut d = D::new(&bytes);
        let (src, st) = digen::derive_input(&mut d);
        let di: syn::DeriveInput = match syn::parse_str(&src) {
            Ok(x) => x,
            Err(_) => continue,
        };
        let tr = TRAITS[items.len() % 6];
        if catch(|| derive(tr, &di)).is_err() {
            skipped += 1;
            continue;
        }
        items.push(json!({"src": src, "nontrivial": st.malformed_body || st.non_named_shape || st.invalid_options >= 2}));
    }
    println!("{}", json!({"items": items, "skipped_known": skipped}));
    true
}
