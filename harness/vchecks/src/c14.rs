//! C14: keyed collections. Five map instantiations x five value types against a list model;
//! also run as a C03 step that looks only at the spans of the error leaves.

use darling_core::FromMeta;
use proptest::prelude::*;
use serde::{Deserialize, Serialize};
use serde_json::json;
use std::collections::{BTreeMap, HashMap};
use vmodel::dec::D;
use vmodel::ev::{run_list, run_prop, Args, Ctx, Fail};
use vmodel::util::{catch, fresh_spans, inside, range, split_at};
use vmodel::{ensure, fail};

pub trait Show {
    fn show(&self) -> String;
}
impl Show for bool {
    fn show(&self) -> String {
        format!("{:?}", self)
    }
}
impl Show for u8 {
    fn show(&self) -> String {
        format!("{:?}", self)
    }
}
impl Show for String {
    fn show(&self) -> String {
        format!("{:?}", self)
    }
}
impl Show for syn::Expr {
    fn show(&self) -> String {
        vmodel::util::canon_tokens(quote::quote!(#self))
    }
}
impl Show for syn::Ident {
    fn show(&self) -> String {
        self.to_string()
    }
}
impl Show for syn::Path {
    fn show(&self) -> String {
        vmodel::util::canon_tokens(quote::quote!(#self))
    }
}
impl<K: Show, V: Show, S> Show for HashMap<K, V, S> {
    fn show(&self) -> String {
        let mut v: Vec<(String, String)> = self.iter().map(|(k, v)| (k.show(), v.show())).collect();
        v.sort();
        format!("{:?}", v)
    }
}
impl<K: Show, V: Show> Show for BTreeMap<K, V> {
    fn show(&self) -> String {
        let mut v: Vec<(String, String)> = self.iter().map(|(k, v)| (k.show(), v.show())).collect();
        v.sort();
        format!("{:?}", v)
    }
}

type MapConv = fn(&syn::Meta) -> Result<(usize, String), darling_core::Error>;
type ElConv = fn(&syn::Meta) -> Result<String, darling_core::Error>;

fn hm<K: Show + std::hash::Hash + Eq, V: Show + FromMeta>(m: &syn::Meta) -> Result<(usize, String), darling_core::Error>
where
    HashMap<K, V>: FromMeta,
{
    HashMap::<K, V>::from_meta(m).map(|x| (x.len(), x.show()))
}
/// A hasher under which every key has the same hash: equality alone must decide what a repeated key is.
#[derive(Default, Clone, Copy)]
pub struct SameHash;
impl std::hash::Hasher for SameHash {
    fn finish(&self) -> u64 {
        7
    }
    fn write(&mut self, _: &[u8]) {}
}
impl std::hash::BuildHasher for SameHash {
    type Hasher = SameHash;
    fn build_hasher(&self) -> SameHash {
        SameHash
    }
}
fn hm_same<K: Show + std::hash::Hash + Eq, V: Show + FromMeta>(m: &syn::Meta) -> Result<(usize, String), darling_core::Error>
where
    HashMap<K, V, SameHash>: FromMeta,
{
    HashMap::<K, V, SameHash>::from_meta(m).map(|x| (x.len(), x.show()))
}
fn bm<K: Show + Ord, V: Show + FromMeta>(m: &syn::Meta) -> Result<(usize, String), darling_core::Error>
where
    BTreeMap<K, V>: FromMeta,
{
    BTreeMap::<K, V>::from_meta(m).map(|x| (x.len(), x.show()))
}
fn el<V: Show + FromMeta>(m: &syn::Meta) -> Result<String, darling_core::Error> {
    V::from_meta(m).map(|v| v.show())
}

// (the last three override `from_meta` itself, not the per-form hooks: an entry must reach them through `from_meta`)
pub const VALS: &[&str] = &["bool", "u8", "String", "Expr", "map", "Option<u8>", "Box<u8>", "SpannedValue<u8>"];
pub const MAPS: &[&str] = &["HashMap<String>", "HashMap<Ident>", "HashMap<Path>", "BTreeMap<String>", "BTreeMap<Ident>"];

fn conv_for(map: &str, val: &str) -> (MapConv, ElConv) {
    macro_rules! pick {
        ($v:ty) => {
            match map {
                "HashMap<String>" => (hm::<String, $v> as MapConv, el::<$v> as ElConv),
                "HashMap<Ident>" => (hm::<syn::Ident, $v> as MapConv, el::<$v> as ElConv),
                "HashMap<Path>" => (hm::<syn::Path, $v> as MapConv, el::<$v> as ElConv),
                "BTreeMap<String>" => (bm::<String, $v> as MapConv, el::<$v> as ElConv),
                "BTreeMap<Ident>" => (bm::<syn::Ident, $v> as MapConv, el::<$v> as ElConv),
                "HashMap<String>+colliding-hasher" => (hm_same::<String, $v> as MapConv, el::<$v> as ElConv),
                "HashMap<Ident>+colliding-hasher" => (hm_same::<syn::Ident, $v> as MapConv, el::<$v> as ElConv),
                _ => unreachable!(),
            }
        };
    }
    match val {
        "bool" => pick!(bool),
        "u8" => pick!(u8),
        "String" => pick!(String),
        "Expr" => pick!(syn::Expr),
        "map" => pick!(HashMap<String, u8>),
        "Option<u8>" => pick!(Option<u8>),
        "Box<u8>" => pick!(Box<u8>),
        "SpannedValue<u8>" => pick!(darling_core::util::SpannedValue<u8>),
        _ => unreachable!(),
    }
}
impl<T: Show> Show for Option<T> {
    fn show(&self) -> String {
        match self {
            Some(x) => format!("Some({})", x.show()),
            None => "None".to_string(),
        }
    }
}
impl<T: Show> Show for Box<T> {
    fn show(&self) -> String {
        (**self).show()
    }
}
impl<T: Show> Show for darling_core::util::SpannedValue<T> {
    fn show(&self) -> String {
        (**self).show()
    }
}

#[derive(Clone, Debug, Serialize, Deserialize, Hash, PartialEq, Eq)]
pub enum Item {
    Lit(String),
    /// key text, full item text after the key (e.g. ` = 5`, `(x = 1)`, ``), value is acceptable to V
    Named { key: String, rest: String, good: bool },
}

#[derive(Clone, Debug, Serialize, Deserialize, Hash, PartialEq, Eq)]
pub struct Case {
    pub val: String,
    pub items: Vec<Item>,
}

// (keys led by a path keyword are named items too)
const KEYS: &[&str] = &["a", "b", "crate::a", "c", "a::b", "::a::b", "self::b", "r#type", "dd", "::c", "a::c", "super::c", "Self", "crate"];

fn gen_value(d: &mut D, val: &str, good: bool) -> String {
    let s: &[&str] = match (val, good) {
        ("bool", true) => &["", " = true", " = false", " = \"true\""],
        ("bool", false) => &[" = 5", " = \"yes\"", "(x)", " = 'c'"],
        ("u8", true) | ("Option<u8>", true) | ("Box<u8>", true) | ("SpannedValue<u8>", true) => &[" = 5", " = \"7\"", " = 0xff", " = 0"],
        ("u8", false) | ("Option<u8>", false) | ("Box<u8>", false) | ("SpannedValue<u8>", false) => &[" = 300", " = \"x\"", "", "(1)", " = -1"],
        ("String", true) => &[" = \"s\"", " = r#\"r\"#", " = \"\""],
        ("String", false) => &[" = 5", "", "(x)", " = true"],
        ("Expr", true) => &[" = x + 1", " = \"y * 2\"", " = f(a, b)", " = [1, 2]", " = 5"],
        ("Expr", false) => &["", "(x)", " = \"not an expr +\""],
        ("map", true) => &["(x = 1, y = 2)", "()", "(z = \"9\")"],
        ("map", false) => &["(x = 1, x = 2)", " = 5", "", "(x = 300)", "(\"lit\")"],
        _ => unreachable!(),
    };
    d.pick(s).to_string()
}

pub fn gen_case(d: &mut D) -> Case {
    let val = d.pick(VALS).to_string();
    let n = d.range(0, 12);
    // a key pool of limited size so that repetitions are common
    let pool_n = d.range(1, KEYS.len());
    let pool_off = d.below(KEYS.len());
    let mut items = vec![];
    for _ in 0..n {
        if d.ratio(1, 10) {
            items.push(Item::Lit(d.pick(&["\"l\"", "5", "true", "'c'", "1.5"]).to_string()));
        } else {
            let key = KEYS[(pool_off + d.below(pool_n)) % KEYS.len()].to_string();
            let good = !d.ratio(1, 5);
            let rest = gen_value(d, &val, good);
            items.push(Item::Named { key, rest, good });
        }
    }
    Case { val, items }
}

#[derive(Debug, Clone, PartialEq, Eq)]
enum Leaf {
    Literal,
    Dup(String),
    BadKey,
    Value(String),
}

fn key_of(map: &str, key: &str) -> Result<String, ()> {
    let segs: Vec<&str> = key.trim_start_matches("::").split("::").collect();
    match map {
        "HashMap<String>" | "BTreeMap<String>" => Ok(segs.join("::")),
        "HashMap<Ident>" | "BTreeMap<Ident>" => {
            if key.starts_with("::") || segs.len() != 1 {
                Err(())
            } else {
                Ok(key.to_string())
            }
        }
        // paths compare structurally: the leading colon matters
        "HashMap<Path>" => Ok(key.to_string()),
        _ => unreachable!(),
    }
}

fn loc_of(key: &str) -> String {
    key.trim_start_matches("::").to_string()
}

fn model(map: &str, c: &Case, item_ok: &[Option<bool>]) -> Vec<Leaf> {
    let mut leaves = vec![];
    let mut seen: Vec<String> = vec![];
    for (i, it) in c.items.iter().enumerate() {
        match it {
            Item::Lit(_) => leaves.push(Leaf::Literal),
            Item::Named { key, .. } => {
                let good = item_ok[i].unwrap();
                match key_of(map, key) {
                    Err(()) => {
                        leaves.push(Leaf::BadKey);
                        if !good {
                            leaves.push(Leaf::Value(loc_of(key)));
                        }
                    }
                    Ok(k) => {
                        if seen.contains(&k) {
                            // the message names the key without a leading `::`
                            leaves.push(Leaf::Dup(loc_of(&k)));
                        }
                        if !good {
                            leaves.push(Leaf::Value(loc_of(key)));
                        }
                        seen.push(k);
                    }
                }
            }
        }
    }
    leaves
}

fn classify(display: &str) -> Leaf {
    let (msg, path) = split_at(display);
    if !path.is_empty() {
        return Leaf::Value(path[0].clone());
    }
    if msg.starts_with("Unexpected meta-item format `expression`") {
        Leaf::Literal
    } else if let Some(rest) = msg.strip_prefix("Duplicate field `") {
        Leaf::Dup(rest.trim_end_matches('`').to_string())
    } else if msg.starts_with("Key must be an identifier") {
        Leaf::BadKey
    } else {
        Leaf::Value("?".into())
    }
}

pub fn render(c: &Case) -> (String, Vec<(usize, usize)>) {
    let mut s = String::from("m(");
    let mut ranges = vec![];
    for (i, it) in c.items.iter().enumerate() {
        if i > 0 {
            s.push_str(", ");
        }
        let a = s.len();
        match it {
            Item::Lit(l) => s.push_str(l),
            Item::Named { key, rest, .. } => {
                s.push_str(key);
                s.push_str(rest);
            }
        }
        ranges.push((a, s.len()));
    }
    s.push(')');
    (s, ranges)
}

pub fn check(ctx: &Ctx, c: &Case, spans_only: bool) -> Result<(), Fail> {
    fresh_spans();
    let (src, ranges) = render(c);
    ctx.set_render(json!({"value_type": c.val, "source": src}));
    let meta: syn::Meta = match syn::parse_str(&src) {
        Ok(m) => m,
        Err(e) => fail!("c14:harness-render", "`{}` does not parse: {}", src, e),
    };
    // the items as syn sees them, for the element type's own conversion
    let list = match &meta {
        syn::Meta::List(l) => l.clone(),
        _ => unreachable!(),
    };
    let nested = match darling_core::ast::NestedMeta::parse_meta_list(list.tokens.clone()) {
        Ok(n) => n,
        // (the list is well-formed by construction: named items and literals separated by commas)
        Err(e) => fail!("c14:valid-item-list-rejected", "the items of `{}` are all literals or named items, yet they do not parse: {}", src, e),
    };
    ensure!(nested.len() == c.items.len(), "c14:item-count", "`{}` has {} items, parsing gives {}", src, c.items.len(), nested.len());
    let whole = {
        use syn::spanned::Spanned;
        range(meta.span())
    };
    let mut first_results: Option<(Result<(usize, String), Vec<String>>, String)> = None;
    let n_dups_possible = c.items.len();
    for map in MAPS {
        ctx.eval();
        let (mconv, econv) = conv_for(map, &c.val);
        // the element type's own verdict per item
        let mut item_ok: Vec<Option<bool>> = vec![];
        let mut item_val: Vec<Option<String>> = vec![];
        for (i, nm) in nested.iter().enumerate() {
            match nm {
                darling_core::ast::NestedMeta::Meta(mi) => {
                    let r = econv(mi);
                    if let Item::Named { good, key, rest } = &c.items[i] {
                        // the generator's label and the element type must agree (harness sanity)
                        ensure!(
                            r.is_ok() == *good,
                            "c14:harness-label",
                            "item `{}{}` labelled good={} but {}::from_meta says {:?}",
                            key, rest, good, c.val, r.as_ref().map_err(|e| e.to_string())
                        );
                    }
                    item_ok.push(Some(r.is_ok()));
                    item_val.push(r.ok());
                }
                darling_core::ast::NestedMeta::Lit(_) => {
                    item_ok.push(None);
                    item_val.push(None);
                }
            }
        }
        let want = model(map, c, &item_ok);
        let got = match catch(|| mconv(&meta)) {
            Ok(r) => r,
            Err(p) => fail!("c14:panic", "{}<{}>::from_meta(`{}`) panicked: {}", map, c.val, src, p),
        };
        let repeated = want.iter().any(|l| matches!(l, Leaf::Dup(_)));
        if want.len() >= 2 || repeated {
            ctx.nontrivial(&(map, c));
        }
        if repeated {
            ctx.class("repeated-key");
        }
        if want.iter().any(|l| matches!(l, Leaf::BadKey)) {
            ctx.class("bad-key");
        }
        ctx.class(if want.is_empty() { "model:ok" } else { "model:err" });
        let shown: Result<(usize, String), Vec<String>> = match &got {
            Ok(v) => Ok(v.clone()),
            Err(e) => Err(e.clone().flatten().into_iter().map(|l| l.to_string()).collect()),
        };
        match &got {
            Ok((len, shown)) => {
                if spans_only {
                    continue;
                }
                ensure!(
                    want.is_empty(),
                    format!("c14:accepted:{:?}", want[0]).split('(').next().unwrap().to_string(),
                    "{}<{}>::from_meta(`{}`) succeeded with {} but the model expects errors {:?}",
                    map, c.val, src, shown, want
                );
                ensure!(*len == c.items.len(), "c14:size", "{}<{}>(`{}`) has {} entries for {} items", map, c.val, src, len, c.items.len());
                // exactly one entry per item holding the element type's value
                let mut exp: Vec<(String, String)> = vec![];
                for (i, it) in c.items.iter().enumerate() {
                    if let Item::Named { key, .. } = it {
                        let k = match *map {
                            "HashMap<Path>" => {
                                let p: syn::Path = syn::parse_str(key).unwrap();
                                p.show()
                            }
                            "HashMap<Ident>" | "BTreeMap<Ident>" => key.clone(),
                            _ => format!("{:?}", key_of(map, key).unwrap()),
                        };
                        exp.push((k, item_val[i].clone().unwrap()));
                    }
                }
                exp.sort();
                ensure!(
                    *shown == format!("{:?}", exp),
                    "c14:content",
                    "{}<{}>(`{}`) holds {} but the element conversions give {:?}",
                    map, c.val, src, shown, exp
                );
            }
            Err(e) => {
                let leaves: Vec<darling_core::Error> = e.clone().flatten().into_iter().collect();
                if !spans_only {
                    ensure!(
                        !want.is_empty(),
                        "c14:rejected-good-list",
                        "{}<{}>::from_meta(`{}`) failed with `{}` but every item is fine and keys are distinct",
                        map, c.val, src, e
                    );
                    // every generated bad value yields exactly one leaf (also for nested maps)
                    let mut got_l: Vec<Leaf> = vec![];
                    for l in &leaves {
                        let k = classify(&l.to_string());
                        got_l.push(k);
                    }
                    if got_l != want {
                        let nd_g = got_l.iter().filter(|l| matches!(l, Leaf::Dup(_))).count();
                        let nd_w = want.iter().filter(|l| matches!(l, Leaf::Dup(_))).count();
                        let sig = if nd_g != nd_w { "c14:duplicate-leaves" } else { "c14:error-leaves" };
                        fail!(sig, "{}<{}>::from_meta(`{}`): leaves {:?}, model {:?} (raw: {:?})", map, c.val, src, got_l, want, leaves.iter().map(|l| l.to_string()).collect::<Vec<_>>());
                    }
                    ensure!(e.len() == leaves.len(), "c14:len", "len() {} != leaves {}", e.len(), leaves.len());
                }
                // spans: every leaf lies inside the attribute item; key/value leaves inside their own item
                for l in &leaves {
                    let k = classify(&l.to_string());
                    let sp = match l.explicit_span() {
                        Some(s) => range(s),
                        None => fail!(
                            format!("c03b:map-leaf-unspanned:{:?}", k).split('(').next().unwrap().to_string(),
                            "{}<{}>::from_meta(`{}`): leaf `{}` has no span",
                            map, c.val, src, l
                        ),
                    };
                    ensure!(inside(sp, whole), "c03b:map-leaf-outside-item", "leaf `{}` spans {:?}, the item is {:?}", l, sp, whole);
                    match k {
                        Leaf::Dup(_) | Leaf::BadKey | Leaf::Value(_) => {
                            ensure!(
                                ranges.iter().any(|r| inside(sp, *r)),
                                "c03b:map-leaf-not-in-an-entry",
                                "leaf `{}` spans {:?} (`{}`), which is no single entry of `{}`",
                                l, sp, &src[sp.0..sp.1.min(src.len())], src
                            );
                        }
                        Leaf::Literal => {}
                    }
                }
            }
        }
        // hash and ordered maps with the same key type agree
        if !spans_only {
            match *map {
                "HashMap<String>" | "HashMap<Ident>" => first_results = Some((shown, map.to_string())),
                "BTreeMap<String>" | "BTreeMap<Ident>" => {}
                _ => {}
            }
            if *map == "HashMap<Ident>" || *map == "HashMap<String>" {
                let twin = if *map == "HashMap<String>" { "BTreeMap<String>" } else { "BTreeMap<Ident>" };
                let (tconv, _) = conv_for(twin, &c.val);
                let tgot = tconv(&meta);
                let tshown: Result<(usize, String), Vec<String>> = match &tgot {
                    Ok(v) => Ok(v.clone()),
                    Err(e) => Err(e.clone().flatten().into_iter().map(|l| l.to_string()).collect()),
                };
                let mine = first_results.as_ref().unwrap();
                ensure!(
                    mine.0 == tshown,
                    "c14:hash-vs-btree",
                    "{} and {} disagree on `{}`: {:?} vs {:?}",
                    map, twin, src, mine.0, tshown
                );
                // ... and so does a hash map declared with a hasher of the user's own (here: one that makes all keys collide)
                let other = format!("{}+colliding-hasher", map);
                let (oconv, _) = conv_for(&other, &c.val);
                let ogot = oconv(&meta);
                let oshown: Result<(usize, String), Vec<String>> = match &ogot {
                    Ok(v) => Ok(v.clone()),
                    Err(e) => Err(e.clone().flatten().into_iter().map(|l| l.to_string()).collect()),
                };
                ensure!(mine.0 == oshown, "c14:hasher-matters", "{} with the default hasher and with a colliding one disagree on `{}`: {:?} vs {:?}", map, src, mine.0, oshown);
            }
        }
    }
    let _ = n_dups_possible;
    ctx.sample(|| json!({"value_type": c.val, "source": src}));
    Ok(())
}

pub fn check_bytes(ctx: &Ctx, bytes: &Vec<u8>) -> Result<(), Fail> {
    let mut d = D::new(bytes);
    let c = gen_case(&mut d);
    check(ctx, &c, false)
}
pub fn check_bytes_spans(ctx: &Ctx, bytes: &Vec<u8>) -> Result<(), Fail> {
    let mut d = D::new(bytes);
    let c = gen_case(&mut d);
    check(ctx, &c, true)
}

fn regress() -> Vec<Case> {
    let n = |k: &str, r: &str, g: bool| Item::Named { key: k.into(), rest: r.into(), good: g };
    vec![
        // the suite's pattern a, a, a
        Case { val: "String".into(), items: vec![n("a", " = \"x\"", true), n("a", " = \"y\"", true), n("a", " = \"z\"", true)] },
        // DESIGN appendix A: hm(k = 1, k = 2, j = 300, "l")
        Case { val: "u8".into(), items: vec![n("b", " = 1", true), n("b", " = 2", true), n("c", " = 300", false), Item::Lit("\"l\"".into())] },
        Case { val: "u8".into(), items: vec![n("a::b", " = 1", true), n("::a::b", " = 2", true)] },
        Case { val: "map".into(), items: vec![n("a", "(x = 1, x = 2)", false), n("a", "()", true)] },
        Case { val: "bool".into(), items: vec![] },
    ]
}

pub fn run(sub: &str, args: &Args) -> bool {
    let spans_only = sub == "c03-maps";
    let (prop, step) = if spans_only { ("C03", "maps") } else { ("C14", "maps") };
    let ctx = Ctx::new(prop, step, vmodel::ev::mix_seed(args.seed, prop, step, args.shard), args);
    if spans_only {
        ctx.set_rule("map conversions of C14 (5 instantiations x 5 value types, lists of 0..12 items with repeated / multi-segment keys, literal items, bad values): every error leaf carries a span inside the attribute item; duplicate-key, bad-key and value leaves inside their own entry. Non-trivial: >=2 expected leaves or a repeated key");
    } else {
        ctx.set_rule("item lists of length 0..12 over a key pool with controlled repetition (a::b vs ::a::b, r#type, multi-segment keys), literal items and values the element type rejects, x {HashMap,BTreeMap} x {String,Ident,Path} keys x {bool,u8,String,Expr,nested map} (evaluations = map conversions); oracle: list model (one leaf per literal item / repeated occurrence / bad key / bad value, in order; success iff none; then len == items and every entry == the element type's own conversion), hash == btree. Non-trivial: >=2 expected leaves or a repeated key; distinct by (map, case)");
    }
    let checker: fn(&Ctx, &Vec<u8>) -> Result<(), Fail> = if spans_only { check_bytes_spans } else { check_bytes };
    if let Some(path) = &args.replay {
        let (_, case) = vmodel::ev::load_replay_case(path);
        let ok = if case.is_array() {
            let b: Vec<u8> = serde_json::from_value(case).expect("bad replay");
            run_list(&ctx, vec![b], checker)
        } else {
            let c: Case = serde_json::from_value(case).expect("bad replay");
            run_list(&ctx, vec![c], |ctx, c| check(ctx, c, spans_only))
        };
        ctx.finish();
        return ok;
    }
    let mut ok = run_list(&ctx, regress(), |ctx, c| check(ctx, c, spans_only));
    ok &= run_prop(&ctx, args.cases as u32, prop::collection::vec(any::<u8>(), 0..160), checker);
    ctx.finish();
    ok
}
