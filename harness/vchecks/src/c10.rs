//! C10: derive-time validation accepts exactly the well-formed declarations.
//! Structured declarations -> source text (with byte ranges of every option) -> derive; the oracle
//! is an independent rule table transcribed from the property statement (DESIGN.md Appendix C).

use crate::c06::{derive, panic_root, TRAITS};
use proptest::prelude::*;
use serde::{Deserialize, Serialize};
use serde_json::json;
use vmodel::dec::D;
use vmodel::ev::{run_list, run_prop, Args, Ctx, Fail};
use vmodel::util::{catch, compile_errors, fresh_spans, inside, range};
use vmodel::{ensure, fail};

type R = (usize, usize);

#[derive(Clone, Debug, Serialize, Deserialize, Hash, PartialEq, Eq)]
pub struct Opt {
    pub name: String,
    /// the full option text, e.g. `rename = "x"`
    pub text: String,
    /// the value is one the option's type accepts
    pub valid: bool,
    /// for boolean options: the value is true
    pub truthy: bool,
}

pub type Attrs = Vec<Vec<Opt>>;

#[derive(Clone, Debug, Serialize, Deserialize, Hash, PartialEq, Eq)]
pub struct FieldD {
    pub name: Option<String>,
    pub ty: String,
    pub attrs: Attrs,
}

#[derive(Clone, Debug, Serialize, Deserialize, Hash, PartialEq, Eq)]
pub enum Shape {
    Unit,
    Tuple(Vec<FieldD>),
    Named(Vec<FieldD>),
}

#[derive(Clone, Debug, Serialize, Deserialize, Hash, PartialEq, Eq)]
pub struct VariantD {
    pub name: String,
    pub attrs: Attrs,
    pub shape: Shape,
}

#[derive(Clone, Debug, Serialize, Deserialize, Hash, PartialEq, Eq)]
pub enum BodyD {
    Struct(Shape),
    Enum(Vec<VariantD>),
    Union(Vec<FieldD>),
}

#[derive(Clone, Debug, Serialize, Deserialize, Hash, PartialEq, Eq)]
pub struct Decl {
    pub tr: String,
    pub container: Attrs,
    pub body: BodyD,
}

// ------------------------------------------------------------------------------------------
// option vocabulary

fn o(name: &str, text: &str, valid: bool, truthy: bool) -> Opt {
    Opt {
        name: name.into(),
        text: text.into(),
        valid,
        truthy,
    }
}

/// Valid spellings of an option (index 0 is the canonical one).
pub fn valid_forms(name: &str) -> Vec<Opt> {
    match name {
        "rename" => vec![o(name, "rename = \"nm\"", true, false), o(name, "rename = r\"p::q\"", true, false)],
        "default" => vec![
            o(name, "default", true, false),
            o(name, "default = \"mk\"", true, false),
            o(name, "default = Self::mk", true, false),
        ],
        "with" => vec![o(name, "with = conv", true, false), o(name, "with = |m| conv(m)", true, false)],
        "fwd_with" => vec![o("with", "with = conv", true, false), o("with", "with = \"a::conv\"", true, false)],
        "skip" | "multiple" | "allow_unknown_fields" | "word" => vec![
            o(name, name, true, true),
            o(name, &format!("{} = true", name), true, true),
            o(name, &format!("{} = \"true\"", name), true, true),
        ],
        "skip=false" => vec![o("skip", "skip = false", true, false)],
        "multiple=false" => vec![o("multiple", "multiple = false", true, false), o("multiple", "multiple = \"false\"", true, false)],
        "map" | "and_then" => vec![
            o(name, &format!("{} = tr", name), true, false),
            o(name, &format!("{} = \"Self::tr\"", name), true, false),
        ],
        "flatten" | "from_ident" => vec![o(name, name, true, true)],
        "rename_all" => vec![
            o(name, "rename_all = \"snake_case\"", true, false),
            o(name, "rename_all = \"camelCase\"", true, false),
            o(name, "rename_all = \"kebab-case\"", true, false),
        ],
        "from_word" | "from_none" => vec![
            o(name, &format!("{} = mk", name), true, false),
            o(name, &format!("{} = || Default::default()", name), true, false),
        ],
        "attributes" => vec![
            o(name, "attributes(my_attr)", true, true),
            o(name, "attributes(a, b::c)", true, true),
            // empty list: accepted by the option, but declares no attribute
            o(name, "attributes()", true, false),
        ],
        "forward_attrs" => vec![
            o(name, "forward_attrs", true, true),
            o(name, "forward_attrs(doc, cfg)", true, true),
            o(name, "forward_attrs()", true, true),
        ],
        "supports" => vec![
            o(name, "supports(struct_named)", true, false),
            o(name, "supports(any)", true, false),
            o(name, "supports(struct_any, enum_unit, enum_newtype)", true, false),
            o(name, "supports()", true, false),
        ],
        "v_supports" => vec![
            o("supports", "supports(named)", true, false),
            o("supports", "supports(any)", true, false),
            o("supports", "supports(unit, newtype, tuple)", true, false),
        ],
        _ => vec![o(name, name, true, true)],
    }
}

/// Spellings whose value the option's type rejects.
pub fn invalid_forms(name: &str) -> Vec<Opt> {
    let f = |t: &str| o(name, t, false, false);
    match name {
        "rename" => vec![f("rename = 5"), f("rename"), f("rename(x)"), f("rename = 'c'")],
        "default" => vec![f("default = 5"), f("default(x)"), f("default = a + b")],
        "with" => vec![f("with = \"conv\""), f("with"), f("with = 5"), f("with(x)")],
        "fwd_with" => vec![o("with", "with = 5", false, false), o("with", "with", false, false), o("with", "with = |a| a", false, false)],
        "skip" | "multiple" | "allow_unknown_fields" | "word" => vec![
            f(&format!("{} = 5", name)),
            f(&format!("{}(x)", name)),
            f(&format!("{} = \"yes\"", name)),
        ],
        "map" | "and_then" => vec![f(&format!("{} = 5", name)), f(name), f(&format!("{} = |x| x", name))],
        "flatten" => vec![f("flatten = true"), f("flatten(x)")],
        "rename_all" => vec![f("rename_all = \"nonsense\""), f("rename_all"), f("rename_all = 3"), f("rename_all = \"UPPERCASE\"")],
        "from_word" | "from_none" => vec![
            f(&format!("{} = \"mk\"", name)),
            f(name),
            f(&format!("{} = 5", name)),
        ],
        "attributes" => vec![f("attributes"), f("attributes = \"x\""), f("attributes(a = 1)"), f("attributes(\"x\")")],
        "forward_attrs" => vec![f("forward_attrs = \"x\""), f("forward_attrs(a(b))"), f("forward_attrs(1)")],
        "supports" => vec![
            f("supports(bogus)"),
            f("supports(struct_named, struct_bogus)"),
            f("supports"),
            f("supports = \"any\""),
            f("supports(any = true)"),
            f("supports(named)"),
            // the prefix must not be strippable twice
            f("supports(struct_struct_named)"),
            f("supports(enum_enum_unit)"),
            f("supports(\"any\")"),
            f("supports(any, bogus)"),
            f("supports(struct_any, enum_any, bogus)"),
            f("supports(any, named)"),
        ],
        "v_supports" => vec![
            o("supports", "supports(bogus)", false, false),
            o("supports", "supports(struct_named)", false, false),
            o("supports", "supports", false, false),
            o("supports", "supports(unit = 1)", false, false),
            // an ill-formed word is ill-formed wherever it stands in the list, also behind `any`
            o("supports", "supports(any, bogus)", false, false),
            o("supports", "supports(bogus, any)", false, false),
            o("supports", "supports(named, enum_named, unit)", false, false),
            o("supports", "supports(any, unit = 1)", false, false),
            o("supports", "supports(any, a::b)", false, false),
        ],
        _ => vec![],
    }
}

fn is_element_level(tr: &str) -> bool {
    tr != "FromMeta"
}

fn container_vocab(tr: &str) -> Vec<&'static str> {
    let mut v = vec!["default", "rename_all", "map", "and_then", "allow_unknown_fields"];
    if tr == "FromMeta" {
        v.extend(["from_word", "from_none"]);
    } else {
        v.extend(["attributes", "forward_attrs", "from_ident"]);
    }
    if tr == "FromDeriveInput" || tr == "FromVariant" {
        v.push("supports");
    }
    v
}

const FIELD_VOCAB: &[&str] = &["rename", "default", "with", "skip", "map", "and_then", "multiple", "flatten"];
const VARIANT_VOCAB: &[&str] = &["rename", "skip", "word"];

fn forwarded_names(tr: &str) -> Vec<&'static str> {
    match tr {
        "FromMeta" => vec![],
        "FromDeriveInput" => vec!["attrs", "data"],
        _ => vec!["attrs"],
    }
}

/// magic fields whose darling attributes are not read at all
fn passthrough_names(tr: &str) -> Vec<&'static str> {
    match tr {
        "FromMeta" => vec![],
        "FromDeriveInput" => vec!["ident", "vis", "generics"],
        "FromField" => vec!["ident", "vis", "ty"],
        "FromVariant" => vec!["ident", "discriminant", "fields"],
        "FromTypeParam" => vec!["ident", "bounds", "default"],
        "FromAttributes" => vec![],
        _ => vec![],
    }
}

// ------------------------------------------------------------------------------------------
// rendering with ranges

#[derive(Default, Debug)]
pub struct Rendered {
    pub text: String,
    /// ranges of the options of each element, in walk order: element key -> [(opt, range)]
    pub elems: Vec<(String, Vec<(Opt, R)>, R /* name range */)>,
}

fn render_attrs(out: &mut String, attrs: &Attrs) -> Vec<(Opt, R)> {
    let mut v = vec![];
    for a in attrs {
        out.push_str("#[darling(");
        for (i, op) in a.iter().enumerate() {
            if i > 0 {
                out.push_str(", ");
            }
            let s = out.len();
            out.push_str(&op.text);
            v.push((op.clone(), (s, out.len())));
        }
        out.push_str(")] ");
    }
    v
}

fn render_field(out: &mut String, key: &str, f: &FieldD, r: &mut Rendered) {
    let opts = render_attrs(out, &f.attrs);
    let s = out.len();
    if let Some(n) = &f.name {
        out.push_str(n);
        let e = out.len();
        out.push_str(": ");
        out.push_str(&f.ty);
        r.elems.push((key.to_string(), opts, (s, e)));
    } else {
        out.push_str(&f.ty);
        r.elems.push((key.to_string(), opts, (s, out.len())));
    }
}

fn render_shape(out: &mut String, key: &str, sh: &Shape, r: &mut Rendered, is_struct_item: bool) {
    match sh {
        Shape::Unit => {
            if is_struct_item {
                out.push(';');
            }
        }
        Shape::Tuple(fs) => {
            out.push('(');
            for (i, f) in fs.iter().enumerate() {
                if i > 0 {
                    out.push_str(", ");
                }
                render_field(out, &format!("{}/f{}", key, i), f, r);
            }
            out.push(')');
            if is_struct_item {
                out.push(';');
            }
        }
        Shape::Named(fs) => {
            out.push_str(" { ");
            for (i, f) in fs.iter().enumerate() {
                render_field(out, &format!("{}/f{}", key, i), f, r);
                out.push_str(", ");
            }
            out.push('}');
        }
    }
}

pub fn render(d: &Decl) -> Rendered {
    let mut r = Rendered::default();
    let mut out = String::new();
    let copts = render_attrs(&mut out, &d.container);
    match &d.body {
        BodyD::Struct(sh) => {
            out.push_str("struct ");
            let s = out.len();
            out.push_str("Rcv");
            r.elems.push(("container".into(), copts, (s, out.len())));
            render_shape(&mut out, "s", sh, &mut r, true);
        }
        BodyD::Enum(vs) => {
            out.push_str("enum ");
            let s = out.len();
            out.push_str("Rcv");
            r.elems.push(("container".into(), copts, (s, out.len())));
            out.push_str(" { ");
            for (i, v) in vs.iter().enumerate() {
                let vo = render_attrs(&mut out, &v.attrs);
                let s = out.len();
                out.push_str(&v.name);
                r.elems.push((format!("v{}", i), vo, (s, out.len())));
                render_shape(&mut out, &format!("v{}", i), &v.shape, &mut r, false);
                out.push_str(", ");
            }
            out.push('}');
        }
        BodyD::Union(fs) => {
            out.push_str("union ");
            let s = out.len();
            out.push_str("Rcv");
            r.elems.push(("container".into(), copts, (s, out.len())));
            out.push_str(" { ");
            for (i, f) in fs.iter().enumerate() {
                render_field(&mut out, &format!("s/f{}", i), f, &mut r);
                out.push_str(", ");
            }
            out.push('}');
        }
    }
    r.text = out;
    r
}

// ------------------------------------------------------------------------------------------
// the rule table

#[derive(Clone, Debug)]
pub struct Viol {
    pub rule: String,
    /// the diagnostic must lie inside one of these token ranges; empty = anywhere (whole item / call site)
    pub ranges: Vec<R>,
    /// an option name the message must mention
    pub mention: Option<String>,
    pub required: bool,
}

fn v(rule: impl Into<String>, ranges: Vec<R>, mention: Option<&str>) -> Viol {
    Viol {
        rule: rule.into(),
        ranges,
        mention: mention.map(|s| s.to_string()),
        required: true,
    }
}

#[derive(Default, Debug)]
struct FieldEval {
    viols: Vec<Viol>,
    flatten: Option<R>,
}

fn eval_transform(name: &str, op: &Opt, rg: R, stored: &mut Option<String>, viols: &mut Vec<Viol>) {
    if let Some(prev) = stored {
        if prev == name {
            viols.push(v(format!("dup:{}", name), vec![rg], None));
        } else {
            viols.push(v("excl:map+and_then", vec![rg], None));
        }
    } else if !op.valid {
        viols.push(v(format!("bad-value:{}", name), vec![rg], None));
    } else {
        *stored = Some(name.to_string());
    }
}

fn eval_field(opts: &[(Opt, R)]) -> FieldEval {
    let mut fe = FieldEval::default();
    let mut stored: Vec<(String, R, bool)> = vec![]; // name, range, truthy
    let mut transform: Option<String> = None;
    for (op, rg) in opts {
        let name = op.name.as_str();
        if !FIELD_VOCAB.contains(&name) {
            fe.viols.push(v(format!("unknown:{}", name), vec![*rg], None));
            continue;
        }
        match name {
            "map" | "and_then" => eval_transform(name, op, *rg, &mut transform, &mut fe.viols),
            "flatten" => {
                if fe.flatten.is_some() {
                    fe.viols.push(v("dup:flatten", vec![*rg], None));
                } else if !op.valid {
                    fe.viols.push(v("bad-value:flatten", vec![*rg], None));
                } else {
                    fe.flatten = Some(*rg);
                    for (n, prg, truthy) in &stored {
                        let conflicts = match n.as_str() {
                            "rename" | "with" => true,
                            "skip" | "multiple" => *truthy,
                            _ => false,
                        };
                        if conflicts {
                            fe.viols.push(v(format!("conflict:flatten+{}", n), vec![*rg, *prg], Some(n)));
                        }
                    }
                }
            }
            _ => {
                if stored.iter().any(|(n, _, _)| n == name) {
                    fe.viols.push(v(format!("dup:{}", name), vec![*rg], None));
                } else if !op.valid {
                    fe.viols.push(v(format!("bad-value:{}", name), vec![*rg], None));
                } else {
                    stored.push((name.to_string(), *rg, op.truthy));
                    if let Some(frg) = fe.flatten {
                        let conflicts = match name {
                            "rename" | "with" => true,
                            "skip" | "multiple" => op.truthy,
                            _ => false,
                        };
                        if conflicts {
                            fe.viols.push(v(format!("conflict:flatten+{}", name), vec![*rg, frg], Some(name)));
                        }
                    }
                }
            }
        }
    }
    fe
}

fn eval_forwarded(opts: &[(Opt, R)]) -> Vec<Viol> {
    let mut viols = vec![];
    let mut have = false;
    for (op, rg) in opts {
        if op.name != "with" {
            viols.push(v(format!("unknown:{}", op.name), vec![*rg], None));
        } else if have {
            viols.push(v("dup:with", vec![*rg], None));
        } else if !op.valid {
            viols.push(v("bad-value:with", vec![*rg], None));
        } else {
            have = true;
        }
    }
    viols
}

struct VariantEval {
    viols: Vec<Viol>,
    word: Option<R>,
    skip: bool,
}

fn eval_variant(opts: &[(Opt, R)], is_unit: bool) -> VariantEval {
    let mut ve = VariantEval {
        viols: vec![],
        word: None,
        skip: false,
    };
    let mut stored: Vec<String> = vec![];
    for (op, rg) in opts {
        let name = op.name.as_str();
        if !VARIANT_VOCAB.contains(&name) {
            ve.viols.push(v(format!("unknown:{}", name), vec![*rg], None));
            continue;
        }
        if stored.iter().any(|n| n == name) {
            ve.viols.push(v(format!("dup:{}", name), vec![*rg], None));
        } else if name == "word" && !is_unit {
            ve.viols.push(v("word-non-unit", vec![*rg], None));
        } else if !op.valid {
            ve.viols.push(v(format!("bad-value:{}", name), vec![*rg], None));
        } else {
            stored.push(name.to_string());
            if name == "word" {
                ve.word = Some(*rg);
            }
            if name == "skip" && op.truthy {
                ve.skip = true;
            }
        }
    }
    ve
}

struct ContainerEval {
    viols: Vec<Viol>,
    from_word: Option<R>,
    has_forward_attrs: bool,
    has_attributes: bool,
    /// `default` written after `from_ident`: the statement names no such conflict (known finding)
    default_after_from_ident: bool,
}

fn eval_container(tr: &str, opts: &[(Opt, R)]) -> ContainerEval {
    let vocab = container_vocab(tr);
    let mut ce = ContainerEval {
        viols: vec![],
        from_word: None,
        has_forward_attrs: false,
        has_attributes: false,
        default_after_from_ident: false,
    };
    let mut stored: Vec<String> = vec![];
    let mut transform: Option<String> = None;
    let mut seen_from_ident = false;
    for (op, rg) in opts {
        let name = op.name.as_str();
        if !vocab.contains(&name) {
            ce.viols.push(v(format!("unknown:{}", name), vec![*rg], None));
            continue;
        }
        match name {
            "map" | "and_then" => eval_transform(name, op, *rg, &mut transform, &mut ce.viols),
            // repetition is not an error for these
            "rename_all" | "attributes" | "forward_attrs" | "supports" | "from_ident" => {
                if !op.valid {
                    ce.viols.push(v(format!("bad-value:{}", name), vec![*rg], None));
                } else {
                    match name {
                        "attributes" => ce.has_attributes = op.truthy,
                        "forward_attrs" => ce.has_forward_attrs = true,
                        "from_ident" => seen_from_ident = true,
                        _ => {}
                    }
                }
            }
            _ => {
                // default, allow_unknown_fields, from_word, from_none: at most once
                if stored.iter().any(|n| n == name) {
                    ce.viols.push(v(format!("dup:{}", name), vec![*rg], None));
                } else if !op.valid {
                    ce.viols.push(v(format!("bad-value:{}", name), vec![*rg], None));
                } else {
                    stored.push(name.to_string());
                    if name == "from_word" {
                        ce.from_word = Some(*rg);
                    }
                }
                if name == "default" && seen_from_ident {
                    ce.default_after_from_ident = true;
                }
            }
        }
    }
    ce
}

pub struct Model {
    pub viols: Vec<Viol>,
    pub default_after_from_ident: bool,
    pub cross_element: bool,
    pub max_opts_on_element: usize,
}

fn unrequire(vs: &mut [Viol]) {
    for x in vs {
        x.required = false;
    }
}

pub fn model(d: &Decl, r: &Rendered) -> Model {
    let tr = d.tr.as_str();
    let find = |key: &str| r.elems.iter().find(|e| e.0 == key).unwrap();
    let mut viols: Vec<Viol> = vec![];
    let mut cross = false;
    let max_opts = r.elems.iter().map(|e| e.1.len()).max().unwrap_or(0);
    let c = find("container");
    let mut ce = eval_container(tr, &c.1);
    let container_clean = ce.viols.is_empty();

    if let BodyD::Union(_) = d.body {
        // rejected before anything else is looked at
        unrequire(&mut ce.viols);
        viols.extend(ce.viols);
        viols.push(v("union", vec![], None));
        return Model {
            viols,
            default_after_from_ident: false,
            cross_element: false,
            max_opts_on_element: max_opts,
        };
    }
    viols.extend(ce.viols.clone());
    let mut body: Vec<Viol> = vec![];

    // fields of a struct-like list; returns (violations, clean flatten ranges, attrs field clean?)
    let eval_fields = |prefix: &str, fs: &[FieldD], magic: bool, first_only: bool| -> (Vec<Viol>, Vec<R>, Option<R>) {
        let mut out = vec![];
        let mut flattens = vec![];
        let mut attrs_field: Option<R> = None;
        let mut offended = false;
        for (i, f) in fs.iter().enumerate() {
            let e = find(&format!("{}/f{}", prefix, i));
            let name = f.name.clone().unwrap_or_default();
            let mut fv;
            if magic && passthrough_names(tr).contains(&name.as_str()) {
                continue;
            } else if magic && forwarded_names(tr).contains(&name.as_str()) {
                fv = eval_forwarded(&e.1);
                if fv.is_empty() && name == "attrs" {
                    attrs_field = Some(e.2);
                }
            } else {
                let fe = eval_field(&e.1);
                if fe.viols.is_empty() {
                    if let Some(rg) = fe.flatten {
                        flattens.push(rg);
                    }
                }
                fv = fe.viols;
            }
            if !fv.is_empty() {
                if first_only && offended {
                    unrequire(&mut fv);
                }
                offended = true;
            }
            out.extend(fv);
        }
        (out, flattens, attrs_field)
    };

    match &d.body {
        BodyD::Struct(sh) => {
            let (fs, is_unit, is_newtype, is_tuple): (&[FieldD], bool, bool, bool) = match sh {
                Shape::Unit => (&[], true, false, false),
                Shape::Tuple(fs) => (fs, false, fs.len() == 1, true),
                Shape::Named(fs) => (fs, false, false, false),
            };
            let named = matches!(sh, Shape::Named(_));
            let (fv, flattens, attrs_field) = eval_fields("s", fs, named && is_element_level(tr), false);
            let fields_clean = fv.is_empty();
            body.extend(fv);
            if flattens.len() >= 2 {
                cross = true;
                for rg in &flattens {
                    body.push(v("multi-flatten", vec![*rg], None));
                }
            }
            if tr == "FromMeta" {
                if is_tuple && !is_newtype {
                    body.push(v("tuple-body", vec![], None));
                }
                if let Some(rg) = ce.from_word {
                    if is_unit || is_newtype {
                        cross = true;
                        // a rule between the container and the shape of the body: certain to be
                        // reported only when the fields themselves are fine (a field that failed is
                        // not kept, so the shape is no longer known to be a newtype)
                        let mut x = v("from_word-on-unit-or-newtype", vec![rg], None);
                        x.required = fields_clean;
                        body.push(x);
                    }
                }
            } else {
                if let Some(rg) = attrs_field {
                    if !ce.has_forward_attrs {
                        cross = true;
                        body.push(v("attrs-without-forward_attrs", vec![rg], None));
                    }
                }
                if tr == "FromAttributes" && !is_newtype && !ce.has_attributes {
                    // checked last: reported only when everything else is fine
                    let mut x = v("FromAttributes-without-attributes", vec![], None);
                    x.required = container_clean && body.is_empty();
                    body.push(x);
                }
            }
        }
        BodyD::Enum(vs) => {
            if is_element_level(tr) {
                body.push(v("enum-body", vec![], None));
                // whatever else is wrong inside may or may not be reported
                for (i, vd) in vs.iter().enumerate() {
                    let e = find(&format!("v{}", i));
                    let mut ve = eval_variant(&e.1, matches!(vd.shape, Shape::Unit)).viols;
                    unrequire(&mut ve);
                    body.extend(ve);
                }
            } else {
                let mut words: Vec<R> = vec![];
                for (i, vd) in vs.iter().enumerate() {
                    let e = find(&format!("v{}", i));
                    let is_unit = matches!(vd.shape, Shape::Unit);
                    let ve = eval_variant(&e.1, is_unit);
                    let mut clean = ve.viols.is_empty();
                    body.extend(ve.viols.clone());
                    if clean {
                        let fs: &[FieldD] = match &vd.shape {
                            Shape::Unit => &[],
                            Shape::Tuple(fs) | Shape::Named(fs) => fs,
                        };
                        let (fv, _fl, _) = eval_fields(&format!("v{}", i), fs, false, true);
                        if !fv.is_empty() {
                            clean = false;
                        }
                        body.extend(fv);
                    } else {
                        // the variant's fields are not examined once its own options failed
                        let fs: &[FieldD] = match &vd.shape {
                            Shape::Unit => &[],
                            Shape::Tuple(fs) | Shape::Named(fs) => fs,
                        };
                        let (mut fv, _, _) = eval_fields(&format!("v{}", i), fs, false, true);
                        unrequire(&mut fv);
                        body.extend(fv);
                    }
                    if clean {
                        if let Some(rg) = ve.word {
                            words.push(rg);
                        }
                        if let Shape::Tuple(fs) = &vd.shape {
                            if fs.len() != 1 && !ve.skip {
                                body.push(v("tuple-variant", vec![], None));
                            }
                        }
                    }
                }
                if words.len() >= 2 {
                    cross = true;
                    for rg in &words {
                        body.push(v("multi-word", vec![*rg], None));
                    }
                }
                if let (Some(rg), true) = (ce.from_word, !words.is_empty()) {
                    cross = true;
                    body.push(v("word+from_word", vec![rg], None));
                }
            }
        }
        BodyD::Union(_) => unreachable!(),
    }
    if !container_clean {
        // the body is not visited when the container's own options are wrong
        unrequire(&mut body);
    }
    viols.extend(body);
    ce.viols.clear();
    Model {
        viols,
        default_after_from_ident: ce.default_after_from_ident,
        cross_element: cross,
        max_opts_on_element: max_opts,
    }
}

// ------------------------------------------------------------------------------------------
// the check

fn norm_msg(m: &str) -> String {
    let m: String = m.chars().take(70).collect();
    m.replace(|c: char| c.is_ascii_digit(), "#")
}

/// Known finding (DESIGN.md section 5, #13): a container `default` written after `from_ident` is
/// reported as a duplicate `default`, because `from_ident` is stored in the `default` slot. Every
/// failure on a declaration with that pattern is attributed to this one signature; declarations
/// without the pattern are unaffected.
pub const SIG_DEFAULT_AFTER_FROM_IDENT: &str = "c10:default-after-from_ident";

pub fn check(ctx: &Ctx, d: &Decl) -> Result<(), Fail> {
    fresh_spans();
    let r = render(d);
    let m = model(d, &r);
    let pattern = m.default_after_from_ident;
    match check_inner(ctx, d, r, m) {
        Err(f) if pattern && !f.sig.starts_with("c10:panic") => {
            ctx.class("excluded:default-after-from_ident");
            Err(Fail::new(SIG_DEFAULT_AFTER_FROM_IDENT, f.msg))
        }
        other => other,
    }
}

fn check_inner(ctx: &Ctx, d: &Decl, r: Rendered, m: Model) -> Result<(), Fail> {
    ctx.set_render(json!({"trait": d.tr, "source": r.text}));
    let di: syn::DeriveInput = match syn::parse_str(&r.text) {
        Ok(x) => x,
        Err(e) => fail!("c10:harness-render", "rendered declaration does not parse: {} :: {}", e, r.text),
    };
    let n_viol = m.viols.len();
    if (m.max_opts_on_element >= 2 && n_viol >= 1) || m.cross_element {
        ctx.nontrivial(d);
    }
    ctx.class(if n_viol == 0 { "model:well-formed" } else { "model:ill-formed" });
    if m.cross_element {
        ctx.class("cross-element-rule");
    }
    for x in &m.viols {
        let fam = x.rule.split(':').next().unwrap_or("");
        ctx.class(&format!("rule:{}", fam));
    }
    let out = match catch(|| derive(&d.tr, &di)) {
        Ok(ts) => ts,
        Err(p) => fail!(format!("c10:panic:{}", panic_root(&p)), "derive({}) panicked on `{}`: {}", d.tr, r.text, p),
    };
    let ces = compile_errors(out.clone());
    let has_impl = syn::parse2::<syn::File>(out.clone())
        .map(|f| f.items.iter().any(|i| matches!(i, syn::Item::Impl(_))))
        .unwrap_or(false);
    ctx.sample(|| json!({"trait": d.tr, "source": r.text, "model_violations": m.viols.iter().map(|x| x.rule.clone()).collect::<Vec<_>>(), "diagnostics": ces.iter().map(|c| c.0.clone()).collect::<Vec<_>>()}));
    let diags: Vec<(String, R)> = ces.iter().map(|(m, s)| (m.clone(), range(*s))).collect();
    if n_viol == 0 {
        if !diags.is_empty() || !has_impl {
            let first = diags.get(0).map(|d| d.0.clone()).unwrap_or_default();
            fail!(
                format!("c10:rejected-well-formed:{}", norm_msg(&first)),
                "derive({}) rejects a declaration that breaks no rule: `{}` -> {:?}",
                d.tr,
                r.text,
                diags
            );
        }
        return Ok(());
    }
    let mut rules: Vec<String> = m.viols.iter().map(|x| x.rule.clone()).collect();
    rules.sort();
    rules.dedup();
    ensure!(
        !has_impl,
        format!("c10:accepted-ill-formed:{}", rules.join("+")),
        "derive({}) emits an impl for `{}` although it violates {:?}",
        d.tr,
        r.text,
        rules
    );
    ensure!(
        !diags.is_empty(),
        "c10:no-diagnostic",
        "derive({}) emits neither impl nor diagnostics for `{}`",
        d.tr,
        r.text
    );
    // every required violation is reported at the offending tokens
    for x in m.viols.iter().filter(|x| x.required) {
        let hit = diags.iter().any(|(msg, sp)| {
            let placed = x.ranges.is_empty() || x.ranges.iter().any(|rg| inside(*sp, *rg));
            let mentions = x
                .mention
                .as_ref()
                .map(|n| msg.contains(&format!("`{}`", n)))
                .unwrap_or(true);
            placed && mentions
        });
        ensure!(
            hit,
            format!("c10:unreported:{}", x.rule),
            "derive({}) on `{}`: rule {} (tokens {:?}) violated but no diagnostic there; got {:?}",
            d.tr,
            r.text,
            x.rule,
            x.ranges.iter().map(|rg| &r.text[rg.0..rg.1]).collect::<Vec<_>>(),
            diags
        );
    }
    // every diagnostic is explained by some violated rule
    let anywhere = m.viols.iter().any(|x| x.ranges.is_empty());
    for (msg, sp) in &diags {
        let explained = anywhere
            || m.viols
                .iter()
                .any(|x| x.ranges.iter().any(|rg| inside(*sp, *rg)));
        ensure!(
            explained,
            format!("c10:spurious-diagnostic:{}", norm_msg(msg)),
            "derive({}) on `{}`: diagnostic {:?} at {:?} ({:?}) matches no violated rule {:?}",
            d.tr,
            r.text,
            msg,
            sp,
            r.text.get(sp.0..sp.1),
            rules
        );
    }
    Ok(())
}

// ------------------------------------------------------------------------------------------
// generators

fn plain_field(name: &str) -> FieldD {
    FieldD {
        name: Some(name.into()),
        ty: "u8".into(),
        attrs: vec![],
    }
}

fn base_container(tr: &str) -> Attrs {
    if is_element_level(tr) {
        vec![vec![valid_forms("attributes")[0].clone()]]
    } else {
        vec![]
    }
}

/// All ways to split a sequence of n options over consecutive attributes.
fn splits(opts: &[Opt]) -> Vec<Attrs> {
    let n = opts.len();
    if n == 0 {
        return vec![vec![]];
    }
    let mut out = vec![];
    for mask in 0..(1u32 << (n - 1)) {
        let mut attrs: Attrs = vec![vec![opts[0].clone()]];
        for i in 1..n {
            if mask & (1 << (i - 1)) != 0 {
                attrs.push(vec![opts[i].clone()]);
            } else {
                attrs.last_mut().unwrap().push(opts[i].clone());
            }
        }
        out.push(attrs);
    }
    out
}

fn tuples(atoms: &[Opt], k: usize) -> Vec<Vec<Opt>> {
    let mut out: Vec<Vec<Opt>> = vec![vec![]];
    for _ in 0..k {
        let mut next = vec![];
        for t in &out {
            for a in atoms {
                let mut t2 = t.clone();
                t2.push(a.clone());
                next.push(t2);
            }
        }
        out = next;
    }
    out
}

/// The exhaustive sub-space: ordered pairs and triples of options per position, every split.
pub fn exhaustive(shard: u64, nshards: u64, triples: bool) -> Vec<Decl> {
    let mut out = vec![];
    let field_atoms: Vec<Opt> = ["rename", "default", "with", "skip", "map", "and_then", "multiple", "flatten", "skip=false", "multiple=false"]
        .iter()
        .map(|n| valid_forms(n)[0].clone())
        .collect();
    let variant_atoms: Vec<Opt> = ["rename", "skip", "word", "skip=false"].iter().map(|n| valid_forms(n)[0].clone()).collect();
    let mut idx = 0u64;
    let mut push = |d: Decl, out: &mut Vec<Decl>| {
        if idx % nshards == shard {
            out.push(d);
        }
        idx += 1;
    };
    let ks: &[usize] = if triples { &[1, 2, 3] } else { &[1, 2] };
    for tr in TRAITS {
        for &k in ks {
            for t in tuples(&field_atoms, k) {
                for attrs in splits(&t) {
                    let f = FieldD {
                        name: Some("a".into()),
                        ty: "u8".into(),
                        attrs,
                    };
                    push(
                        Decl {
                            tr: tr.to_string(),
                            container: base_container(tr),
                            body: BodyD::Struct(Shape::Named(vec![f, plain_field("b")])),
                        },
                        &mut out,
                    );
                }
            }
            // container options of this trait
            let mut catoms: Vec<Opt> = container_vocab(tr)
                .iter()
                .map(|n| {
                    if *n == "supports" && *tr == "FromVariant" {
                        valid_forms("v_supports")[0].clone()
                    } else {
                        valid_forms(n)[0].clone()
                    }
                })
                .collect();
            // one option from another trait's vocabulary, to hit the unknown-option rule
            catoms.push(if *tr == "FromMeta" {
                valid_forms("attributes")[0].clone()
            } else {
                valid_forms("from_word")[0].clone()
            });
            for t in tuples(&catoms, k) {
                for attrs in splits(&t) {
                    push(
                        Decl {
                            tr: tr.to_string(),
                            container: attrs,
                            body: BodyD::Struct(Shape::Named(vec![plain_field("a")])),
                        },
                        &mut out,
                    );
                }
            }
        }
    }
    // variant options (FromMeta), on a unit and on a newtype variant, next to a plain variant
    for &k in &[1usize, 2, 3] {
        for t in tuples(&variant_atoms, k) {
            for attrs in splits(&t) {
                for unit in [true, false] {
                    let v0 = VariantD {
                        name: "A".into(),
                        attrs: attrs.clone(),
                        shape: if unit {
                            Shape::Unit
                        } else {
                            Shape::Tuple(vec![FieldD { name: None, ty: "u8".into(), attrs: vec![] }])
                        },
                    };
                    let v1 = VariantD {
                        name: "B".into(),
                        attrs: vec![],
                        shape: Shape::Unit,
                    };
                    push(
                        Decl {
                            tr: "FromMeta".into(),
                            container: vec![],
                            body: BodyD::Enum(vec![v0, v1]),
                        },
                        &mut out,
                    );
                }
            }
        }
    }
    out
}

fn gen_opt(d: &mut D, vocab: &[&str], variant_supports: bool) -> Opt {
    // 6% a name from outside the vocabulary
    if d.ratio(1, 16) {
        let n = *d.pick(&["bogus", "rename", "flatten", "word", "attributes", "from_word", "supports", "skip", "defualt", "with"]);
        let key = if n == "supports" && variant_supports { "v_supports" } else { n };
        return valid_forms(key)[0].clone();
    }
    // a known word behind a path prefix is another, unknown key (`::map`, `m::skip`)
    if d.ratio(1, 24) {
        let w = *d.pick(vocab);
        let name = if d.ratio(2, 3) { format!("::{}", w) } else { format!("m::{}", w) };
        let text = match d.below(3) {
            0 => name.clone(),
            1 => format!("{} = f", name),
            _ => format!("{} = \"x\"", name),
        };
        return Opt { name, text, valid: true, truthy: false };
    }
    let mut n = *d.pick(vocab);
    let key = if n == "supports" && variant_supports { "v_supports" } else { n };
    if n == "skip" && d.ratio(1, 5) {
        n = "skip=false";
        return valid_forms(n)[0].clone();
    }
    if n == "multiple" && d.ratio(1, 5) {
        let f = valid_forms("multiple=false");
        return d.pick(&f).clone();
    }
    let inv = invalid_forms(key);
    if !inv.is_empty() && d.ratio(1, 9) {
        return d.pick(&inv).clone();
    }
    let f = valid_forms(key);
    d.pick(&f).clone()
}

fn gen_attrs(d: &mut D, vocab: &[&str], max: usize, variant_supports: bool) -> Attrs {
    let n = d.weighted(&[5, 5, 4, 3, 2, 1]).min(max);
    let mut attrs: Attrs = vec![];
    for i in 0..n {
        let op = gen_opt(d, vocab, variant_supports);
        if i == 0 || d.ratio(1, 3) {
            attrs.push(vec![op]);
        } else {
            attrs.last_mut().unwrap().push(op);
        }
    }
    attrs
}

fn gen_fields(d: &mut D, tr: &str, named: bool, magic: bool, max: usize) -> Vec<FieldD> {
    let n = d.range(if named { 0 } else { 1 }, max);
    let mut out = vec![];
    let mut used: Vec<String> = vec![];
    for i in 0..n {
        let mut name = format!("f{}", i);
        let mut attrs = gen_attrs(d, FIELD_VOCAB, 5, false);
        if named && magic && d.ratio(1, 4) {
            let fw = forwarded_names(tr);
            let pt = passthrough_names(tr);
            if !fw.is_empty() && d.bool() {
                let n = *d.pick(&fw);
                if !used.iter().any(|u| u == n) {
                    name = n.to_string();
                    attrs = gen_attrs(d, &["with"], 2, false);
                    // forwarded fields take `with = path` in a different set of spellings
                    for a in attrs.iter_mut() {
                        for op in a.iter_mut() {
                            if op.name == "with" {
                                let forms = if op.valid { valid_forms("fwd_with") } else { invalid_forms("fwd_with") };
                                *op = d.pick(&forms).clone();
                            }
                        }
                    }
                }
            } else if !pt.is_empty() {
                let n = *d.pick(&pt);
                if !used.iter().any(|u| u == n) {
                    name = n.to_string();
                    attrs = vec![];
                }
            }
        }
        // a name that is a pass-through field of *another* trait is an ordinary field here: its options are read and
        // validated like any field's (`ident` and `attrs` are left out: the shared front end reads them for every trait)
        if named && name.starts_with('f') && d.ratio(1, 8) {
            let here: Vec<&str> = forwarded_names(tr).into_iter().chain(passthrough_names(tr)).collect();
            let foreign: Vec<&str> = ["vis", "generics", "ty", "data", "discriminant", "fields", "bounds", "default"].into_iter().filter(|n| !here.contains(n)).collect();
            if !foreign.is_empty() {
                let n = *d.pick(&foreign);
                if !used.iter().any(|u| u == n) {
                    name = n.to_string();
                }
            }
        }
        used.push(name.clone());
        out.push(FieldD {
            name: if named { Some(name) } else { None },
            ty: d.pick(&["u8", "String", "Vec<u8>", "Option<T>", "syn::Ident", "Vec<syn::Attribute>"]).to_string(),
            attrs,
        });
    }
    out
}

/// Declarations in which a cross-field rule is violated next to otherwise clean, fully set-up receivers (magic
/// fields present, forwarding declared): rules checked by one validator must not be skipped because another
/// validator was satisfied.
fn gen_cross_rule_decl(d: &mut D) -> Decl {
    let tr = d.pick(TRAITS).to_string();
    let mut container: Attrs = vec![];
    let mut fields: Vec<FieldD> = vec![];
    if is_element_level(&tr) {
        container.push(vec![valid_forms("attributes")[0].clone()]);
        if d.ratio(2, 3) {
            container.push(vec![d.pick(&valid_forms("forward_attrs")).clone()]);
            fields.push(FieldD { name: Some("attrs".into()), ty: "Vec<syn::Attribute>".into(), attrs: vec![] });
        }
        for n in passthrough_names(&tr) {
            if d.ratio(1, 3) && !fields.iter().any(|f| f.name.as_deref() == Some(n)) {
                fields.push(FieldD { name: Some(n.to_string()), ty: "syn::Ident".into(), attrs: vec![] });
            }
        }
    }
    // two or three flatten fields, or flatten next to a conflicting option on another field
    let k = d.range(2, 3);
    for i in 0..k {
        let forms = valid_forms("flatten");
        fields.push(FieldD { name: Some(format!("fl{}", i)), ty: "Inner".into(), attrs: vec![vec![d.pick(&forms).clone()]] });
    }
    if d.bool() {
        fields.push(FieldD { name: Some("plain".into()), ty: "u8".into(), attrs: gen_attrs(d, FIELD_VOCAB, 2, false) });
    }
    // declaration order is part of the space
    if d.bool() {
        fields.reverse();
    }
    Decl { tr, container, body: BodyD::Struct(Shape::Named(fields)) }
}

pub fn gen_decl(d: &mut D) -> Decl {
    if d.ratio(1, 25) {
        return gen_cross_rule_decl(d);
    }
    let tr = d.pick(TRAITS).to_string();
    let vocab = container_vocab(&tr);
    let mut container = gen_attrs(d, &vocab, 5, tr == "FromVariant");
    if is_element_level(&tr) && d.ratio(5, 6) && !container.iter().flatten().any(|o| o.name == "attributes") {
        container.insert(0, vec![valid_forms("attributes")[0].clone()]);
    }
    let body = match d.weighted(&[8, 1, 2, 2, if tr == "FromMeta" { 7 } else { 1 }, 1]) {
        0 => BodyD::Struct(Shape::Named(gen_fields(d, &tr, true, true, 4))),
        1 => BodyD::Struct(Shape::Unit),
        2 => BodyD::Struct(Shape::Tuple(gen_fields(d, &tr, false, false, 1))),
        3 => {
            if tr == "FromMeta" {
                // n-tuples: 0, 2 or 3 fields
                let n = *d.pick(&[0usize, 2, 3]);
                let mut fs = vec![];
                for _ in 0..n {
                    fs.push(FieldD { name: None, ty: "u8".into(), attrs: vec![] });
                }
                BodyD::Struct(Shape::Tuple(fs))
            } else {
                BodyD::Struct(Shape::Named(gen_fields(d, &tr, true, true, 3)))
            }
        }
        4 => {
            let n = d.range(0, 4);
            let mut vs = vec![];
            for i in 0..n {
                let shape = match d.weighted(&[4, 3, 1, 3]) {
                    0 => Shape::Unit,
                    1 => Shape::Tuple(gen_fields(d, &tr, false, false, 1)),
                    2 => {
                        let k = *d.pick(&[0usize, 2]);
                        Shape::Tuple((0..k).map(|_| FieldD { name: None, ty: "u8".into(), attrs: vec![] }).collect())
                    }
                    _ => Shape::Named(gen_fields(d, &tr, true, false, 3)),
                };
                vs.push(VariantD {
                    name: format!("V{}", i),
                    attrs: gen_attrs(d, VARIANT_VOCAB, 4, false),
                    shape,
                });
            }
            BodyD::Enum(vs)
        }
        _ => BodyD::Union(gen_fields(d, &tr, true, false, 2)),
    };
    Decl { tr, container, body }
}

pub fn check_bytes(ctx: &Ctx, bytes: &Vec<u8>) -> Result<(), Fail> {
    let mut d = D::new(bytes);
    let decl = gen_decl(&mut d);
    check(ctx, &decl)
}

pub fn run(args: &Args) -> bool {
    let replay_step = args.replay.as_ref().map(|p| vmodel::ev::load_replay_case(p));
    let mut ok = true;
    let want = |s: &str| replay_step.as_ref().map(|(st, _)| st == s).unwrap_or(true);
    let rule = "structured receiver declarations rendered to source text with the byte range of every option; oracle = rule table from the property statement giving the violated rules (allowed) and those certain to be reported (required): impl iff none violated, else no impl, every required rule has a diagnostic inside the offending tokens, every diagnostic lies inside the tokens of some violated rule. Non-trivial: >=2 options on one element with >=1 violated rule, or a cross-element rule; distinct by structural hash";
    if want("exhaustive") {
        let ctx = Ctx::new("C10", "exhaustive", vmodel::ev::mix_seed(args.seed, "C10", "exhaustive", args.shard), args);
        ctx.set_rule(&format!("{} [exhaustive: all ordered 1-, 2- and 3-tuples of the 10 field atoms / the container options of each derive / the 4 variant atoms, in every split over attributes]", rule));
        if let Some((_, case)) = &replay_step {
            let d: Decl = serde_json::from_value(case.clone()).expect("bad replay");
            ok &= run_list(&ctx, vec![d], check);
        } else {
            let nshards: u64 = args.extra.get("nshards").and_then(|s| s.parse().ok()).unwrap_or(1);
            let triples = args.extra.get("triples").map(|s| s == "1").unwrap_or(true);
            ok &= run_list(&ctx, exhaustive(args.shard, nshards, triples), check);
            ctx.set_exhaustive(true);
        }
        ctx.finish();
    }
    if want("random") {
        let ctx = Ctx::new("C10", "random", vmodel::ev::mix_seed(args.seed, "C10", "random", args.shard), args);
        ctx.set_rule(&format!("{} [random: 0..5 options per element incl. invalid values and foreign names, several fields/variants, magic fields, all body shapes]", rule));
        if let Some((_, case)) = &replay_step {
            let bytes: Vec<u8> = serde_json::from_value(case.clone()).expect("bad replay");
            ok &= run_list(&ctx, vec![bytes], check_bytes);
        } else {
            ok &= run_prop(&ctx, args.cases as u32, prop::collection::vec(any::<u8>(), 0..300), check_bytes);
        }
        ctx.finish();
    }
    ok
}
