//! C15: (a) `NestedMeta::parse_meta_list` accepts exactly comma-separated literals and meta items,
//! keeps order, classifies, and round-trips; (b) every meta form is routed to exactly one hook for
//! each of the 2^7 override patterns of a probe implementer.

use crate::probes;
use darling_core::ast::NestedMeta;
use proptest::prelude::*;
use serde::{Deserialize, Serialize};
use serde_json::json;
use vmodel::dec::D;
use vmodel::ev::{run_list, run_prop, Args, Ctx, Fail};
use vmodel::util::{canon_tokens, catch, fresh_spans, inside, range};
use vmodel::{ensure, fail};

// ------------------------------------------------------------------------------------------
// part a

#[derive(Clone, Debug, Serialize, Deserialize, Hash, PartialEq, Eq)]
pub struct El {
    pub text: String,
    pub is_lit: bool,
    /// how the element ends / starts, for the provable-invalidity rules of mutations
    pub ends_simple: bool,
    pub starts_ident_or_lit: bool,
}

const LITS: &[&str] = &[
    "\"s\"", "r\"raw\"", "r#\"ra\"w\"#", "b\"bytes\"", "b'x'", "'c'", "5", "5u8", "0xff_u16", "1.5", "1e3f64", "true", "false",
    "c\"cstr\"", "\"\"", "'\\n'", "340282366920938463463374607431768211456", "-5", "-1.5", "-0x1f",
    // strings whose text reads like a value of another kind: still strings, routed by form
    "\"true\"", "\"false\"", "r\"true\"", "\"5\"", "\"c\"", "\"1.5\"", "\"a::b\"", "\"[1, 2]\"",
];
const PATHS: &[&str] = &[
    "a", "b", "lorem", "a::b", "::a", "::a::b::c", "r#type", "self", "Self", "super", "crate", "crate::x", "self::y", "super::super::z", "r#fn::k",
];
const EXPRS: &[&str] = &[
    "1", "-5", "-1.5", "\"v\"", "\"true\"", "\"false\"", "true", "x", "a::b", "x + 1", "f(1, 2)", "[1, 2, 3]", "(1, 2)", "|x, y| x", "|| 3", "x::<A, B>()", "if c { 1 } else { 2 }",
    "S { x: 1, y: 2 }", "m!(a, b; c)", "1..", "..=5", "&x", "x.y(z, w)", "{ let q = 1; q }", "x as u8", "b'x'", "x = y", "match v { _ => 1, }",
    "<T as Tr<A, B>>::C", "!x", "x?.y", "a < b", "[0u8; 4]", "move |a: u8, b: u8| -> u8 { a + b }",
];

pub fn gen_el(d: &mut D, depth: usize) -> El {
    if d.ratio(1, 4) {
        let l = d.pick(LITS).to_string();
        // `x -5` would splice into a subtraction: a negative literal does not "start with a literal"
        let starts = !l.starts_with('-');
        return El { text: l, is_lit: true, ends_simple: true, starts_ident_or_lit: starts };
    }
    let p = d.pick(PATHS).to_string();
    let starts = !p.starts_with("::");
    match d.weighted(&[3, 4, if depth < 4 { 4 } else { 0 }]) {
        0 => El { text: p, is_lit: false, ends_simple: true, starts_ident_or_lit: starts },
        1 => {
            let e = d.pick(EXPRS).to_string();
            let simple = e.chars().all(|c| c.is_ascii_alphanumeric() || c == '"' || c == '\'' || c == '.') && !e.ends_with("..");
            El { text: format!("{} = {}", p, e), is_lit: false, ends_simple: simple, starts_ident_or_lit: starts }
        }
        _ => {
            let inner = gen_list(d, depth + 1);
            let (o, c) = *d.pick(&[("(", ")"), ("(", ")"), ("[", "]"), ("{", "}")]);
            El { text: format!("{}{}{}{}", p, o, render(&inner, d.bool()), c), is_lit: false, ends_simple: true, starts_ident_or_lit: starts }
        }
    }
}

pub fn gen_list(d: &mut D, depth: usize) -> Vec<El> {
    let n = d.weighted(&[2, 4, 4, 3, 2, 1]);
    (0..n).map(|_| gen_el(d, depth)).collect()
}

pub fn render(els: &[El], trailing: bool) -> String {
    let mut s = els.iter().map(|e| e.text.clone()).collect::<Vec<_>>().join(", ");
    if trailing && !els.is_empty() {
        s.push(',');
    }
    s
}

fn canon_of_text(t: &str) -> Result<String, Fail> {
    match t.parse::<proc_macro2::TokenStream>() {
        Ok(ts) => Ok(canon_tokens(ts)),
        Err(e) => Err(Fail::new("c15:harness-render", format!("`{}` does not lex: {}", t, e))),
    }
}

fn parse_list(src: &str) -> Result<Result<Vec<NestedMeta>, String>, Fail> {
    let ts: proc_macro2::TokenStream = match src.parse() {
        Ok(t) => t,
        Err(e) => return Err(Fail::new("c15:harness-render", format!("`{}` does not lex: {}", src, e))),
    };
    match catch(|| NestedMeta::parse_meta_list(ts)) {
        Ok(r) => Ok(r.map_err(|e| e.to_string())),
        Err(p) => Err(Fail::new("c15:panic", format!("parse_meta_list(`{}`) panicked: {}", src, p))),
    }
}

fn roundtrip(items: &[NestedMeta], src: &str) -> Result<(), Fail> {
    let printed = quote::quote!(#(#items),*);
    let again = match catch(|| NestedMeta::parse_meta_list(printed.clone())) {
        Ok(Ok(v)) => v,
        Ok(Err(e)) => fail!("c15:roundtrip-rejected", "printing the parse of `{}` gives `{}`, which is rejected: {}", src, printed, e),
        Err(p) => fail!("c15:panic", "re-parsing `{}` panicked: {}", printed, p),
    };
    ensure!(again.len() == items.len(), "c15:roundtrip-count", "`{}`: {} items, {} after print+parse", src, items.len(), again.len());
    for (a, b) in items.iter().zip(again.iter()) {
        let (ca, cb) = (canon_tokens(quote::quote!(#a)), canon_tokens(quote::quote!(#b)));
        ensure!(ca == cb, "c15:roundtrip-changed", "`{}`: item `{}` became `{}` after print+parse", src, ca, cb);
        ensure!(
            matches!(a, NestedMeta::Lit(_)) == matches!(b, NestedMeta::Lit(_)),
            "c15:roundtrip-class",
            "`{}`: item `{}` changed class after print+parse",
            src, ca
        );
    }
    Ok(())
}

pub fn check_valid(ctx: &Ctx, els: &[El], trailing: bool) -> Result<(), Fail> {
    fresh_spans();
    let src = render(els, trailing);
    ctx.set_render(json!(src));
    let items = match parse_list(&src)? {
        Ok(v) => v,
        Err(e) => fail!("c15:valid-list-rejected", "parse_meta_list rejects the valid list `{}`: {}", src, e),
    };
    ensure!(items.len() == els.len(), "c15:item-count", "`{}` has {} elements, parse gave {}", src, els.len(), items.len());
    if let Ok(ts) = src.parse::<proc_macro2::TokenStream>() {
        agree_with_meta_list_entry(&src, &ts, &Ok(items.clone()))?;
    }
    for (i, (it, el)) in items.iter().zip(els.iter()).enumerate() {
        let is_lit = matches!(it, NestedMeta::Lit(_));
        ensure!(
            is_lit == el.is_lit,
            if el.is_lit { "c15:literal-classified-as-item" } else { "c15:item-classified-as-literal" },
            "`{}`: element {} `{}` classified as {}",
            src, i, el.text, if is_lit { "literal" } else { "meta item" }
        );
        let want = canon_of_text(&el.text)?;
        let got = canon_tokens(quote::quote!(#it));
        ensure!(got == want, "c15:order-or-content", "`{}`: element {} is `{}`, expected `{}`", src, i, got, want);
    }
    roundtrip(&items, &src)?;
    if els.len() >= 2 || els.iter().any(|e| e.text.contains('(') || e.text.contains("::")) {
        ctx.nontrivial(&src);
    }
    ctx.class(&format!("valid:len{}", els.len().min(5)));
    ctx.sample(|| json!({"list": src}));
    Ok(())
}

#[derive(Clone, Debug, Serialize, Deserialize)]
pub struct Mutant {
    pub src: String,
    pub kind: String,
    pub provably_invalid: bool,
}

pub fn mutate(d: &mut D, els: &[El]) -> Mutant {
    let n = els.len();
    let texts: Vec<String> = els.iter().map(|e| e.text.clone()).collect();
    let join = |v: &[String]| v.join(", ");
    match d.below(9) {
        0 if n >= 1 => {
            let i = d.below(n);
            let mut t = texts.clone();
            t[i] = format!("{},", t[i]);
            // doubled comma (also at the end: `a,,`)
            Mutant { src: join(&t) + if i == n - 1 { "," } else { "" }, kind: "doubled-comma".into(), provably_invalid: true }
        }
        1 => Mutant { src: format!(", {}", join(&texts)), kind: "leading-comma".into(), provably_invalid: true },
        2 if n >= 1 => {
            let i = d.below(n);
            let p = *d.pick(&[";", "#", "@", "$", "!"]);
            let mut t = texts.clone();
            t[i] = format!("{} {}", t[i], p);
            // `!` after a word could start a macro path only with a following group; alone it is invalid
            Mutant { src: join(&t), kind: format!("stray-{}", p), provably_invalid: els[i].ends_simple }
        }
        3 if n >= 1 => {
            let i = d.below(n);
            let mut t = texts.clone();
            t[i] = "k =".to_string();
            Mutant { src: join(&t), kind: "missing-value".into(), provably_invalid: true }
        }
        4 if n >= 2 => {
            let i = d.below(n - 1);
            let mut s = String::new();
            for (k, t) in texts.iter().enumerate() {
                s.push_str(t);
                if k + 1 < n {
                    s.push_str(if k == i { " " } else { ", " });
                }
            }
            let provable = els[i].ends_simple && els[i + 1].starts_ident_or_lit && !els[i].text.ends_with("..");
            Mutant { src: s, kind: "dropped-comma".into(), provably_invalid: provable }
        }
        5 if n >= 1 => {
            // a reserved word where a path is required
            let i = d.below(n);
            let mut t = texts.clone();
            t[i] = d.pick(&["type = 1", "fn(x)", "true = 1", "struct", "match(a)", "false(x)"]).to_string();
            Mutant { src: join(&t), kind: "reserved-word".into(), provably_invalid: true }
        }
        7 => {
            let mut t = texts.clone();
            t.push(d.pick(&["(a)", "= 5", "[x]", "::", "a::", "a = = 1", "a(b", "'life"]).to_string());
            Mutant { src: join(&t), kind: "malformed-element".into(), provably_invalid: true }
        }
        _ => Mutant { src: format!("{} {}", join(&texts), d.pick(&["a", "\"x\"", "5"])), kind: "trailing-element-no-comma".into(), provably_invalid: n >= 1 && els[n - 1].ends_simple },
    }
}

/// The second way into the splitter: the contents of a `syn::MetaList` (`w( .. )`, what nested lists, attributes
/// and struct-variant bodies go through). It must agree with `parse_meta_list` on the same tokens.
fn agree_with_meta_list_entry(src: &str, ts: &proc_macro2::TokenStream, direct: &syn::Result<Vec<NestedMeta>>) -> Result<(), Fail> {
    let list = syn::MetaList {
        path: syn::parse_str("w").unwrap(),
        delimiter: syn::MacroDelimiter::Paren(Default::default()),
        tokens: ts.clone(),
    };
    let via = match catch(|| NestedMeta::parse_meta_list_of(&list)) {
        Ok(r) => r,
        Err(p) => fail!("c15:panic", "parse_meta_list_of(`w({})`) panicked: {}", src, p),
    };
    match (direct, &via) {
        (Ok(a), Ok(b)) => {
            let pa: Vec<String> = a.iter().map(|x| canon_tokens(quote::quote!(#x))).collect();
            let pb: Vec<String> = b.iter().map(|x| canon_tokens(quote::quote!(#x))).collect();
            ensure!(pa == pb, "c15:entries-disagree:items", "`{}`: parse_meta_list gives {:?}, parse_meta_list_of(w(..)) gives {:?}", src, pa, pb);
        }
        (Err(_), Err(_)) => {}
        (Ok(a), Err(e)) => fail!("c15:entries-disagree:rejected-as-meta-list", "`{}` splits into {} items as a token stream but `w({})` is rejected: {}", src, a.len(), src, e),
        (Err(e), Ok(b)) => fail!("c15:entries-disagree:accepted-as-meta-list", "`{}` is rejected as a token stream ({}) but `w({})` splits into {} items", src, e, src, b.len()),
    }
    Ok(())
}

pub fn check_mutant(ctx: &Ctx, m: &Mutant) -> Result<(), Fail> {
    fresh_spans();
    ctx.set_render(json!(m));
    let ts: proc_macro2::TokenStream = match m.src.parse() {
        Ok(t) => t,
        Err(_) => {
            ctx.class("mutant:does-not-lex");
            return Ok(());
        }
    };
    let r = match catch(|| NestedMeta::parse_meta_list(ts.clone())) {
        Ok(r) => r,
        Err(p) => fail!("c15:panic", "parse_meta_list(`{}`) panicked: {}", m.src, p),
    };
    agree_with_meta_list_entry(&m.src, &ts, &r)?;
    ctx.class(&format!("mutant:{}:{}", m.kind.split('-').next().unwrap_or(""), if r.is_ok() { "accepted" } else { "rejected" }));
    match r {
        Ok(items) => {
            ensure!(
                !m.provably_invalid,
                format!("c15:invalid-list-accepted:{}", m.kind),
                "parse_meta_list accepts `{}` ({}) as {} items",
                m.src, m.kind, items.len()
            );
            roundtrip(&items, &m.src)?;
        }
        Err(_) => {}
    }
    if m.provably_invalid {
        ctx.nontrivial(&m.src);
    }
    ctx.sample(|| json!(m));
    Ok(())
}

pub fn check_list_bytes(ctx: &Ctx, bytes: &Vec<u8>) -> Result<(), Fail> {
    let mut d = D::new(bytes);
    let els = gen_list(&mut d, 0);
    let trailing = d.bool();
    check_valid(ctx, &els, trailing)?;
    ctx.eval();
    let m = mutate(&mut d, &els);
    check_mutant(ctx, &m)
}

// ------------------------------------------------------------------------------------------
// part b: routing

#[derive(Clone, Debug, Serialize, Deserialize, Hash, PartialEq, Eq)]
pub struct Route {
    pub mask: u8,
    /// index into FORMS
    pub form: usize,
    pub grouped: bool,
    pub mode: u8,
    pub nested_position: bool,
    /// with `grouped`: 0 = an invisible group in the token stream (syn decides what arrives), 1..3 = that many
    /// `Expr::Group` layers built as syntax-tree nodes around the value
    #[serde(default)]
    pub depth: u8,
}

pub struct Form {
    pub src: &'static str,
    /// hook chain from most general to most specific
    pub chain: &'static [&'static str],
    pub default_msg: &'static str,
    pub is_lit: bool,
}

pub const FORMS: &[Form] = &[
    Form { src: "p", chain: &["word"], default_msg: "Unexpected meta-item format `word`", is_lit: false },
    Form { src: "p(a, \"b\", c = 1)", chain: &["list:3"], default_msg: "Unexpected meta-item format `list`", is_lit: false },
    Form { src: "p()", chain: &["list:0"], default_msg: "Unexpected meta-item format `list`", is_lit: false },
    Form { src: "p[x, y]", chain: &["list:2"], default_msg: "Unexpected meta-item format `list`", is_lit: false },
    Form { src: "p = true", chain: &["expr", "value", "bool"], default_msg: "Unexpected type `bool`", is_lit: true },
    Form { src: "p = \"s\"", chain: &["expr", "value", "string"], default_msg: "Unexpected type `string`", is_lit: true },
    // a string is a string whatever its text reads like: routed by form, never by content
    Form { src: "p = \"true\"", chain: &["expr", "value", "string"], default_msg: "Unexpected type `string`", is_lit: true },
    Form { src: "p = r\"false\"", chain: &["expr", "value", "string"], default_msg: "Unexpected type `string`", is_lit: true },
    Form { src: "p = \"5\"", chain: &["expr", "value", "string"], default_msg: "Unexpected type `string`", is_lit: true },
    Form { src: "p = \"c\"", chain: &["expr", "value", "string"], default_msg: "Unexpected type `string`", is_lit: true },
    Form { src: "p = 'c'", chain: &["expr", "value", "char"], default_msg: "Unexpected type `char`", is_lit: true },
    Form { src: "p = 5", chain: &["expr", "value"], default_msg: "Unexpected type `int`", is_lit: true },
    Form { src: "p = 1.5", chain: &["expr", "value"], default_msg: "Unexpected type `float`", is_lit: true },
    Form { src: "p = b\"x\"", chain: &["expr", "value"], default_msg: "Unexpected type `byte string`", is_lit: true },
    Form { src: "p = b'x'", chain: &["expr", "value"], default_msg: "Unexpected type `byte`", is_lit: true },
    Form { src: "p = a + b", chain: &["expr"], default_msg: "Unexpected type `binary`", is_lit: false },
    Form { src: "p = x", chain: &["expr"], default_msg: "Unexpected type `path`", is_lit: false },
    Form { src: "p = [1, 2]", chain: &["expr"], default_msg: "Unexpected type `array`", is_lit: false },
    Form { src: "p = |a| a", chain: &["expr"], default_msg: "Unexpected type `closure`", is_lit: false },
];

/// Build the meta item; with `grouped` the value of a name-value item is wrapped in an invisible group.
fn build_meta(form: &Form, grouped: bool, depth: u8) -> Result<(syn::Meta, (usize, usize)), Fail> {
    use syn::spanned::Spanned;
    let m: syn::Meta = syn::parse_str(form.src).map_err(|e| Fail::new("c15:harness-render", format!("{}: {}", form.src, e)))?;
    let whole = range(m.span());
    if grouped && depth > 0 {
        if let syn::Meta::NameValue(nv) = &m {
            let mut v = nv.value.clone();
            for _ in 0..depth {
                let sp = v.span();
                v = syn::Expr::Group(syn::ExprGroup { attrs: vec![], group_token: syn::token::Group { span: sp }, expr: Box::new(v) });
            }
            return Ok((syn::Meta::NameValue(syn::MetaNameValue { path: nv.path.clone(), eq_token: nv.eq_token, value: v }), whole));
        }
    }
    if grouped {
        if let syn::Meta::NameValue(nv) = &m {
            let v = &nv.value;
            let mut g = proc_macro2::Group::new(proc_macro2::Delimiter::None, quote::quote!(#v));
            g.set_span(v.span());
            let path = &nv.path;
            let eq = &nv.eq_token;
            let ts = quote::quote!(#path #eq #g);
            let m2: syn::Meta = syn::parse2(ts).map_err(|e| Fail::new("c15:harness-render", format!("grouped {}: {}", form.src, e)))?;
            // (syn looks through an invisible group around a lone literal and hands over the literal
            // itself; around anything else the value arrives as Expr::Group)
            return Ok((m2, whole));
        }
    }
    Ok((m, whole))
}

pub fn check_route(ctx: &Ctx, r: &Route) -> Result<(), Fail> {
    fresh_spans();
    let form = &FORMS[r.form % FORMS.len()];
    ctx.set_render(json!({"overridden": (0..7).filter(|i| r.mask & (1 << i) != 0).map(|i| probes::HOOK_NAMES[i]).collect::<Vec<_>>(), "item": form.src, "grouped": r.grouped, "group_depth": r.depth, "mode": r.mode, "nested_literal_position": r.nested_position}));
    let nested_lit = r.nested_position && form.is_lit && !r.grouped;
    let (meta, whole) = build_meta(form, r.grouped, r.depth)?;
    let own: proc_macro2::TokenStream = " ownspan".parse().unwrap();
    let own_span = own.into_iter().next().unwrap().span();
    probes::LOG.with(|l| l.borrow_mut().clear());
    probes::MODE.with(|m| *m.borrow_mut() = r.mode % 3);
    probes::OWN_SPAN.with(|s| *s.borrow_mut() = Some(own_span));
    // the chain for this entry point
    let mut chain: Vec<&str> = form.chain.to_vec();
    let got = if nested_lit {
        // a literal in nested position skips the expression hook
        chain.retain(|h| *h != "expr");
        let lit = match &meta {
            syn::Meta::NameValue(nv) => match &nv.value {
                syn::Expr::Lit(l) => l.lit.clone(),
                _ => unreachable!(),
            },
            _ => unreachable!(),
        };
        let nm = NestedMeta::Lit(lit);
        catch(|| probes::call_nested(r.mask & 127, &nm))
    } else if r.nested_position {
        let nm = NestedMeta::Meta(meta.clone());
        catch(|| probes::call_nested(r.mask & 127, &nm))
    } else {
        catch(|| probes::call_meta(r.mask & 127, &meta))
    };
    let got = match got {
        Ok(g) => g,
        Err(p) => fail!("c15:panic", "probe {:#09b} on `{}` panicked: {}", r.mask, form.src, p),
    };
    let log: Vec<String> = probes::LOG.with(|l| l.borrow().clone());
    let overridden = |h: &str| {
        let base = h.split(':').next().unwrap();
        let i = probes::HOOK_NAMES.iter().position(|n| *n == base).unwrap();
        r.mask & (1 << i) != 0
    };
    let expected_hook = chain.iter().find(|h| overridden(h)).cloned();
    ctx.class(&format!("form:{}", form.src));
    ctx.class(if expected_hook.is_some() { "routed-to-hook" } else { "default-rejection" });
    if r.grouped {
        ctx.class("invisible-group");
    }
    ctx.nontrivial(r);
    ctx.sample(|| json!({"mask": r.mask, "item": form.src, "grouped": r.grouped, "mode": r.mode, "log": log}));
    match expected_hook {
        Some(h) => {
            ensure!(
                log == vec![h.to_string()],
                if log.len() > 1 { "c15:several-hooks" } else if log.is_empty() { "c15:no-hook" } else { "c15:wrong-hook" },
                "probe overriding {:?} on `{}`{}: hooks called {:?}, expected exactly [{}]",
                (0..7).filter(|i| r.mask & (1 << i) != 0).map(|i| probes::HOOK_NAMES[i]).collect::<Vec<_>>(),
                form.src, if r.grouped { " (invisible group)" } else { "" }, log, h
            );
            match (r.mode % 3, &got) {
                (0, Ok(tag)) => ensure!(*tag == h.split(':').next().unwrap(), "c15:wrong-result", "result tag {} from hook {}", tag, h),
                (0, Err(e)) => fail!("c15:hook-ok-but-error", "hook {} succeeded but the conversion failed: {}", h, e),
                (_, Ok(_)) => fail!("c15:hook-error-swallowed", "hook {} failed but the conversion succeeded", h),
                (1, Err(e)) => {
                    // unspanned hook error: comes back carrying the item's span
                    match e.explicit_span() {
                        None => fail!("c15:hook-error-unspanned", "error of hook {} on `{}` came back without a span", h, form.src),
                        Some(s) => {
                            ensure!(inside(range(s), whole), "c15:hook-error-span-outside-item", "error of hook {} spans {:?}, item is {:?}", h, range(s), whole);
                            // the expression hook sits directly below the dispatcher: its unspanned error gets *the item's* span
                            if h == "expr" {
                                ensure!(range(s) == whole, "c15:hook-error-span-not-the-item", "error of the expression hook on `{}` spans {:?}, the item is {:?}", form.src, range(s), whole);
                            }
                        }
                    }
                    ensure!(e.to_string().starts_with("probe-error:"), "c15:hook-error-replaced", "error text {:?}", e.to_string());
                }
                (_, Err(e)) => {
                    let s = e.explicit_span().map(range);
                    ensure!(s == Some(range(own_span)), "c15:hook-span-replaced", "hook {} attached its own span {:?} but the error came back with {:?}", h, range(own_span), s);
                }
            }
        }
        None => {
            ensure!(log.is_empty(), "c15:hook-called-unexpectedly", "no overridden hook on the chain {:?} for `{}` but {:?} were called", chain, form.src, log);
            match &got {
                Ok(t) => fail!("c15:default-accepts", "no hook on the chain for `{}` but the conversion succeeded with {}", form.src, t),
                Err(e) => {
                    ensure!(
                        e.to_string() == form.default_msg,
                        "c15:default-error-kind",
                        "default rejection of `{}` reads {:?}, documented {:?}",
                        form.src, e.to_string(), form.default_msg
                    );
                    match e.explicit_span() {
                        None => fail!("c15:default-error-unspanned", "default rejection of `{}` carries no span", form.src),
                        Some(s) => ensure!(inside(range(s), whole), "c15:default-error-span", "default rejection spans {:?}, item {:?}", range(s), whole),
                    }
                }
            }
        }
    }
    Ok(())
}

pub fn all_routes() -> Vec<Route> {
    let mut v = vec![];
    for mask in 0..128u8 {
        for form in 0..FORMS.len() {
            for grouped in [false, true] {
                if grouped && !FORMS[form].src.contains(" = ") {
                    continue;
                }
                for depth in 0..4u8 {
                    if depth > 0 && !grouped {
                        continue;
                    }
                    for mode in 0..3u8 {
                        for nested_position in [false, true] {
                            v.push(Route { mask, form, grouped, mode, nested_position, depth });
                        }
                    }
                }
            }
        }
    }
    v
}

pub fn run(args: &Args) -> bool {
    let replay = args.replay.as_ref().map(|p| vmodel::ev::load_replay_case(p));
    let want = |s: &str| replay.as_ref().map(|(st, _)| st == s).unwrap_or(true);
    let mut ok = true;
    if want("lists") {
        let ctx = Ctx::new("C15", "lists", vmodel::ev::mix_seed(args.seed, "C15", "lists", args.shard), args);
        ctx.set_rule("part a: lists valid by construction (20 literal spellings incl. negative numbers, 15 path shapes incl. global/keyword/raw, 32 value expressions incl. ones with top-level commas, 3 delimiters, depth<=4, optional trailing comma) must parse, keep order, classify, and print+parse to the same tokens; one single-token mutation per list (doubled/leading comma, stray punctuation, missing value, dropped comma, reserved word, bare negative, malformed element) must be rejected where the generator can prove invalidity, otherwise only not panic and round-trip. Non-trivial: >=2 elements or nesting/paths; provably invalid mutants; distinct by source");
        if let Some((_, case)) = &replay {
            let b: Vec<u8> = serde_json::from_value(case.clone()).expect("bad replay");
            ok &= run_list(&ctx, vec![b], check_list_bytes);
        } else {
            ok &= run_prop(&ctx, args.cases as u32, prop::collection::vec(any::<u8>(), 0..200), check_list_bytes);
        }
        ctx.finish();
    }
    if want("routing") {
        let ctx = Ctx::new("C15", "routing", vmodel::ev::mix_seed(args.seed, "C15", "routing", args.shard), args);
        ctx.set_rule("part b: all 128 override patterns of a probe FromMeta implementer x 19 item forms (word, 3 lists, 7 literal kinds, 4 strings whose text reads like a boolean / number / character, 4 non-literal expressions) x plain / invisible group (in the token stream, and 1-3 Expr::Group layers built as syntax-tree nodes) x hook outcome (ok, unspanned error, error with own span) x from_meta / from_nested_meta (literals also in nested-literal position): exactly the most general overridden hook on the documented chain is called once, otherwise the documented default error; errors come back spanned inside the item unless the hook attached its own span; the default rejection of each of 36 expression kinds names the kind (syn variant name in snake case). Exhaustive.");
        if let Some((_, case)) = &replay {
            let r: Route = serde_json::from_value(case.clone()).expect("bad replay");
            ok &= run_list(&ctx, vec![r], check_route);
        } else {
            ok &= run_list(&ctx, all_routes(), check_route);
            // an implementer that overrides the dispatcher itself receives every meta item, whatever its form and
            // whichever entry point it came through
            ok &= run_list(&ctx, (0..FORMS.len()).collect::<Vec<usize>>(), |ctx, k| {
                fresh_spans();
                let form = &FORMS[*k];
                ctx.set_render(json!({"from_meta_override": form.src}));
                let items = match NestedMeta::parse_meta_list(form.src.parse().unwrap()) {
                    Ok(i) => i,
                    Err(e) => fail!("c15:harness-render", "{}: {}", form.src, e),
                };
                for item in &items {
                    if let NestedMeta::Meta(m) = item {
                        for (entry, r) in [("from_nested_meta", <OwnDispatch as darling_core::FromMeta>::from_nested_meta(item)), ("from_meta", <OwnDispatch as darling_core::FromMeta>::from_meta(m))] {
                            let msg = r.err().map(|e| e.to_string()).unwrap_or_default();
                            ensure!(
                                msg.starts_with("own dispatcher reached"),
                                "c15:own-from_meta-bypassed",
                                "an implementer overriding from_meta, given `{}` through {}: `{}` (its from_meta was not called)",
                                form.src, entry, msg
                            );
                        }
                    }
                }
                Ok(())
            });
            // the default rejection of a non-literal value names the kind of expression: syn's variant name in snake case
            // (`Expr::MethodCall` -> `method_call`), one word per kind. (`&raw const x` - `Expr::RawAddr`, added to syn after the
            // table was written - falls under the catch-all "unknown"; the enum is non-exhaustive, so that is the declared
            // behaviour for kinds the table does not know, and it is not in this list.)
            const KIND_SRCS: &[&str] = &[
                "[1, 2]", "x = y", "x = y = 2", "async { 1 }", "x.await", "a + b", "x += 1", "{ 1 }", "break", "f(1)", "x as u8", "|a| a", "const { 1 }", "continue", "x.f",
                "for a in b { }", "if a { 1 } else { 2 }", "x[0]", "_", "let a = b", "loop { }", "m!()", "match x { _ => 1 }", "x.m()", "(x)", "a::b", "1..2",
                "&x", "[x; 2]", "return x", "S { a: 1 }", "x?", "(1, 2)", "!x", "-x", "unsafe { 1 }", "while a { }", "yield x",
            ];
            ok &= run_list(&ctx, KIND_SRCS.to_vec(), |ctx, src| {
                fresh_spans();
                ctx.set_render(json!({"default_rejection_of": src}));
                let m: syn::Meta = match syn::parse_str(&format!("p = {}", src)) {
                    Ok(m) => m,
                    Err(e) => fail!("c15:harness-render", "p = {}: {}", src, e),
                };
                let value = match &m {
                    syn::Meta::NameValue(nv) => &nv.value,
                    _ => unreachable!(),
                };
                let dbg = format!("{:?}", value);
                let variant: String = dbg.trim_start_matches("Expr::").chars().take_while(|c| c.is_alphanumeric()).collect();
                let mut snake = String::new();
                for (i, ch) in variant.chars().enumerate() {
                    if ch.is_uppercase() && i > 0 {
                        snake.push('_');
                    }
                    snake.extend(ch.to_lowercase());
                }
                ctx.class(&format!("expression-kind:{}", snake));
                let got = catch(|| probes::call_meta(0, &m)).map_err(|p| Fail::new("c15:panic", format!("`p = {}` panicked: {}", src, p)))?;
                let msg = got.err().map(|e| e.to_string()).unwrap_or_else(|| "Ok".into());
                ensure!(msg == format!("Unexpected type `{}`", snake), "c15:default-error-kind", "default rejection of `p = {}` (syn: Expr::{}) reads {:?}, expected \"Unexpected type `{}`\"", src, variant, msg, snake);
                Ok(())
            });
            ctx.set_exhaustive(true);
        }
        ctx.finish();
    }
    ok
}

/// Overrides `from_meta` itself (like Option, the smart pointers, darling's Result and derived newtypes do).
struct OwnDispatch;
impl darling_core::FromMeta for OwnDispatch {
    fn from_meta(_: &syn::Meta) -> darling_core::Result<Self> {
        Err(darling_core::Error::custom("own dispatcher reached"))
    }
}
