//! C18 part a: the stand-alone shape-set API, exhaustively: 16 sets x every carrier of every shape.

use darling_core::util::{AsShape, Shape, ShapeSet};
use serde::{Deserialize, Serialize};
use serde_json::json;
use vmodel::ev::{run_list, Args, Ctx, Fail};
use vmodel::util::fresh_spans;
use vmodel::{ensure, fail};

#[derive(Clone, Debug, Serialize, Deserialize, Hash)]
pub struct Case {
    /// bit 0 named, 1 tuple, 2 unit, 3 newtype
    pub set: u8,
    pub via_insert_all: bool,
    /// body source: a struct or a one-variant enum
    pub body: String,
    pub carrier: String,
}

const SHAPES: [Shape; 4] = [Shape::Named, Shape::Tuple, Shape::Unit, Shape::Newtype];

fn build(set: u8) -> ShapeSet {
    ShapeSet::new(SHAPES.iter().enumerate().filter(|(i, _)| set & (1 << i) != 0).map(|(_, s)| *s))
}

/// the documented table: a tuple word also admits newtypes, not the reverse
fn admits(set: u8, shape: Shape) -> bool {
    let has = |s: Shape| set & (1 << SHAPES.iter().position(|x| *x == s).unwrap()) != 0;
    match shape {
        Shape::Newtype => has(Shape::Newtype) || has(Shape::Tuple),
        s => has(s),
    }
}

fn shape_of_body(body: &str) -> (Shape, syn::DeriveInput) {
    let di: syn::DeriveInput = syn::parse_str(body).expect("body parses");
    let fields = match &di.data {
        syn::Data::Struct(s) => s.fields.clone(),
        syn::Data::Enum(e) => e.variants[0].fields.clone(),
        _ => unreachable!(),
    };
    let shape = match &fields {
        syn::Fields::Named(_) => Shape::Named,
        syn::Fields::Unit => Shape::Unit,
        syn::Fields::Unnamed(u) => {
            if u.unnamed.len() == 1 {
                Shape::Newtype
            } else {
                Shape::Tuple
            }
        }
    };
    (shape, di)
}

pub fn check(ctx: &Ctx, c: &Case) -> Result<(), Fail> {
    fresh_spans();
    let set = if c.via_insert_all {
        let mut s = ShapeSet::default();
        s.insert_all();
        s
    } else {
        build(c.set)
    };
    let bits = if c.via_insert_all { 15 } else { c.set };
    ensure!(set.is_empty() == (bits == 0), "c18a:is-empty", "is_empty() wrong for set {:#06b}", bits);
    let (shape, di) = shape_of_body(&c.body);
    let want = admits(bits, shape);
    let fields = match &di.data {
        syn::Data::Struct(s) => s.fields.clone(),
        syn::Data::Enum(e) => e.variants[0].fields.clone(),
        _ => unreachable!(),
    };
    let (got_shape, contains, check): (Shape, bool, Result<(), darling_core::Error>) = match c.carrier.as_str() {
        "Shape" => (shape.as_shape(), set.contains(&shape), set.check(&shape)),
        "syn::Fields" => (fields.as_shape(), set.contains(&fields), set.check(&fields)),
        "syn::FieldsNamed/Unnamed" => match &fields {
            syn::Fields::Named(n) => (n.as_shape(), set.contains(n), set.check(n)),
            syn::Fields::Unnamed(u) => (u.as_shape(), set.contains(u), set.check(u)),
            syn::Fields::Unit => (fields.as_shape(), set.contains(&fields), set.check(&fields)),
        },
        "syn::DataStruct/Variant" => match &di.data {
            syn::Data::Struct(s) => (s.as_shape(), set.contains(s), set.check(s)),
            syn::Data::Enum(e) => (e.variants[0].as_shape(), set.contains(&e.variants[0]), set.check(&e.variants[0])),
            _ => unreachable!(),
        },
        "ast::Fields" => {
            let f = darling_core::ast::Fields::<syn::Field>::try_from(&fields).expect("fields convert");
            (f.as_shape(), set.contains(&f), set.check(&f))
        }
        _ => unreachable!(),
    };
    ctx.nontrivial(c);
    ctx.class(&format!("shape:{:?}", shape));
    ctx.sample(|| json!(c));
    ensure!(got_shape == shape, "c18a:as-shape", "{} of `{}` is {:?}, expected {:?}", c.carrier, c.body, got_shape, shape);
    ensure!(
        contains == want,
        if shape == Shape::Newtype || bits & 2 != 0 { "c18a:contains:tuple-newtype" } else { "c18a:contains" },
        "set {:#06b} (named,tuple,unit,newtype) contains({} `{}`) = {}, table says {}",
        bits, c.carrier, c.body, contains, want
    );
    match check {
        Ok(()) => ensure!(want, "c18a:check-accepts", "check() accepted `{}` for set {:#06b}", c.body, bits),
        Err(e) => {
            ensure!(!want, "c18a:check-rejects", "check() rejected `{}` for set {:#06b}: {}", c.body, bits, e);
            ensure!(e.len() == 1, "c18a:check-error-count", "check() produced {} errors", e.len());
            if !e.to_string().starts_with("Unsupported shape") {
                fail!("c18a:check-error-kind", "check() error reads {:?}", e.to_string());
            }
        }
    }
    Ok(())
}

pub fn all_cases() -> Vec<Case> {
    let bodies = [
        "struct A;", "struct A {}", "struct A { a: u8 }", "struct A { a: u8, b: u8 }", "struct A();", "struct A(u8);", "struct A(u8, u8);",
        "struct A(u8, u8, u8);", "enum E { V }", "enum E { V {} }", "enum E { V { a: u8 } }", "enum E { V() }", "enum E { V(u8) }",
        "enum E { V(u8, u8) }", "enum E { V = 3 }",
    ];
    let carriers = ["Shape", "syn::Fields", "syn::FieldsNamed/Unnamed", "syn::DataStruct/Variant", "ast::Fields"];
    let mut v = vec![];
    for set in 0..16u8 {
        for b in bodies {
            for c in carriers {
                v.push(Case { set, via_insert_all: false, body: b.to_string(), carrier: c.to_string() });
            }
        }
    }
    for b in bodies {
        v.push(Case { set: 15, via_insert_all: true, body: b.to_string(), carrier: "syn::Fields".to_string() });
    }
    v
}

pub fn run(args: &Args) -> bool {
    let ctx = Ctx::new("C18", "shapeset", vmodel::ev::mix_seed(args.seed, "C18", "shapeset", args.shard), args);
    ctx.set_rule("part a, exhaustive: all 16 ShapeSets (and insert_all) x 15 bodies (4 struct styles with 0..3 fields, variants of every style) x 5 carriers of AsShape: contains / check / is_empty against the documented table (tuple admits newtype, not the reverse); check() errors are single Unsupported-shape errors");
    let ok = if let Some(path) = &args.replay {
        let (_, case) = vmodel::ev::load_replay_case(path);
        let c: Case = serde_json::from_value(case).expect("bad replay");
        run_list(&ctx, vec![c], check)
    } else {
        let r = run_list(&ctx, all_cases(), check);
        ctx.set_exhaustive(true);
        r
    };
    ctx.finish();
    ok
}
