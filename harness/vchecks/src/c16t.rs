//! C16, last clause: re-printing a converted field list reproduces the original fields (up to a
//! trailing comma). `ast::Fields<syn::Field>` / `ast::Data` built from generated bodies.

use darling_core::ast::{Data, Fields, Style};
use proptest::prelude::*;
use quote::ToTokens;
use serde_json::json;
use vmodel::dec::D;
use vmodel::ev::{run_list, run_prop, Args, Ctx, Fail};
use vmodel::util::{canon_tokens, catch, fresh_spans};
use vmodel::{ensure, fail};

const TYPES: &[&str] = &["u8", "String", "Vec<u8>", "Option<T>", "&'a str", "[u8; 4]", "(u8, T)", "Box<dyn Fn(T) -> u8>", "::std::string::String", "fn(u8) -> !"];
const VISES: &[&str] = &["", "pub ", "pub(crate) ", "pub(super) ", "pub(in crate::m) "];
const ATTRS: &[&str] = &["", "#[doc = \"d\"] ", "/// doc\n", "#[serde(default)] ", "#[a(b c)] #[d] "];

fn gen_fields(d: &mut D) -> (String, usize, &'static str) {
    let n = d.below(7);
    match d.below(3) {
        0 => {
            let fs: Vec<String> = (0..n).map(|j| format!("{}{}f{}: {}", d.pick(ATTRS), d.pick(VISES), j, d.pick(TYPES))).collect();
            let trailing = if n > 0 && d.bool() { "," } else { "" };
            (format!("{{ {}{} }}", fs.join(", "), trailing), n, "named")
        }
        1 => {
            let fs: Vec<String> = (0..n).map(|_| format!("{}{}{}", d.pick(ATTRS), d.pick(VISES), d.pick(TYPES))).collect();
            let trailing = if n > 0 && d.bool() { "," } else { "" };
            (format!("({}{})", fs.join(", "), trailing), n, "tuple")
        }
        _ => (String::new(), 0, "unit"),
    }
}

fn strip_trailing_comma(canon: &str) -> String {
    // `{ a , }` -> `{ a }`, `( a , )` -> `( a )`
    canon.replace(", }", "}").replace(", )", ")").replace(",}", "}").replace(",)", ")")
}

pub fn check_bytes(ctx: &Ctx, bytes: &Vec<u8>) -> Result<(), Fail> {
    fresh_spans();
    let mut d = D::new(bytes);
    let as_enum = d.ratio(1, 3);
    let (body, n, style) = gen_fields(&mut d);
    // generic parameters: lifetimes first, then type and const parameters in any order (allowed since Rust 1.59)
    let mut gparams: Vec<String> = vec![];
    let mut type_names: Vec<String> = vec![];
    for k in 0..d.below(3) {
        gparams.push(format!("'l{}", k));
    }
    for k in 0..d.below(5) {
        if d.ratio(2, 5) {
            gparams.push(format!("const N{}: usize", k));
        } else {
            let nm = format!("T{}", k);
            gparams.push(format!("{}{}", nm, *d.pick(&["", ": Clone", ": 'static + Copy"])));
            type_names.push(nm);
        }
    }
    let g = if gparams.is_empty() { String::new() } else { format!("<{}>", gparams.join(", ")) };
    let src = if as_enum {
        format!("enum E{} {{ V{} }}", g, body)
    } else {
        match style {
            "named" => format!("struct S{} {}", g, body),
            "tuple" => format!("struct S{}{};", g, body),
            _ => format!("struct S{};", g),
        }
    };
    ctx.set_render(json!(src));
    let di: syn::DeriveInput = match syn::parse_str(&src) {
        Ok(x) => x,
        Err(e) => fail!("c16t:harness-render", "`{}`: {}", src, e),
    };
    // the mirrored generics: every parameter in order, and `type_params()` reads back exactly the type parameters, in
    // order, wherever the const parameters stand
    {
        use darling_core::ast::{GenericParam, GenericParamExt, Generics};
        use darling_core::FromGenerics;
        let mirrored: Generics<GenericParam<syn::TypeParam>> = match FromGenerics::from_generics(&di.generics) {
            Ok(x) => x,
            Err(e) => fail!("c16t:generics-rejected", "`{}`: ast::Generics::from_generics failed: {}", src, e),
        };
        ensure!(mirrored.params.len() == di.generics.params.len(), "c16t:generics-params", "`{}`: {} mirrored parameters for {}", src, mirrored.params.len(), di.generics.params.len());
        let read: Vec<String> = mirrored.type_params().map(|t| t.ident.to_string()).collect();
        ensure!(read == type_names, "c16t:type_params", "`{}`: ast::Generics::type_params() yields {:?}, the type parameters are {:?}", src, read, type_names);
        let as_syn: Generics<syn::GenericParam> = match FromGenerics::from_generics(&di.generics) {
            Ok(x) => x,
            Err(e) => fail!("c16t:generics-rejected", "`{}`: ast::Generics<syn::GenericParam>::from_generics failed: {}", src, e),
        };
        let read: Vec<String> = as_syn.type_params().map(|t| t.ident.to_string()).collect();
        ensure!(read == type_names, "c16t:type_params", "`{}`: ast::Generics<syn::GenericParam>::type_params() yields {:?}, the type parameters are {:?}", src, read, type_names);
        for p in &mirrored.params {
            let _ = p.as_type_param();
        }
        if type_names.len() >= 2 && gparams.len() > type_names.len() {
            ctx.class("generics:mixed-kinds");
        }
    }
    let fields: &syn::Fields = match &di.data {
        syn::Data::Struct(s) => &s.fields,
        syn::Data::Enum(e) => &e.variants[0].fields,
        _ => unreachable!(),
    };
    let conv = match catch(|| Fields::<syn::Field>::try_from(fields)) {
        Ok(Ok(f)) => f,
        Ok(Err(e)) => fail!("c16t:fields-rejected", "Fields::<syn::Field>::try_from failed on `{}`: {}", src, e),
        Err(p) => fail!("c16t:panic", "Fields::try_from panicked on `{}`: {}", src, p),
    };
    ensure!(conv.len() == n, "c16t:count", "`{}`: {} fields converted, {} in the input", src, conv.len(), n);
    let want_style = match style {
        "named" => Style::Struct,
        "tuple" => Style::Tuple,
        _ => Style::Unit,
    };
    ensure!(conv.style == want_style, "c16t:style", "`{}`: style {:?}, expected {:?}", src, conv.style, want_style);
    // entries in source order
    for (i, (a, b)) in conv.iter().zip(fields.iter()).enumerate() {
        ensure!(
            canon_tokens(a.to_token_stream()) == canon_tokens(b.to_token_stream()),
            "c16t:entry-order-or-content",
            "`{}`: entry {} is `{}`, the input has `{}`",
            src,
            i,
            a.to_token_stream(),
            b.to_token_stream()
        );
    }
    // print round trip
    let printed = strip_trailing_comma(&canon_tokens(conv.to_token_stream()));
    let original = strip_trailing_comma(&canon_tokens(fields.to_token_stream()));
    ensure!(printed == original, "c16t:print-roundtrip", "`{}`: Fields prints `{}`, the original fields are `{}`", src, printed, original);
    // Data::try_from keeps kind and (for structs) the same list
    match Data::<syn::Variant, syn::Field>::try_from(&di.data) {
        Ok(Data::Struct(f)) => {
            ensure!(!as_enum && f.len() == n, "c16t:data-kind", "`{}`: Data::Struct with {} fields", src, f.len());
        }
        Ok(Data::Enum(vs)) => {
            ensure!(as_enum && vs.len() == 1, "c16t:data-kind", "`{}`: Data::Enum with {} variants", src, vs.len());
        }
        Err(e) => fail!("c16t:data-rejected", "Data::try_from failed on `{}`: {}", src, e),
    }
    if n >= 2 {
        ctx.nontrivial(&src);
    }
    ctx.class(&format!("style:{}", style));
    ctx.sample(|| json!(src));
    Ok(())
}

pub fn run(args: &Args) -> bool {
    let ctx = Ctx::new("C16", "fields-print", vmodel::ev::mix_seed(args.seed, "C16", "fields-print", args.shard), args);
    ctx.set_rule("struct and variant bodies of every style with 0..6 fields (attributes incl. doc comments and unparseable bodies, every visibility form, 10 type shapes, optional trailing comma) -> ast::Fields<syn::Field>::try_from: same style, one entry per field in order, to_tokens equals the original fields up to a trailing comma; ast::Data::try_from keeps the kind; the item's generics (0-2 lifetimes, 0-4 type and const parameters in any order) mirrored as ast::Generics: every parameter in order, type_params() yields exactly the type parameters in order. Non-trivial: >=2 fields");
    let ok = if let Some(path) = &args.replay {
        let (_, case) = vmodel::ev::load_replay_case(path);
        let b: Vec<u8> = serde_json::from_value(case).expect("bad replay");
        run_list(&ctx, vec![b], check_bytes)
    } else {
        run_prop(&ctx, args.cases as u32, prop::collection::vec(any::<u8>(), 0..96), check_bytes)
    };
    ctx.finish();
    ok
}
