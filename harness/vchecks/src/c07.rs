//! C07 part a: every built-in conversion, through every entry point, on arbitrary syntax: returns
//! Ok or Err, never panics.

use darling::util::{Callable, Flag, IdentString, Ignored, Override, PathList, SpannedValue, WithOriginal};
use darling_core::ast::NestedMeta;
use darling_core::FromMeta;
use proptest::prelude::*;
use serde_json::json;
use std::collections::{BTreeMap, HashMap};
use std::num::*;
use vmodel::dec::D;
use vmodel::digen;
use vmodel::ev::{run_list, run_prop, Args, Ctx, Fail};
use vmodel::util::{catch, fresh_spans};
use vmodel::fail;

/// Exercise every entry point of one target; returns how many calls were made.
fn drive<T: FromMeta>(m: &syn::Meta, nm: &NestedMeta) -> u64 {
    let _ = T::from_meta(m);
    let _ = T::from_nested_meta(nm);
    let _ = T::from_none();
    let _ = T::from_word();
    let mut n = 4;
    match m {
        syn::Meta::List(l) => {
            if let Ok(items) = NestedMeta::parse_meta_list(l.tokens.clone()) {
                let _ = T::from_list(&items);
                n += 1;
            }
        }
        syn::Meta::NameValue(nv) => {
            let _ = T::from_expr(&nv.value);
            n += 1;
            if let syn::Expr::Lit(l) = &nv.value {
                let _ = T::from_value(&l.lit);
                n += 1;
                match &l.lit {
                    syn::Lit::Str(s) => {
                        let _ = T::from_string(&s.value());
                        n += 1;
                    }
                    syn::Lit::Char(c) => {
                        let _ = T::from_char(c.value());
                        n += 1;
                    }
                    syn::Lit::Bool(b) => {
                        let _ = T::from_bool(b.value);
                        n += 1;
                    }
                    _ => {}
                }
            }
        }
        _ => {}
    }
    n
}

type Drive = fn(&syn::Meta, &NestedMeta) -> u64;

macro_rules! targets {
    ($($t:ty),* $(,)?) => { vec![$( (stringify!($t), drive::<$t> as Drive) ),*] };
}

pub fn all_targets() -> Vec<(&'static str, Drive)> {
    targets!(
        (), bool, std::sync::atomic::AtomicBool, char, String, std::path::PathBuf,
        u8, u16, u32, u64, u128, usize, i8, i16, i32, i64, i128, isize,
        NonZeroU8, NonZeroU16, NonZeroU32, NonZeroU64, NonZeroU128, NonZeroUsize,
        NonZeroI8, NonZeroI16, NonZeroI32, NonZeroI64, NonZeroI128, NonZeroIsize, f32, f64,
        syn::Path, syn::Ident, syn::Expr, syn::ExprArray, syn::ExprPath, syn::ExprRange,
        syn::Type, syn::TypeArray, syn::TypeBareFn, syn::TypeGroup, syn::TypeImplTrait, syn::TypeInfer, syn::TypeMacro, syn::TypeNever,
        syn::TypeParam, syn::TypeParen, syn::TypePath, syn::TypePtr, syn::TypeReference, syn::TypeSlice, syn::TypeTraitObject, syn::TypeTuple,
        syn::Visibility, syn::WhereClause, Vec<syn::WherePredicate>, syn::Lit, syn::LitInt, syn::LitFloat, syn::LitStr, syn::LitByte,
        syn::LitByteStr, syn::LitChar, syn::LitBool, proc_macro2::Literal, Vec<syn::LitInt>, Vec<syn::LitStr>, Vec<syn::LitBool>, Vec<syn::LitChar>,
        Vec<syn::LitFloat>, Vec<syn::LitByte>, Vec<syn::LitByteStr>, Vec<proc_macro2::Literal>,
        Vec<u8>, Vec<u16>, Vec<u32>, Vec<u64>, Vec<usize>, syn::Meta,
        syn::punctuated::Punctuated<syn::Ident, syn::Token![,]>, syn::punctuated::Punctuated<syn::Expr, syn::Token![;]>,
        ident_case::RenameRule,
        Option<u8>, Option<syn::Expr>, Box<String>, std::rc::Rc<i8>, std::sync::Arc<bool>, std::cell::RefCell<char>,
        darling_core::Result<u8>, Result<u8, syn::Meta>, Result<syn::Path, syn::Meta>,
        HashMap<String, u8>, HashMap<syn::Ident, String>, HashMap<syn::Path, syn::Expr>, BTreeMap<String, bool>, BTreeMap<syn::Ident, HashMap<String, u8>>,
        Flag, Ignored, PathList, SpannedValue<u8>, SpannedValue<syn::Path>, Override<u8>, Override<syn::Expr>, Override<Option<bool>>,
        WithOriginal<u8, syn::Meta>, Callable, IdentString, Option<Box<HashMap<String, Override<SpannedValue<i64>>>>>,
        // wrappers around targets that take an empty list, a word, or anything at all
        SpannedValue<PathList>, SpannedValue<HashMap<String, u8>>, SpannedValue<Ignored>, SpannedValue<Vec<syn::LitInt>>, SpannedValue<Flag>,
        SpannedValue<Result<u8, syn::Meta>>, WithOriginal<PathList, syn::Meta>, Override<PathList>, Override<HashMap<String, u8>>, Option<Ignored>,
        Box<BTreeMap<String, bool>>, darling_core::Result<PathList>, SpannedValue<Option<Override<Flag>>>, SpannedValue<()>, SpannedValue<syn::Meta>,
    )
}

pub fn check_bytes(ctx: &Ctx, bytes: &Vec<u8>) -> Result<(), Fail> {
    fresh_spans();
    let mut d = D::new(bytes);
    let text = digen::arb_item(&mut d, &[], 0);
    ctx.set_render(json!(text));
    let m: syn::Meta = match syn::parse_str(&text) {
        Ok(m) => m,
        Err(_) => {
            ctx.class("input-not-a-meta");
            return Ok(());
        }
    };
    // the same tokens in nested position; a literal for name-value items
    let nm = match &m {
        syn::Meta::NameValue(nv) => match &nv.value {
            syn::Expr::Lit(l) if d.bool() => NestedMeta::Lit(l.lit.clone()),
            _ => NestedMeta::Meta(m.clone()),
        },
        _ => NestedMeta::Meta(m.clone()),
    };
    // optionally wrap the value in an invisible group
    let m = if let (syn::Meta::NameValue(nv), true) = (&m, d.ratio(1, 5)) {
        use syn::spanned::Spanned;
        let v = &nv.value;
        let mut g = proc_macro2::Group::new(proc_macro2::Delimiter::None, quote::quote!(#v));
        g.set_span(v.span());
        let (p, eq) = (&nv.path, &nv.eq_token);
        syn::parse2(quote::quote!(#p #eq #g)).unwrap_or(m.clone())
    } else {
        m
    };
    ctx.class(match &m {
        syn::Meta::Path(_) => "form:word",
        syn::Meta::List(_) => "form:list",
        syn::Meta::NameValue(_) => "form:name-value",
    });
    if text.len() > 40 || text.contains("9999") || text.contains("340282") {
        ctx.nontrivial(&text);
    }
    ctx.sample(|| json!(text));
    for (name, f) in all_targets() {
        match catch(|| f(&m, &nm)) {
            Ok(n) => ctx.eval_n(n),
            Err(p) => fail!(format!("c07:panic:{}:{}", name, vmodel::util::panic_sig(&p)), "{}: a conversion entry point panicked on `{}`: {}", name, text, p),
        }
    }
    Ok(())
}

const REGRESS: &[&str] = &[
    "v = 340282366920938463463374607431768211456", "v = 1e999999", "v = \"\"", "v()", "v", "v = -170141183460469231731687303715884105729",
    "v = \"where\"", "v = \"[1, 2\"", "v([])", "v = []", "v(\"\")", "v = 0b1111111111111111111111111111111111111111111111111111111111111111111",
];

pub fn run(args: &Args) -> bool {
    let ctx = Ctx::new("C07", "builtins", vmodel::ev::mix_seed(args.seed, "C07", "builtins", args.shard), args);
    ctx.set_rule("part a: 120 built-in FromMeta targets (every scalar incl. NonZero and floats, syn types, literal kinds and vectors, numeric arrays, Punctuated, RenameRule, wrappers, maps, util types, a 5-level composition) x every entry point (from_meta, from_nested_meta, from_none, from_word, from_list, from_expr, from_value, from_string / from_char / from_bool) x arbitrary meta items: numbers beyond 128 bits and 60 digits, exponents of 10^6, every literal kind, invisible groups, nesting to depth 64, malformed strings (evaluations = entry-point calls); oracle: every call returns. Non-trivial: long / oversized inputs");
    if let Some(path) = &args.replay {
        let (_, case) = vmodel::ev::load_replay_case(path);
        let ok = if let Some(s) = case.as_str() {
            // a fixed text: decode nothing
            let t = s.to_string();
            run_list(&ctx, vec![t], |c, t| {
                fresh_spans();
                let m: syn::Meta = syn::parse_str(t).map_err(|e| Fail::new("c07:harness", e.to_string()))?;
                let nm = NestedMeta::Meta(m.clone());
                for (name, f) in all_targets() {
                    if let Err(p) = catch(|| f(&m, &nm)) {
                        fail!(format!("c07:panic:{}:{}", name, vmodel::util::panic_sig(&p)), "{} panicked on `{}`: {}", name, t, p);
                    }
                    c.eval();
                }
                Ok(())
            })
        } else {
            let b: Vec<u8> = serde_json::from_value(case).expect("bad replay");
            run_list(&ctx, vec![b], check_bytes)
        };
        ctx.finish();
        return ok;
    }
    let mut ok = run_list(&ctx, REGRESS.iter().map(|s| s.to_string()), |c, t| {
        fresh_spans();
        c.set_render(json!(t));
        let m: syn::Meta = syn::parse_str(t).map_err(|e| Fail::new("c07:harness", format!("{}: {}", t, e)))?;
        let nm = NestedMeta::Meta(m.clone());
        for (name, f) in all_targets() {
            match catch(|| f(&m, &nm)) {
                Ok(n) => c.eval_n(n),
                Err(p) => fail!(format!("c07:panic:{}:{}", name, vmodel::util::panic_sig(&p)), "{} panicked on `{}`: {}", name, t, p),
            }
        }
        Ok(())
    });
    ok &= run_prop(&ctx, args.cases as u32, prop::collection::vec(any::<u8>(), 0..200), check_bytes);
    ctx.finish();
    ok
}
