#!/usr/bin/env python3
"""Runs the checks against every seeded change in /verif/seeded/<name>/ (apply patch to /repo's working
tree, run ./check <property> in the quick tier, undo straight afterwards). Results -> seeded_results.json
  run_seeded.py [--only name,name] [--tier quick|thorough] [--props C01,C02]   (--props: run these checks instead of the seed's own)"""
import json, os, subprocess, sys, time

REPO, VERIF = "/repo", "/verif"


def sh(cmd, cwd=None):
    r = subprocess.run(cmd, shell=True, cwd=cwd, stdout=subprocess.PIPE, stderr=subprocess.STDOUT, text=True)
    return r.returncode, r.stdout


def main():
    only = None
    tier = "quick"
    props = None
    for i, a in enumerate(sys.argv):
        if a == "--only":
            only = set(sys.argv[i + 1].split(","))
        if a == "--tier":
            tier = sys.argv[i + 1]
        if a == "--props":
            props = sys.argv[i + 1].split(",")
    out = os.path.join(VERIF, "sensitivity", "seeded_results.json")
    results = json.load(open(out)) if os.path.exists(out) else []
    rc, o = sh("git status --porcelain --untracked-files=no", cwd=REPO)
    if o.strip():
        print("refusing: /repo has uncommitted changes"); sys.exit(2)
    for name in sorted(os.listdir(os.path.join(VERIF, "seeded"))):
        d = os.path.join(VERIF, "seeded", name)
        if only and name not in only:
            continue
        meta = json.load(open(os.path.join(d, "meta.json")))
        pid = meta["property"]
        rec = {"name": name, "property": pid, "checks": {}}
        rc, o = sh("git apply %s" % os.path.join(d, "patch.diff"), cwd=REPO)
        if rc != 0:
            print(name, "patch does not apply:", o[:300]); continue
        try:
            for p in (props or [pid]):
                t = time.time()
                rc, o = sh("./check %s --tier %s" % (p, tier), cwd=VERIF)
                viol = [l for l in o.splitlines() if l.startswith("VIOLATION")]
                sigs = [l for l in o.splitlines() if l.startswith("check: c") or l.startswith("check: l3")]
                rec["checks"][p] = {"exit": rc, "violations": len(viol), "first": (sigs[0][:400] if sigs else ""), "wall_s": round(time.time() - t, 1)}
        finally:
            sh("git checkout -- .", cwd=REPO)
        print(name, {k: (v["exit"], v["first"][:140]) for k, v in rec["checks"].items()}, flush=True)
        results = [r for r in results if r["name"] != name] + [rec]
        json.dump(results, open(out, "w"), indent=1)


if __name__ == "__main__":
    main()
