#!/usr/bin/env python3
"""Sensitivity runs: apply one deliberate breakage at a time to /repo (working tree only, reverted
straight afterwards), optionally run the repository's own tests, run the named checks, record the outcome.

  run_mutants.py mutants.json [--only id,id] [--with-repo-tests] [--out results.json]
"""
import json, os, subprocess, sys, time

REPO = "/repo"
VERIF = "/verif"


def sh(cmd, cwd=None, timeout=3600):
    r = subprocess.run(cmd, shell=True, cwd=cwd, stdout=subprocess.PIPE, stderr=subprocess.STDOUT, text=True, timeout=timeout)
    return r.returncode, r.stdout


def main():
    path = sys.argv[1]
    only = None
    with_tests = "--with-repo-tests" in sys.argv
    tests_only = "--tests-only" in sys.argv
    global REPO
    if "--repo" in sys.argv:
        REPO = sys.argv[sys.argv.index("--repo") + 1]
    out = os.path.join(os.path.dirname(path), "results.json")
    for i, a in enumerate(sys.argv):
        if a == "--only":
            only = set(sys.argv[i + 1].split(","))
        if a == "--out":
            out = sys.argv[i + 1]
    muts = json.load(open(path))
    results = []
    if os.path.exists(out):
        results = json.load(open(out))
    rc, o = sh("git status --porcelain --untracked-files=no", cwd=REPO)
    if o.strip():
        print("refusing: /repo has uncommitted changes"); sys.exit(2)
    for m in muts:
        if only and m["id"] not in only:
            continue
        f = os.path.join(REPO, m["file"])
        src = open(f).read()
        n = src.count(m["old"])
        if n < 1:
            print(m["id"], "SKIP: pattern not found"); continue
        new = src.replace(m["old"], m["new"], m.get("count", 1))
        for a, b in m.get("extra", []):
            new = new.replace(a, b)
        rec = {"id": m["id"], "property": m["property"], "file": m["file"], "what": m.get("what", ""), "expect": m.get("expect", "caught"), "checks": {}}
        try:
            open(f, "w").write(new)
            if with_tests or tests_only:
                rc, o = sh("CARGO_NET_OFFLINE=true cargo test --workspace --offline --no-fail-fast > /dev/null 2>&1", cwd=REPO)
                rec["repo_tests"] = "pass" if rc == 0 else "fail"
            for pid in ([] if tests_only else m["property"].split(",")):
                t = time.time()
                rc, o = sh("./check %s" % pid, cwd=VERIF)
                viol = [l for l in o.splitlines() if l.startswith("VIOLATION")]
                sigs = [l for l in o.splitlines() if l.startswith("check: c") or l.startswith("check: l3")]
                rec["checks"][pid] = {"exit": rc, "violations": len(viol), "first": (sigs[0][:300] if sigs else ""), "wall_s": round(time.time() - t, 1)}
        finally:
            sh("git checkout -- .", cwd=REPO)
        print(m["id"], rec.get("repo_tests", "-"), {k: (v["exit"], v["first"][:120]) for k, v in rec["checks"].items()}, flush=True)
        if tests_only:
            prev = [r for r in results if r["id"] == m["id"]]
            if prev:
                prev[0]["repo_tests"] = rec.get("repo_tests")
                rec = prev[0]
        results = [r for r in results if r["id"] != m["id"]] + [rec]
        json.dump(results, open(out, "w"), indent=1)


if __name__ == "__main__":
    main()
