#!/bin/bash
# Confirms a seeded change produced by a sub-agent in its scratch worktree /tmp/seed-<ID>:
#  1. the patch applies to a pristine checkout, compiles, and the repository's own suite stays green;
#  2. the demonstration fails with the patch and passes without it.
# Then copies patch.diff / demo.rs / notes.md to /verif/seeded/<name>/ and writes meta.json.
# usage: confirm_seed.sh <ID> <name> [worktree]
set -u
ID=$1; NAME=${2:-$1}
WT=${3:-/tmp/seed-$ID}
OUT=/verif/seeded/$NAME
export CARGO_NET_OFFLINE=true
cd $WT || exit 2
[ -f SEED/patch.diff ] || { echo "no patch"; exit 2; }
DEMO=$(ls tests/seed_demo*.rs 2>/dev/null | head -1)
[ -n "$DEMO" ] || { echo "no demo test file"; exit 2; }
cp $DEMO /tmp/seed-demo-$ID.rs
git checkout -q -- core macro src
# pristine: demo passes
T=$(basename $DEMO .rs)
P0=$(cargo test --offline --test $T 2>&1 | grep -E "^test result" | tail -1)
git apply SEED/patch.diff || { echo "patch does not apply"; exit 2; }
# with patch: demo fails
P1=$(cargo test --offline --test $T 2>&1 | grep -E "^test result|error(\[|:)" | tail -1)
# with patch: existing suite (without the demo) green
mv $DEMO /tmp/seed-demo-$ID.rs.moved
SUITE=$(cargo test --workspace --offline 2>&1 | grep -E "^test result|^error" | grep -v " 0 failed" | head -3)
NPASS=$(cargo test --workspace --offline 2>&1 | grep -E "^test result" | awk '{s+=$4} END {print s}')
mv /tmp/seed-demo-$ID.rs.moved $DEMO
echo "pristine demo: $P0"
echo "patched demo:  $P1"
echo "patched suite non-green lines: [$SUITE] passed=$NPASS"
mkdir -p $OUT
cp SEED/patch.diff $OUT/patch.diff
cp $DEMO $OUT/demo.rs
cp SEED/notes.md $OUT/notes.md 2>/dev/null
python3 - "$ID" "$NAME" "$P0" "$P1" "$SUITE" "$NPASS" <<'PY'
import json, sys
ID, NAME, P0, P1, SUITE, NPASS = sys.argv[1:7]
ok = (" 0 failed" in P0) and ("FAILED" in P1 or "could not compile" in P1 or ("failed" in P1 and " 0 failed" not in P1)) and SUITE.strip() == ""
meta = {"property": ID, "name": NAME, "confirmed": ok,
        "demo_on_pristine_tree": P0, "demo_with_patch": P1, "existing_suite_with_patch": "green (%s tests passed)" % NPASS if SUITE.strip() == "" else SUITE,
        "what_i_ran": ["git checkout -- core macro src; cargo test --offline --test seed_demo   (pristine: must pass)",
                        "git apply patch.diff; cargo test --offline --test seed_demo   (patched: must fail)",
                        "cargo test --workspace --offline with the demo moved aside   (patched: must stay green)"]}
json.dump(meta, open("/verif/seeded/%s/meta.json" % NAME, "w"), indent=1)
print("CONFIRMED" if ok else "NOT CONFIRMED", NAME)
PY
