#!/usr/bin/env python3
"""Which lines of darling does the quick tier execute?  (development aid, not a registered check)

Builds the harness and the generated crates with `-C instrument-coverage` (nightly, for its
llvm-tools) into a scratch directory, runs every step of every check once with its quick-tier work,
and reports line coverage of /repo/core/src per file together with the lines never executed -
at run time (library code under the checks) and at derive time (the proc-macro running inside rustc
while the generated crates compile, plus darling_core::derive::* called in-process by C06/C10/C19).
A line the quick tier never executes is a generator blind spot worth looking at.

  coverage.py [--scratch DIR] [--keep]      -> /verif/sensitivity/coverage/{summary.txt,uncovered.txt}
"""
import glob, json, os, shutil, subprocess, sys

ROOT = os.path.dirname(os.path.dirname(os.path.abspath(__file__)))
H = os.path.join(ROOT, "harness")
sys.path.insert(0, os.path.join(ROOT, "lib"))
from table import CHECKS  # noqa: E402


def sh(cmd, env=None, cwd=None, check=True):
    r = subprocess.run(cmd, env=env, cwd=cwd, stdout=subprocess.PIPE, stderr=subprocess.STDOUT, text=True)
    if check and r.returncode not in (0, 1):
        print(r.stdout[-4000:])
        raise SystemExit("failed: %s" % " ".join(cmd))
    return r


def main():
    scratch = "/tmp/verif-cov"
    if "--scratch" in sys.argv:
        scratch = sys.argv[sys.argv.index("--scratch") + 1]
    keep = "--keep" in sys.argv
    shutil.rmtree(scratch, ignore_errors=True)
    prof = os.path.join(scratch, "prof")
    os.makedirs(prof)
    sysroot = subprocess.check_output(["rustc", "+nightly", "--print", "sysroot"], text=True).strip()
    tools = os.path.join(sysroot, "lib", "rustlib", "x86_64-unknown-linux-gnu", "bin")
    env = dict(os.environ, CARGO_NET_OFFLINE="true", RUSTFLAGS="-C instrument-coverage", RUSTUP_TOOLCHAIN="nightly",
               LLVM_PROFILE_FILE=os.path.join(prof, "p-%p-%m.profraw"))
    tmain = os.path.join(scratch, "target")
    tgen = os.path.join(scratch, "target-gen")
    sh(["cargo", "build", "--manifest-path", os.path.join(H, "Cargo.toml"), "-p", "vchecks", "-p", "vgen"], env=dict(env, CARGO_TARGET_DIR=tmain))
    vgen = os.path.join(tmain, "debug", "vgen")
    objects = [os.path.join(tmain, "debug", "vchecks")]
    built = {}
    done = set()
    for pid, spec in sorted(CHECKS.items()):
        for step in spec["steps"]:
            if "argv" in step or step.get("only_tier") == "thorough":
                continue
            key = (step.get("bin") or step["gen"]["name"], step["sub"])
            if key in done:
                continue
            done.add(key)
            cases = step["cases"]["quick"]
            if "gen" in step:
                g = step["gen"]
                if g["name"] not in built:
                    out = os.path.join(scratch, "gen", g["name"])
                    cmd = [vgen, "--seed", "1000", "--n", str(g["n"]["quick"]), "--out", out, "--name", g["name"], "--kind", g.get("kind", "main")]
                    if g.get("no_default_features"):
                        cmd.append("--no-default-features")
                    sh(cmd, env=env)
                    sh(["cargo", "build", "--manifest-path", os.path.join(out, "Cargo.toml")], env=dict(env, CARGO_TARGET_DIR=tgen))
                    built[g["name"]] = os.path.join(tgen, "debug", g["name"])
                    objects.append(built[g["name"]])
                exe = built[g["name"]]
            else:
                exe = os.path.join(tmain, "debug", step["bin"])
            od = os.path.join(scratch, "out", "%s.%s" % key)
            os.makedirs(od, exist_ok=True)
            cmd = [exe, step["sub"], "--seed", "1", "--cases", str(cases), "--out", od, "--replays", os.path.join(scratch, "replays"),
                   "--known", os.path.join(ROOT, "known_findings.txt"), "--shard", "0", "--nshards", "1", "--tier", "quick"]
            for k, v in step.get("extra", {}).get("quick", {}).items():
                cmd += ["--" + k, str(v)]
            r = sh(cmd, env=env, cwd=H, check=False)
            print("ran", pid, key, "rc", r.returncode, flush=True)
    # the proc-macro dylib(s) that ran inside rustc
    objects += glob.glob(os.path.join(tgen, "debug", "deps", "libdarling_macro-*.so")) + glob.glob(os.path.join(tmain, "debug", "deps", "libdarling_macro-*.so"))
    merged = os.path.join(scratch, "all.profdata")
    raws = glob.glob(os.path.join(prof, "*.profraw"))
    listing = os.path.join(scratch, "raws.txt")
    open(listing, "w").write("\n".join(raws))
    sh([os.path.join(tools, "llvm-profdata"), "merge", "-sparse", "-f", listing, "-o", merged])
    objs = []
    for o in objects:
        objs += ["-object", o]
    outdir = os.path.join(ROOT, "sensitivity", "coverage")
    os.makedirs(outdir, exist_ok=True)
    rep = sh([os.path.join(tools, "llvm-cov"), "report", "-instr-profile", merged] + objs[1:] + ["/repo/core/src"], check=False)
    # (llvm-cov wants the first object without the -object flag)
    rep = sh([os.path.join(tools, "llvm-cov"), "report", "-instr-profile", merged, objects[0]] + sum([["-object", o] for o in objects[1:]], []) + ["/repo/core/src"], check=False)
    open(os.path.join(outdir, "summary.txt"), "w").write(rep.stdout)
    exp = sh([os.path.join(tools, "llvm-cov"), "export", "-format=lcov", "-instr-profile", merged, objects[0]] + sum([["-object", o] for o in objects[1:]], []) + ["/repo/core/src"], check=False)
    # lcov: SF:<file> / DA:<line>,<count>
    unc = {}
    cur = None
    for line in exp.stdout.splitlines():
        if line.startswith("SF:"):
            cur = line[3:]
        elif line.startswith("DA:") and cur:
            ln, cnt = line[3:].split(",")[:2]
            if int(cnt) == 0:
                unc.setdefault(cur, []).append(int(ln))
    with open(os.path.join(outdir, "uncovered.txt"), "w") as f:
        for path in sorted(unc):
            src = open(path).read().split("\n")
            in_tests = None
            for i, l in enumerate(src):
                if l.startswith("#[cfg(test)]"):
                    in_tests = i + 1
                    break
            lines = [n for n in sorted(set(unc[path])) if in_tests is None or n < in_tests]
            if not lines:
                continue
            f.write("== %s (%d lines never executed)\n" % (path, len(lines)))
            for n in lines:
                f.write("%5d  %s\n" % (n, src[n - 1]))
    print(rep.stdout[-3000:])
    if not keep:
        shutil.rmtree(scratch, ignore_errors=True)


if __name__ == "__main__":
    main()
