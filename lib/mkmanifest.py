#!/usr/bin/env python3
"""Regenerates /verif/MANIFEST.json from lib/table.py (run after editing the table)."""
import json, os, sys
ROOT = os.path.dirname(os.path.dirname(os.path.abspath(__file__)))
sys.path.insert(0, os.path.join(ROOT, "lib"))
from table import CHECKS
from texts import TEXTS, HOOK_COMMITS

props = [json.loads(l) for l in open(os.path.join(ROOT, "properties.jsonl"))]
checks = []
na = []
for p in props:
    pid = p["id"]
    if pid in CHECKS and pid in TEXTS:
        t = TEXTS[pid]
        checks.append({
            "property_id": pid,
            "quick_cmd": "./check %s --tier quick" % pid,
            "thorough_cmd": "./check %s --tier thorough" % pid,
            "evidence_file": "/verif/evidence/%s.json" % pid,
            "replay_cmd_template": "./check %s --replay {path}" % pid,
            "engine": t.get("engine", "proptest"),
            "level_claimed": {"category": "exploration", "text": t["level"], "design_ref": t["ref"]},
            "level_note": t["note"],
            "technique": t["technique"],
        })
    else:
        na.append({"property_id": pid, "reason": "check not built yet in this session (planned, see DESIGN.md section 3)"})
m = {
    "version": 1,
    "setup_cmd": "./setup.sh",
    "hooks": {
        "guard": "darling_verif",
        "enable": "no hooks are needed: every observation goes through darling's public API (RUSTFLAGS --cfg darling_verif is reserved and unused)",
        "baseline_off_cmd": "cd /repo && cargo test --workspace --no-fail-fast --offline",
        "source_commits": HOOK_COMMITS,
        "add_only": True,
    },
    "engines": [
        {"name": "proptest", "path": "/verif/harness", "serves_properties": [c["property_id"] for c in checks],
         "kind_free_text": "proptest 1.11 TestRunner driven from binaries (fixed ChaCha seed derived from VERIF_SEED, no persistence), explicit oracles, shrunk failures written as JSON replays"},
        {"name": "libfuzzer (cargo-fuzz 0.13)", "path": "/verif/harness/fuzzing",
         "serves_properties": sorted(pid for pid, spec in CHECKS.items() if any(str(st.get("sub", "")).startswith("fuzz-") for st in spec["steps"])),
         "kind_free_text": "thorough tier only: coverage-guided campaigns with -runs=N -seed=S on a fresh corpus; targets derive_total / runtime_total / meta_list (totality, round trip) and `oracle`, which runs the semantic oracle of an L1/L2 proptest step on libFuzzer's bytes (same structure-aware decoders; built without --cfg fuzzing so that proc-macro2 keeps span locations); failures are saved in the proptest step's replay format"},
        {"name": "rustc (cargo check)", "path": "/verif/harness/gen/l3c20", "serves_properties": ["C20"],
         "kind_free_text": "oracle of C20: the generated crate of receiver declarations must type-check"},
    ],
    "checks": checks,
    "not_applicable": na,
    "notes": "All checks are ./check <id>; it rebuilds the harness (and through cargo path dependencies darling itself) from /repo's working tree on every invocation.",
}
json.dump(m, open(os.path.join(ROOT, "MANIFEST.json"), "w"), indent=1)
print("wrote MANIFEST.json with", len(checks), "checks,", len(na), "not_applicable")
