#!/usr/bin/env python3
"""A libFuzzer campaign as a check step (thorough tier): fixed number of runs, fixed seed, fresh corpus
seeded from fuzz/seeds/<target>. The semantic oracle lives inside the target (a violated oracle or a
panic of darling aborts the run and leaves an artifact, which becomes the replay file).

  fuzz_step.py --target T --prop Cxx --runs N --seed S --shard K --out DIR --replays DIR [--replay FILE]
exit 0 = no crash, 1 = violation, 2 = machinery failure"""
import glob, json, os, re, shutil, struct, subprocess, sys, time, hashlib

FZ = "/verif/harness/fuzzing"


def arg(name, default=None):
    if name in sys.argv:
        return sys.argv[sys.argv.index(name) + 1]
    return default


def main():
    target = arg("--target")
    prop = arg("--prop")
    runs = int(arg("--runs", "100000"))
    seed = int(arg("--seed", "1"))
    shard = int(arg("--shard", "0"))
    out = arg("--out")
    replays = arg("--replays", "/verif/harness/replays")
    replay = arg("--replay")
    sub = arg("--sub")
    env = dict(os.environ, CARGO_NET_OFFLINE="true", CARGO_TERM_COLOR="never")
    if sub:
        # the `oracle` target: which semantic oracle runs is chosen through the environment
        env.update(VERIF_FUZZ_SUB=sub, VERIF_SEED=str(seed), VERIF_FUZZ_SHARD=str(shard), VERIF_FUZZ_REPLAYS=replays,
                   VERIF_KNOWN=os.path.join(os.path.dirname(os.path.dirname(os.path.abspath(__file__))), "known_findings.txt"))
    if sub:
        # Built by hand with cargo-fuzz's instrumentation flags but WITHOUT `--cfg fuzzing`: under that cfg
        # proc-macro2 switches span locations off, and most oracles here are about spans.
        flags = ("-Cpasses=sancov-module -Cllvm-args=-sanitizer-coverage-level=4 -Cllvm-args=-sanitizer-coverage-inline-8bit-counters "
                 "-Cllvm-args=-sanitizer-coverage-pc-table -Cllvm-args=-sanitizer-coverage-trace-compares "
                 "-Cllvm-args=-simplifycfg-branch-fold-threshold=0 -Ccodegen-units=1 -Cdebug-assertions")
        tdir = os.path.join(FZ, "target-oracle")
        b = subprocess.run(["cargo", "+nightly", "build", "--release", "--bin", target, "--target", "x86_64-unknown-linux-gnu", "--target-dir", tdir],
                           cwd=os.path.join(FZ, "fuzz"), env=dict(env, RUSTFLAGS=flags), stdout=subprocess.PIPE, stderr=subprocess.STDOUT, text=True)
        runner = [os.path.join(tdir, "x86_64-unknown-linux-gnu", "release", target)]
    else:
        b = subprocess.run(["cargo", "+nightly", "fuzz", "build", "-s", "none", target], cwd=FZ, env=env, stdout=subprocess.PIPE, stderr=subprocess.STDOUT, text=True)
        runner = ["cargo", "+nightly", "fuzz", "run", "-s", "none", target]
    if b.returncode != 0:
        print(b.stdout[-4000:], file=sys.stderr)
        sys.exit(2)
    step = "fuzz-" + (sub or target)
    label = "%s-%s" % (target, sub) if sub else target
    if replay:
        art = json.load(open(replay))["case"]["artifact"] if replay.endswith(".json") else replay
        r = subprocess.run(runner + [art], cwd=FZ, env=env, stdout=subprocess.PIPE, stderr=subprocess.STDOUT, text=True)
        crashed = r.returncode != 0
        frag = {"property": prop, "step": step, "seed": seed, "evaluations": 1, "distinct_nontrivial": 0, "rule": "replay of one saved input", "classes": {}, "samples": [],
                "violations": ([{"sig": "fuzz:" + target, "msg": r.stdout[-1500:], "replay": replay}] if crashed else []), "known_hits": {}, "excluded_known": 0, "exhaustive": None, "notes": []}
        os.makedirs(out, exist_ok=True)
        json.dump(frag, open(os.path.join(out, "%s.%s.json" % (prop, step)), "w"))
        sys.exit(1 if crashed else 0)
    corpus = os.path.join(FZ, "fuzz", "corpus-run", "%s-%d" % (label, shard))
    shutil.rmtree(corpus, ignore_errors=True)
    os.makedirs(corpus)
    # both starts: shard 0 from an empty corpus, the others from the seed files
    if shard != 0:
        for f in glob.glob(os.path.join(FZ, "fuzz", "seeds", sub or target, "*")):
            shutil.copy(f, corpus)
    artdir = os.path.join(FZ, "fuzz", "artifacts-run", "%s-%d" % (label, shard)) + "/"
    shutil.rmtree(artdir, ignore_errors=True)
    os.makedirs(artdir)
    t0 = time.time()
    r = subprocess.run(runner + [corpus] + ([] if sub else ["--"]) + ["-runs=%d" % runs, "-seed=%d" % (seed * 100 + shard + 1),
                        "-max_len=600", "-len_control=0", "-artifact_prefix=" + artdir, "-print_final_stats=1"],
                       cwd=FZ, env=env, stdout=subprocess.PIPE, stderr=subprocess.STDOUT, text=True)
    log = r.stdout
    done = re.search(r"Done (\d+) runs", log)
    execs = re.search(r"stat::number_of_executed_units:\s+(\d+)", log)
    n = int(execs.group(1)) if execs else (int(done.group(1)) if done else 0)
    arts = sorted(glob.glob(artdir + "*"))
    violations = []
    # out-of-memory, timeouts and leak reports are failures of the campaign, not verdicts about darling
    resource = [a for a in arts if os.path.basename(a).startswith(("oom-", "timeout-", "leak-"))]
    # (slow-unit-* files are informational: libFuzzer goes on; syn's expression parser is exponential on chains of `..-..-`)
    arts = [a for a in arts if not os.path.basename(a).startswith("slow-unit-")]
    if resource or ("libFuzzer: out-of-memory" in log) or ("libFuzzer: timeout" in log):
        print("fuzz step %s: libFuzzer stopped on a resource limit (%s); inconclusive, not a violation\n%s" % (step, ", ".join(os.path.basename(a) for a in resource) or "see log", log[-1500:]), file=sys.stderr)
        sys.exit(2)
    if r.returncode != 0 or arts:
        os.makedirs(replays, exist_ok=True)
        panic = re.search(r"panicked at [^\n]*\n([^\n]*)", log)
        fv = re.search(r"FUZZ-VIOLATION sig=(\S+) :: ([^\n]*)", log)
        msg = (fv.group(0) if fv else panic.group(0) if panic else log[-1200:])
        keep = None
        jr = re.search(r"FUZZ-REPLAY (\S+)", log)
        if arts:
            keep = os.path.join(replays, "%s-%s-s%d-%d.bin" % (prop, step, seed, shard))
            shutil.copy(arts[0], keep)
        path = os.path.join(replays, "%s-%s-s%d-%d.json" % (prop, step, seed, shard))
        json.dump({"property": prop, "step": step, "seed": seed, "signature": "fuzz:%s:%s" % (target, re.sub(r"[0-9]+", "#", msg)[:80]), "message": msg,
                   "case": {"artifact": keep, "target": target}}, open(path, "w"), indent=1)
        if not arts and n == 0:
            print(log[-3000:], file=sys.stderr)
            sys.exit(2)
        if jr and os.path.exists(jr.group(1)):
            # the oracle saved the failing case in the format of the proptest step: `./check <id> --replay` runs it without libFuzzer
            path = jr.group(1)
        violations.append({"sig": "fuzz:%s:%s" % (target, re.sub(r"[0-9]+", "#", msg)[:80]), "msg": msg[:1500], "replay": path})
    files = sorted(glob.glob(os.path.join(corpus, "*")))
    hashes = [int.from_bytes(hashlib.sha256(open(f, "rb").read()).digest()[:8], "little") for f in files]
    samples = []
    for f in files[:4]:
        data = open(f, "rb").read()
        samples.append({"corpus_input_hex": data[:60].hex(), "as_text": data[:120].decode("utf-8", "replace")})
    cov = re.findall(r"cov: (\d+)", log)
    frag = {"property": prop, "step": step, "seed": seed, "evaluations": n, "distinct_nontrivial": len(files),
            "rule": "libFuzzer (cargo-fuzz, coverage-guided, sanitizers off: darling has no unsafe) target `%s`, -runs=%d -seed=%d, fresh corpus (shard 0 empty, others seeded from fuzz/seeds), bytes decoded through the same structure-aware grammars as the proptest checks; oracle inside the target. Non-trivial: inputs libFuzzer kept in its corpus (each reached new coverage); distinct by content" % (target, runs, seed * 100 + shard + 1),
            "classes": {"final-coverage-edges": int(cov[-1]) if cov else 0, "corpus-files": len(files)}, "samples": samples, "violations": violations, "known_hits": {}, "excluded_known": 0,
            "exhaustive": None, "notes": ["%.0f s" % (time.time() - t0)]}
    os.makedirs(out, exist_ok=True)
    json.dump(frag, open(os.path.join(out, "%s.%s.json" % (prop, step)), "w"), indent=1)
    open(os.path.join(out, "%s.%s.nt" % (prop, step)), "wb").write(struct.pack("<%dQ" % len(hashes), *hashes))
    shutil.rmtree(corpus, ignore_errors=True)
    sys.exit(1 if violations else 0)


if __name__ == "__main__":
    main()
