"""Per-property manifest texts."""
HOOK_COMMITS = []

TEXTS = {
    "C03": {
        "level": "Generated-input search: random error trees (and, for part b, the failing cases of the derived-receiver and built-in conversion checks parsed from one source text so every token has a byte range) against a span model: first attached span wins, span-less leaves inherit the nearest enclosing bundle's span, spanned diagnostics show the bare message and unspanned ones the path.",
        "ref": "DESIGN.md section 3 C03",
        "note": "Fallback spans of proc-macro2 (span-locations) stand in for compiler spans; containment of byte ranges is checked, not how rustc renders them.",
        "technique": "property-based testing (proptest) against a span model",
    },
    "C04": {
        "level": "Generated-input search over error trees (14 constructors, arity 1..5, depth<=5, at/with_span/clone/flatten interleaved at every node) compared with a list model of leaves, paths and messages; 5*10^4 trees quick, 2.4*10^6 thorough.",
        "ref": "DESIGN.md section 3 C04",
        "note": "The model is ~100 lines written from the property statement; syn's compile_error rendering is trusted.",
        "technique": "property-based testing (proptest) against a list model",
    },
    "C05": {
        "level": "Model-based testing of operation histories (vec(op,0..24) + terminal op) against a recorded-list model with uniquely labelled errors; the unwinding case runs in child processes so that a double panic is observable.",
        "ref": "DESIGN.md section 3 C05",
        "note": "Panics are observed through catch_unwind and a panic hook; process abort is observed as the child's exit status.",
        "technique": "stateful property-based testing (proptest op sequences + interpreter)",
    },
    "C06": {
        "level": "Grammar-based generated-input search: DeriveInput source text (every data shape, generics, #[darling] bodies from option lists with valid and invalid values to arbitrary token trees) fed to all six derive functions under catch_unwind; oracle: the output is items, exactly one impl of the requested trait XOR >=1 compile_error!. Quick 6*10^4 items (3.6*10^5 derive calls); thorough 3.2*10^6 items. A second step expands generated items with the real proc macros under rustc (400 quick, 12 000 thorough): no diagnostic may say that a derive panicked.",
        "ref": "DESIGN.md section 3 C06",
        "note": "Drives darling_core::derive::* in-process (what macro/src/lib.rs calls after parse_macro_input!); a panic is observed through a panic hook. The rustc step observes a panic as the compiler's 'proc-macro derive panicked' diagnostic (proc_macro::Span differs from proc-macro2's fallback: join, hygiene).",
        "technique": "grammar-based property testing (proptest bytes -> structured decoder), totality oracle",
    },
    "C10": {
        "level": "Generated declarations against an independent rule table: exhaustive over all ordered 1/2/3-tuples of field options, container options (per derive) and variant options in every split over attributes (45 709 declarations), plus random declarations with invalid values, foreign names, magic fields and every body shape (6*10^4 quick, 3.2*10^6 thorough). Checks impl iff no rule violated, every certainly-reportable rule has a diagnostic inside the offending tokens, every diagnostic lies inside the tokens of a violated rule.",
        "ref": "DESIGN.md section 3 C10 and Appendix C",
        "note": "The rule table is hand-transcribed from the statement; which violations are 'certain to be reported' follows the statement's scoping (one element / fields of one struct / variants of one enum). One listed known finding (default after from_ident) is attributed by pattern.",
        "technique": "exhaustive enumeration of small option tuples + grammar-based property testing against a rule-table oracle",
    },
    "C19": {
        "level": "Constructive generated-input search: types built from 30 syn::Type forms (depth<=5) with parameters and lifetimes planted at labelled use / non-use / qualified-self positions, random query sets with decoys, both purposes, every carrier (Type, Field, Fields, Data, Vec, iterator, ast::Fields); and generic receiver declarations for all six derives whose emitted impl is parsed and compared with the declaration plus the FromMeta bound on exactly the parameters used by parsed fields.",
        "ref": "DESIGN.md section 3 C19",
        "note": "Expected sets are known by construction; token comparison of generics/where-clause after canonical printing.",
        "technique": "property-based testing with planted ground truth (proptest bytes -> type grammar)",
    },
    "C11": {
        "level": "Exhaustive over every integer in [-70000, 70000] and every 8..128-bit boundary +-2, quoted and unquoted, into all 24 integer targets (7*10^6 conversions per run), plus random radix/underscore/suffix/sign literals up to 45 digits, float strings and literals (bit-exact), bool/char/String/PathBuf spellings and wrong literal kinds; oracle is the target type's own str::parse.",
        "ref": "DESIGN.md section 3 C11",
        "note": "An unquoted integer literal into a float target and a negative literal that syn delivers as a unary expression may only fail or give exactly the denoted value.",
        "technique": "exhaustive enumeration + property-based testing, differential against std::str::FromStr",
    },
    "C14": {
        "level": "Generated item lists (0..12 items, controlled key repetition incl. a::b vs ::a::b, multi-segment keys, literal items, bad values) into all five map instantiations x five value types, against a list model of the error leaves and a differential check of every entry against the element type's own conversion; hash and ordered maps compared on the same input.",
        "ref": "DESIGN.md section 3 C14",
        "note": "Leaves are recognised by their fixed message prefixes and location path.",
        "technique": "property-based testing against a list model + differential (hash vs btree, entry vs element conversion)",
    },
    "C13": {
        "level": "Differential generated-input search: fragments from grammars of paths, identifiers, expressions, types, visibilities, where-clauses and malformed text converted by 27 syntax-valued targets in quoted, bare and invisible-group spelling (plus Callable, the parse_expr helpers, the literal kinds and vectors of them, numeric arrays, PathList and whole meta items) and compared token-for-token with syn parsing the same fragment directly.",
        "ref": "DESIGN.md section 3 C13",
        "note": "TypeGroup and proc_macro2::Literal (Lit::Verbatim) cannot be produced from source text and are only exercised on the rejection side.",
        "technique": "differential property-based testing against syn's own parser",
    },
    "C15": {
        "level": "Part a: lists valid by construction must parse, keep order and class, and round-trip through printing; single-token mutations must be rejected where invalidity is provable (4*10^4 lists + mutants quick). Part b: exhaustive over 128 hook-override patterns x 15 item forms x invisible group x 3 hook outcomes x 2 entry points (20 736 routes) - exactly one hook, the documented default error otherwise, spans per the contract.",
        "ref": "DESIGN.md section 3 C15",
        "note": "The 128 probe implementers are a generated, committed file (harness/vchecks/src/probes.rs).",
        "technique": "grammar-based property testing with round-trip oracle + exhaustive enumeration of override patterns",
    },
    "C12": {
        "level": "Differential generated-input search: 717 wrapper instantiations (10 wrappers over 15 inner targets, 81 two-level compositions over 7) against the wrapped type's own conversion on the same item, over a fixed pool of 43 items of every form plus random items from the meta grammar; from_none checked against the statement's table.",
        "ref": "DESIGN.md section 3 C12",
        "note": "Each wrapper's documented behaviour is a 5-line model function composed inside-out; spans compared as byte ranges.",
        "technique": "differential property-based testing (wrapper vs wrapped type)",
    },
    "C18": {
        "level": "Part a is exhaustive over the run-time shape-set API (16 sets x 15 bodies x 5 carriers). Part b compiles receivers declaring only supports(..) - a covering family of 96 FromDeriveInput word subsets in the quick tier, all 2^11 in the thorough tier, plus all 32 FromVariant subsets - and runs each on all 352 bodies (4 struct styles with 0..3 fields, all 341 enums of 0..4 variants over the four variant styles, odd variants, a union): the number of shape errors must equal the documented table and the ShapeSet verdict.",
        "ref": "DESIGN.md section 3 C18",
        "note": "The documented table is four lines (tuple admits newtype, not the reverse).",
        "technique": "exhaustive enumeration against the documented table",
    },
    "C01": {
        "level": "Two-stage generated-input search over programs and inputs: 300 receiver declarations per run (quick; 16 x 300 thorough) decoded from the seed, emitted as a real crate and compiled by rustc against the working tree; per receiver, mistake-free inputs generated from its own spec and compared with a reference interpreter of the declaration (value of every field, defaults at both levels, multiple, flatten hand-off, transforms, from_ident).",
        "ref": "DESIGN.md sections 2 and 3 C01",
        "note": "The oracle is a model written from the statement and README (vmodel/src/model.rs), sharing no code with darling's code generator; ident_case is called directly for the case rules.",
        "technique": "two-stage property-based testing (generated programs compiled, then generated inputs) against a reference model",
    },
    "C02": {
        "level": "Same generated receivers; inputs with 0..8 injected mistakes of every kind at any depth; the flattened error leaves must equal the model's leaves as a multiset of (kind, subject, path), Err iff >=1 mistake, len() == leaf count.",
        "ref": "DESIGN.md section 3 C02",
        "note": "Leaves are recognised by their fixed message prefixes; index digits in name[i] are normalised away; messages originating in std/syn are matched as 'custom'.",
        "technique": "fault-injecting property-based testing against a reference model of the error multiset",
    },
    "C08": {
        "level": "Metamorphic generated-input search: for generated element-level receivers and item sequences (clean or faulty), ALL partitions of <=6 items into consecutive attributes (random beyond), under any declared name, with empty/bare attributes and foreign attributes (incl. unparseable bodies) interspersed, must give the identical value or identical ordered errors as the single-attribute rendering; forwarded attributes compared token-for-token with the input attributes selected by forward_attrs on 90 receivers of the magic batch.",
        "ref": "DESIGN.md section 3 C08",
        "note": "Only well-formed item sequences are partitioned; names never appear both in attributes(..) and forward_attrs(..).",
        "technique": "metamorphic property-based testing over generated programs",
    },
    "C09": {
        "level": "For every FromMeta enum of the generated batch (~65 per run, 16x thorough) the (form, name) space over a closed alphabet (effective names, Rust names, names under all six case rules, skipped variants, one-edit neighbours) is enumerated completely, plus generated good and faulty payloads for newtype and struct variants and the absent form; compared with the enum part of the reference model.",
        "ref": "DESIGN.md section 3 C09",
        "note": "One listed known finding (skip + word on one variant) is probed by a fixed receiver and otherwise excluded from generation.",
        "technique": "exhaustive enumeration per generated program against a reference model",
    },
    "C16": {
        "level": "Generated-input search over elements: 92 receivers covering every subset of each trait's magic fields (with wrappers, `with` converters, inner FromField/FromVariant/FromTypeParam receivers, supports) on generated structs / enums / unions with generics, where-clauses, discriminants, every visibility form and faulty body attributes; magic fields compared token-wise with the input parts, body conversion with a list model.",
        "ref": "DESIGN.md section 3 C16",
        "note": "Expected values are computed from the abstract element the text was rendered from.",
        "technique": "property-based testing with construct-then-render inputs and a token-level oracle",
    },
    "C17": {
        "level": "Generated receivers with deliberately close names (flatten chains of depth 3, skip, rename, enums with skipped variants) and unknown names at edit distance 0..3 from valid, skipped, flatten-member and parent names; oracle: suggestion is a valid name at that position, not the rejected one, maximal jaro_winkler > 0.8, absent iff none qualifies, accepted when followed; the same crate built without the feature must give the same leaves without suggestions.",
        "ref": "DESIGN.md section 3 C17",
        "note": "strsim is trusted; a tie between equal candidates is not a violation.",
        "technique": "property-based testing with an optimality oracle + feature on/off differential",
    },
    "C07": {
        "level": "Negative-space generated-input search: 120 built-in conversion targets through all ten entry points on arbitrary meta items (oversized numbers, every literal kind, invisible groups, depth-64 nesting), and every receiver of three generated crates (~525 receivers: C01 option space, all magic-field subsets, supports(..) families, forward_attrs in all three forms) on arbitrary parseable items of every shape whose attributes range from well-formed lists to token soup; the oracle is that every call returns.",
        "ref": "DESIGN.md section 3 C07",
        "note": "Panics are observed with catch_unwind plus a hook that records the message; the thorough tier adds the libFuzzer target runtime_total where registered.",
        "technique": "grammar-based fuzzing / property testing with a no-panic oracle",
    },
    "C20": {
        "level": "Generated programs compiled by rustc: ~370 accepted receiver declarations per run (16 x ~520 thorough) - the C01/C09/C16 option space with hostile field names plus templates for generics, closures, generic paths, hostile variant names, newtype/unit receivers and nested modules - emitted as one crate that has no dependency named `syn` and imports nothing; `cargo check` must report no error, errors are attributed to receivers by line range.",
        "ref": "DESIGN.md section 3 C20",
        "note": "Bounded by compile cost and by the declaration grammar; one listed known finding (container default on an enum with a struct variant) is probed by a fixed template.",
        "technique": "generated-program compilation (rustc as oracle) over a grammar of accepted declarations",
        "engine": "vgen + cargo check",
    },
}
