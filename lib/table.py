"""Which steps decide which property, and with how much work per tier."""

L1_ASSUME = [
    "proc-macro2 fallback spans with span-locations stand in for rustc spans (byte ranges carry over, rendering does not)",
    "syn, proc-macro2, quote, proptest are trusted",
]


def vc(sub, step, quick, thorough, shards_thorough=16, extra=None, produces=None):
    d = {"bin": "vchecks", "sub": sub, "step": step, "produces": produces or [step],
         "cases": {"quick": quick, "thorough": thorough},
         "shards": {"quick": 1, "thorough": shards_thorough}}
    if extra:
        d["extra"] = extra
    return d


L3_ASSUME = L1_ASSUME + [
    "the reference model (harness/vmodel/src/model.rs) is the reading of the property statements and the README; user callables come from a tagged library whose effect the model knows",
    "generated receivers are compiled by rustc against /repo's working tree; receivers cover the generator's option grammar, not all Rust programs",
]
GEN_MAIN = {"name": "l3main", "kind": "main", "n": {"quick": 300, "thorough": 300}}
GEN_MAGIC = {"name": "l3magic", "kind": "magic", "n": {"quick": 200, "thorough": 200}}
GEN_SHAPES = {"name": "l3shapes", "kind": "shapes", "n": {"quick": 200, "thorough": 2048}}
GEN_SUGG = {"name": "l3sugg", "kind": "sugg", "n": {"quick": 100, "thorough": 100}}
GEN_SUGG_OFF = {"name": "l3sugg_off", "kind": "sugg", "n": {"quick": 100, "thorough": 100}, "no_default_features": True}


def l3(sub, step, quick, thorough, shards_thorough=16, gen=GEN_MAIN, extra=None):
    d = {"gen": gen, "sub": sub, "step": step, "cases": {"quick": quick, "thorough": thorough},
         "shards": {"quick": 1, "thorough": shards_thorough}}
    if extra:
        d["extra"] = {"quick": extra, "thorough": extra}
    return d


def c20_argv(tier, seed, shard, out):
    import os
    root = os.path.dirname(os.path.dirname(os.path.abspath(__file__)))
    return ["python3", os.path.join(root, "lib", "c20_check.py"), "--seed", str(seed), "--tier", tier, "--shard", str(shard),
            "--out", out, "--replays", os.path.join(root, "harness", "replays"), "--known", os.path.join(root, "known_findings.txt")]


def c06_rustc_argv(tier, seed, shard, out):
    import os
    root = os.path.dirname(os.path.dirname(os.path.abspath(__file__)))
    return ["python3", os.path.join(root, "lib", "c06_rustc.py"), "--seed", str(seed), "--tier", tier, "--shard", str(shard),
            "--out", out, "--replays", os.path.join(root, "harness", "replays"), "--known", os.path.join(root, "known_findings.txt")]


def fuzz(target, prop, runs, shards=8, sub=None):
    """A libFuzzer campaign as a thorough-tier step. With `sub`, the target is `oracle` and the semantic
    oracle of the named L1/L2 check runs on libFuzzer's bytes (vchecks::fuzz)."""
    import os
    root = os.path.dirname(os.path.dirname(os.path.abspath(__file__)))

    def argv(tier, seed, shard, out):
        a = ["python3", os.path.join(root, "lib", "fuzz_step.py"), "--target", target, "--prop", prop, "--runs", str(runs), "--seed", str(seed),
             "--shard", str(shard), "--out", out, "--replays", os.path.join(root, "harness", "replays")]
        if sub:
            a += ["--sub", sub]
        return a
    name = "fuzz-" + (sub or target)
    return {"argv": argv, "sub": name, "step": name, "cases": {"quick": 0, "thorough": runs},
            "shards": {"quick": 1, "thorough": shards}, "only_tier": "thorough"}


def fz(prop, sub, runs=400000, shards=4):
    return fuzz("oracle", prop, runs, shards=shards, sub=sub)


CHECKS = {
    "C20": {
        "packages": ["vchecks", "vgen"],
        "steps": [{"argv": c20_argv, "sub": "c20", "step": "compile", "cases": {"quick": 1, "thorough": 1}, "shards": {"quick": 1, "thorough": 16}}],
        "assumptions": ["rustc (cargo check) is the oracle; receivers cover the generator's option grammar plus hand-written templates, not all Rust programs",
                        "field types meet the documented trait requirements by construction (FromMeta types, Default where `default` is used)"],
    },
    "C01": {
        "packages": ["vchecks", "vgen"],
        "steps": [l3("c01", "l3", 90000, 24000000)],
        "assumptions": L3_ASSUME,
    },
    "C02": {
        "packages": ["vchecks", "vgen"],
        "steps": [l3("c02", "l3", 150000, 24000000), l3("c02-body", "body", 100000, 6400000, gen=GEN_MAGIC)],
        "assumptions": L3_ASSUME,
    },
    "C03": {
        "packages": ["vchecks", "vgen"],
        "steps": [vc("c03a", "api", 100000, 8000000), vc("c03-maps", "maps", 20000, 4000000), vc("c03s", "builtins", 40000, 8000000, produces=["seqs", "hooks"]), l3("c03b", "l3", 150000, 24000000),
                  l3("c03-enums", "enums", 1, 1), l3("c03-body", "body", 100000, 6400000, gen=GEN_MAGIC),
                  fz("C03", "c03-api"), fz("C03", "c03-maps"), fz("C03", "c03-seqs"), fz("C03", "c03-hooks")],
        "assumptions": L1_ASSUME,
    },
    "C04": {
        "packages": ["vchecks"],
        "steps": [vc("c04", "trees", 50000, 16000000), fz("C04", "c04", 500000, 8)],
        "assumptions": L1_ASSUME,
    },
    "C06": {
        "packages": ["vchecks"],
        "steps": [vc("c06", "derive", 60000, 8000000),
                  {"argv": c06_rustc_argv, "sub": "c06-rustc", "step": "rustc", "cases": {"quick": 1, "thorough": 1}, "shards": {"quick": 1, "thorough": 8}},
                  fuzz("derive_total", "C06", 400000)],
        "assumptions": L1_ASSUME + ["darling_core::derive::* is what the proc-macro entry points in macro/src/lib.rs call after syn parsing; inputs are items syn accepts"],
    },
    "C10": {
        "packages": ["vchecks"],
        "steps": [vc("c10", "random", 60000, 16000000, produces=["random", "exhaustive"]), fz("C10", "c10", 400000, 8)],
        "assumptions": L1_ASSUME + ["the rule table (harness/vchecks/src/c10.rs, DESIGN.md Appendix C) is the reading of the property statement; options the statement does not define (bound, word = false, valued from_ident, attributes on pass-through magic fields, n-tuples under element-level derives) are not generated"],
    },
    "C19": {
        "packages": ["vchecks"],
        "steps": [vc("c19", "usage", 40000, 8000000, produces=["usage", "bounds"]), fz("C19", "c19a"), fz("C19", "c19b", 150000, 8)],
        "assumptions": L1_ASSUME + ["the expected answer is known by construction (the generator labels every planted occurrence); binder lifetimes are drawn from a pool that is never queried"],
    },
    "C11": {
        "packages": ["vchecks"],
        "steps": [vc("c11", "ints", 40000, 8000000, produces=["ints-exhaustive", "ints-random", "misc"]), fz("C11", "c11-ints", 1000000), fz("C11", "c11-misc", 1000000)],
        "assumptions": L1_ASSUME + ["std's FromStr for the integer/float types is the reference; the harness's own arbitrary-precision radix conversion gives the decimal digits of unquoted literals"],
    },
    "C14": {
        "packages": ["vchecks"],
        "steps": [vc("c14", "maps", 30000, 8000000), fz("C14", "c14", 300000, 8)],
        "assumptions": L1_ASSUME + ["the element types' own from_meta is the reference for entry values (differential)"],
    },
    "C13": {
        "packages": ["vchecks"],
        "steps": [vc("c13", "fragments", 20000, 3200000, produces=["fragments", "lits", "numeric", "meta-pathlist"]),
                  fz("C13", "c13-fragments", 60000, 8), fz("C13", "c13-lits"), fz("C13", "c13-numeric"), fz("C13", "c13-meta")],
        "assumptions": L1_ASSUME + ["syn parsing the fragment directly as the target type is the reference (differential); token comparison ignores punct spacing and invisible groups"],
    },
    "C15": {
        "packages": ["vchecks"],
        "steps": [vc("c15", "lists", 200000, 8000000, produces=["lists", "routing"]), fuzz("meta_list", "C15", 2000000), fz("C15", "c15", 1000000)],
        "assumptions": L1_ASSUME + ["the documented default chain (from_meta -> from_word/from_list/from_expr -> from_value -> from_bool/from_string/from_char) is read off the FromMeta trait docs"],
    },
    "C12": {
        "packages": ["vchecks"],
        "steps": [vc("c12", "wrappers", 4000, 256000), fz("C12", "c12", 8000, 8)],
        "assumptions": L1_ASSUME + ["the wrapped type's own from_meta on the same item is the reference (differential)"],
    },
    "C18": {
        "packages": ["vchecks", "vgen"],
        "steps": [vc("c18a", "shapeset", 1, 1, 1), l3("c18b", "derived", 1, 1, 1, gen=GEN_SHAPES), l3("c18-body", "body", 60000, 3200000, gen=GEN_MAGIC)],
        "assumptions": L3_ASSUME,
    },
    "C07": {
        "packages": ["vchecks", "vgen"],
        "steps": [vc("c07", "builtins", 12000, 640000),
                  l3("c07b", "recv-main", 150000, 12800000, extra={"stepname": "recv-main"}),
                  l3("c07b", "recv-magic", 40000, 6400000, gen=GEN_MAGIC, extra={"stepname": "recv-magic"}),
                  l3("c07b", "recv-shapes", 30000, 800000, 4, gen=GEN_SHAPES, extra={"stepname": "recv-shapes"}),
                  fuzz("runtime_total", "C07", 1500000)],
        "assumptions": L3_ASSUME + ["a panic is observed through catch_unwind and a panic hook; documented panics (Data::empty_from on a union, Error::multiple(vec![]), IdentString::map) are not entry points and are not called"],
    },
    "C08": {
        "packages": ["vchecks", "vgen"],
        "steps": [l3("c08", "partitions", 60000, 2400000), l3("c08-forward", "forward", 100000, 6400000, gen=GEN_MAGIC)],
        "assumptions": L3_ASSUME + ["merging is checked metamorphically (every partition against the single-attribute rendering), forwarding against the input attributes selected by the declaration"],
    },
    "C09": {
        "packages": ["vchecks", "vgen"],
        "steps": [l3("c09", "enums", 1, 1)],
        "assumptions": L3_ASSUME,
    },
    "C16": {
        "packages": ["vchecks", "vgen"],
        "steps": [l3("c16", "magic", 150000, 12800000, gen=GEN_MAGIC), vc("c16t", "fields-print", 100000, 4000000), fz("C16", "c16t")],
        "assumptions": L3_ASSUME,
    },
    "C17": {
        "packages": ["vchecks", "vgen"],
        "steps": [l3("c17", "suggestions-on", 40000, 6400000, gen=GEN_SUGG),
                  l3("c17", "suggestions-off", 20000, 800000, gen=GEN_SUGG_OFF, extra={"feature": "off"}),
                  vc("c17a", "api", 100000, 4000000)],
        "assumptions": L3_ASSUME + ["strsim::jaro_winkler is called directly as trusted third-party code; ties between equally similar candidates are accepted either way"],
    },
    "C05": {
        "packages": ["vchecks"],
        "steps": [vc("c05", "histories", 200000, 16000000), fz("C05", "c05", 1000000, 8)],
        "assumptions": L1_ASSUME + ["a double panic is observed as the child process not exiting 0"],
    },
}
