#!/usr/bin/env python3
"""C20: every emitted implementation compiles and is self-contained.
Generates a crate of receivers (vgen --kind c20) that has NO dependency named `syn`, runs
`cargo check --message-format=json` and attributes every error to a receiver by its line range.

  c20_check.py --seed N --tier quick|thorough --shard K --out DIR --replays DIR --known FILE [--replay FILE]
exit 0 = all receivers compile (known findings tolerated), 1 = violation, 2 = machinery failure
"""
import json, os, re, subprocess, sys, time

H = "/verif/harness"


def arg(name, default=None):
    if name in sys.argv:
        return sys.argv[sys.argv.index(name) + 1]
    return default


def load_known(path):
    out = []
    if path and os.path.exists(path):
        for line in open(path):
            line = line.strip()
            if line.startswith("known:") and "property=C20 " in line:
                head = line[len("known:"):].split(" :: ")[0]
                if " sig=" in head:
                    out.append(head.split(" sig=", 1)[1].strip())
    return out


def signature(diag, key, source):
    code = (diag.get("code") or {}).get("code") or "error"
    msg = diag.get("message", "")
    if code == "E0425" and "__default" in msg and re.search(r"#\[darling\([^)]*\bdefault\b[^)]*\)\]\s*pub enum", source or ""):
        return "c20:enum-container-default-with-struct-variant"
    norm = re.sub(r"`[^`]*`", "`_`", msg)
    norm = re.sub(r"[0-9]+", "#", norm)[:80]
    return "c20:%s:%s" % (code, norm)


def main():
    seed = int(arg("--seed", "1"))
    tier = arg("--tier", "quick")
    shard = int(arg("--shard", "0"))
    out = arg("--out")
    replays = arg("--replays", os.path.join(H, "replays"))
    known = load_known(arg("--known"))
    replay = arg("--replay")
    n = 250 if tier == "quick" else 400
    only = None
    if replay:
        r = json.load(open(replay))
        seed, shard, n = r["case"]["seed"], r["case"]["shard"], r["case"]["n"]
        only = r["case"]["receiver"]
    name = "l3c20" + ("_s%d" % shard if shard else "")
    gdir = os.path.join(H, "gen", name)
    env = dict(os.environ, CARGO_NET_OFFLINE="true", CARGO_TARGET_DIR=os.path.join(H, "target-gen"), CARGO_TERM_COLOR="never")
    t0 = time.time()
    r = subprocess.run([os.path.join(H, "target", "debug", "vgen"), "--seed", str(seed * 1000 + shard), "--n", str(n), "--kind", "c20",
                        "--out", gdir, "--name", name], stdout=subprocess.PIPE, stderr=subprocess.STDOUT, text=True)
    if r.returncode != 0:
        print(r.stdout[-3000:], file=sys.stderr)
        sys.exit(2)
    meta = json.load(open(os.path.join(gdir, "receivers.json")))
    src_lines = open(os.path.join(gdir, "src", "main.rs")).read().split("\n")
    diags = []
    # the same crate twice: with darling's default features, and without them (feature `suggestions` off)
    for config, extra in (("default-features", []), ("no-default-features", ["--no-default-features"])):
        r = subprocess.run(["cargo", "check", "--message-format=json", "--manifest-path", os.path.join(gdir, "Cargo.toml")] + extra,
                           env=env, stdout=subprocess.PIPE, stderr=subprocess.PIPE, text=True)
        found = 0
        for line in r.stdout.splitlines():
            try:
                m = json.loads(line)
            except Exception:
                continue
            if m.get("reason") == "compiler-message" and m.get("target", {}).get("name") == name:
                d = m["message"]
                if d.get("level") == "error":
                    d["verif_config"] = config
                    diags.append(d)
                    found += 1
        if r.returncode != 0 and not found:
            # a dependency failed or cargo itself: not a verdict about emitted code
            print(r.stderr[-4000:], file=sys.stderr)
            sys.exit(2)
    ranges = meta["ranges"]

    def owner(line):
        for key, a, b in ranges:
            if a <= line <= b:
                return key, a, b
        return None, 0, 0

    per = {}
    for d in diags:
        spans = [s for s in d.get("spans", []) if s.get("is_primary")] or d.get("spans", [])

        def in_crate(sp):
            # a span inside a std macro (`vec!`) points into another file: follow the expansion back to the crate
            hops = 0
            while sp is not None and not sp.get("file_name", "").endswith("src/main.rs") and hops < 20:
                sp = (sp.get("expansion") or {}).get("span")
                hops += 1
            return sp

        line = 0
        for sp in spans + [x for x in d.get("spans", []) if x not in spans]:
            sp = in_crate(sp)
            if sp is not None:
                line = sp["line_start"]
                break
        # macro expansions point into the derive attribute of the receiver
        key, a, b = owner(line)
        if key is None:
            if "aborting due to" in d.get("message", ""):
                continue
            key = "?"
        per.setdefault(key, []).append((d, a, b))
    violations = []
    known_hits = {}
    os.makedirs(replays, exist_ok=True)
    for key, items in sorted(per.items()):
        if only and key != only:
            continue
        d, a, b = items[0]
        source = "\n".join(src_lines[a - 1:b]) if a else ""
        sig = signature(d, key, source)
        if sig in known:
            known_hits[sig] = known_hits.get(sig, 0) + 1
            continue
        path = os.path.join(replays, "C20-compile-s%d-%s.json" % (seed, key))
        json.dump({"property": "C20", "step": "compile", "seed": seed, "signature": sig,
                   "message": "receiver %s does not compile: %s" % (key, d.get("rendered", d.get("message", ""))[:3000]),
                   "case": {"seed": seed, "shard": shard, "n": n, "receiver": key},
                   "rendered": {"source": source, "errors": [x[0].get("message") for x in items][:10]}}, open(path, "w"), indent=1)
        violations.append({"sig": sig, "msg": "receiver %s does not compile with %s (%s): %s\n%s" % (key, d.get("verif_config"), (d.get("code") or {}).get("code"), d.get("message"), source[:1500]), "replay": path})
    # evidence fragment
    classes = {"receivers": len(ranges), "receivers:generated-specs": len(meta["specs"]), "receivers:templates": len(meta["extras"])}
    opt_re = re.compile(r"#\[darling\(")
    nontrivial = 0
    nt_hashes = []
    hostile = 0
    samples = []
    for key, a, b in ranges:
        source = "\n".join(src_lines[a - 1:b])
        item = source.split("\nimpl ")[0]
        if opt_re.search(item):
            nontrivial += 1
            import hashlib
            nt_hashes.append(int.from_bytes(hashlib.sha256(("%d/%d/%s" % (seed, shard, item)).encode()).digest()[:8], "little"))
        if re.search(r"pub (e|i|x|len|errors|default|skip|map|with|multiple|flatten|rename|item|items|lit|value|input|r#\w+):", item):
            hostile += 1
        if len(samples) < 6 and (hash(key) % 37 == 0 or len(samples) < 2):
            samples.append({"receiver": key, "declaration": " ".join(item.split())[:700]})
    classes["receivers:with-darling-options"] = nontrivial
    classes["receivers:hostile-field-names"] = hostile
    classes["receivers:generated-generic"] = sum(1 for k, v in meta["extras"].items() if "GG" in v)
    classes["receivers:generic-with-flatten"] = sum(1 for k, v in meta["extras"].items() if "GG" in v and "flatten" in v)
    frag = {"property": "C20", "step": "compile", "seed": seed, "evaluations": len(ranges), "distinct_nontrivial": nontrivial,
            "rule": "accepted receiver declarations of the C01/C09/C16 option space (%d generated specs with field names from a hostile pool: darling's option words, plausible locals of generated code such as e / i / len / errors / item / value, raw identifiers) plus randomly composed generic receivers (1-3 type parameters named T / U / Item / Vec / Option / Result / Error / FromMeta / Box / String ..., each used by fields in random roles: ordinary, Option, multiple, flatten, boxed, map value, SpannedValue / Override / Rc wrappers, a generic receiver of its own, skipped with or without a user-declared Default bound, inline or in a where-clause; lifetime and const parameters; structs for all six traits with random magic fields, and enums) plus hand-written templates (generic receivers with lifetime, bounded and const params and where-clauses for all six traits, closures and generic paths for with / map / default / and_then, enums with variant names Ok / Err / Some / None, newtype and unit receivers, a receiver inside a nested module) emitted as ONE crate whose syn dependency is renamed (no crate called `syn` in scope) and which imports nothing; oracle: `cargo check` reports no error, with darling's default features and with `--no-default-features`; each error is attributed to a receiver through its line range. evaluations = receivers compiled. Non-trivial: the declaration carries at least one #[darling(..)] option; distinct by construction (one declaration each)" % len(meta["specs"]),
            "classes": classes, "samples": samples, "violations": violations, "known_hits": known_hits, "excluded_known": 0, "exhaustive": None,
            "notes": ["cargo check took %.1fs" % (time.time() - t0)]}
    os.makedirs(out, exist_ok=True)
    json.dump(frag, open(os.path.join(out, "C20.compile.json"), "w"), indent=1)
    import struct
    open(os.path.join(out, "C20.compile.nt"), "wb").write(struct.pack("<%dQ" % len(nt_hashes), *nt_hashes))
    sys.exit(1 if violations else 0)


if __name__ == "__main__":
    main()
